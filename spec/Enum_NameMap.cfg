SPECIFICATION Spec
CONSTANTS
  Shapes <- ShapesAll
  MaxOps = 3
  NewNames = {"x"}
  AnyFuncOrder = FALSE
  SkipActiveInIndex = FALSE
  EmitBySlot = FALSE
INVARIANTS
  EmitCase
CHECK_DEADLOCK FALSE
