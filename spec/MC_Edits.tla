------------------------------ MODULE MC_Edits ------------------------------
EXTENDS Edits

(* model: a small initial state, any sequence of edits up to a bound *)
CONSTANTS InitStates, MaxEdits, BodyRefs   \* BodyRefs: the bodies new functions may have (sequences of <<space,id>>)
VARIABLE nedits
mvars == <<st, nedits>>

LiveRefs(s, refs) == \A q \in DOMAIN refs : IsLive(s, refs[q][1], refs[q][2])

EditStep ==
  /\ nedits < MaxEdits /\ nedits' = nedits + 1
  /\ \/ \E f \in LiveIds(st, "func"), b \in BodyRefs : CanReplaceImported(st, f) /\ LiveRefs(st, b) /\ st' = ReplaceImported(st, f, b)
     \/ \E f \in LiveIds(st, "func"), b \in BodyRefs : CanReplaceExported(st, f) /\ LiveRefs(st, b) /\ st' = ReplaceExported(st, f, b)
     \/ \E sp \in ESpaces : \E id \in LiveIds(st, sp) : CanDelete(st, sp, id) /\ st' = Delete(st, sp, id)
     \/ \E k \in DOMAIN st.exports : st' = DeleteExport(st, k)
     \/ \E sp \in {"func", "table", "memory", "global"} : \E id \in LiveIds(st, sp) : st' = AddExport(st, "x" \o ToString(nedits), sp, id)
     \/ \E b \in BodyRefs : LiveRefs(st, b) /\ st' = AddFunc(st, "()->()", b)
     \/ st' = AddImportFunc(st, "n" \o ToString(nedits), "()->()")
     \/ st' = AddGlobal(st, TRUE, 7)
     \/ st' = AddMemory(st, 1)
     \/ st' = AddTable(st, 1)
     \/ st' = AddPassiveData(st, "d")
     \/ \E m \in LiveIds(st, "memory") : st' = AddActiveData(st, m, [k |-> "const", v |-> "i32:0", r |-> -1], "d")
     \/ \E f \in LiveIds(st, "func") : st' = AddPassiveElem(st, <<f>>)
     \/ \E f \in LiveIds(st, "func") : st.funcs[f + 1].sig = "()->()" /\ st' = SetStart(st, f)
     \/ st' = SetStart(st, -1)

EInit == st \in InitStates /\ nedits = 0
ESpec == EInit /\ [][EditStep]_mvars


\* C02 (design level): well-formed edits keep the module closed, hence every get_*_index of a later emit is defined
WFInvariant == WF(st)

\* C18 (design level): what a replacement changes, and nothing else
SameExcept(a, b, fields) == \A fl \in {"funcs", "tables", "memories", "globals", "elems", "data", "imports", "exports", "start"} \ fields : a[fl] = b[fl]
ReplaceImportedRewiresOneThing ==
  \A f \in LiveIds(st, "func"), b \in BodyRefs :
    CanReplaceImported(st, f) =>
      LET n == ReplaceImported(st, f, b) IN
      /\ SameExcept(st, n, {"funcs", "imports"})
      /\ Len(n.funcs) = Len(st.funcs)
      /\ \A g \in DOMAIN st.funcs : g # f + 1 => n.funcs[g] = st.funcs[g]
      /\ n.funcs[f + 1].live /\ ~n.funcs[f + 1].imported /\ n.funcs[f + 1].sig = st.funcs[f + 1].sig
      /\ Len(n.imports) = Len(st.imports) - 1
      /\ \A i \in Ran(n.imports) : i \in Ran(st.imports) /\ ~(i.kind = "func" /\ i.target = f)
ReplaceExportedRewiresOneThing ==
  \A f \in LiveIds(st, "func"), b \in BodyRefs :
    CanReplaceExported(st, f) =>
      LET n == ReplaceExported(st, f, b) IN
      /\ SameExcept(st, n, {"funcs", "exports"})
      /\ Len(n.funcs) = Len(st.funcs) + 1
      /\ \A g \in DOMAIN st.funcs : n.funcs[g] = st.funcs[g]
      /\ n.funcs[Len(n.funcs)].sig = st.funcs[f + 1].sig /\ ~n.funcs[Len(n.funcs)].imported
      /\ Len(n.exports) = Len(st.exports)
      /\ Cardinality({k \in DOMAIN st.exports : n.exports[k] # st.exports[k]}) = 1
      /\ \A k \in DOMAIN st.exports : n.exports[k] # st.exports[k] =>
            (st.exports[k].target = f /\ n.exports[k].target = Len(st.funcs) /\ n.exports[k].name = st.exports[k].name)

C0 == [k |-> "const", v |-> "i32:0", r |-> -1]
F(imp, refs) == [live |-> TRUE, imported |-> imp, sig |-> "()->()", refs |-> refs, name |-> (IF imp THEN "" ELSE "n")]
S1 == [funcs |-> <<F(TRUE, <<>>), F(FALSE, <<<<"func", 0>>, <<"global", 0>>>>), F(FALSE, <<<<"func", 1>>>>)>>,
       tables |-> <<[live |-> TRUE, imported |-> FALSE, ty |-> "funcref min=2 max=none t64=false shared=false"]>>,
       memories |-> <<[live |-> TRUE, imported |-> FALSE, ty |-> "min=1 max=none m64=false shared=false pagelog2=none"]>>,
       globals |-> <<[live |-> TRUE, imported |-> FALSE, ty |-> "i32 mut=true shared=false", init |-> C0]>>,
       elems |-> <<[live |-> TRUE, mode |-> "active", table |-> 0, offset |-> C0, ety |-> "funcref",
                    items |-> <<[k |-> "func", v |-> "", r |-> 0], [k |-> "func", v |-> "", r |-> 2]>>]>>,
       data |-> <<[live |-> TRUE, mode |-> "active", mem |-> 0, offset |-> C0, len |-> 1, digest |-> "d"]>>,
       imports |-> <<[module |-> "env", field |-> "i", kind |-> "func", target |-> 0]>>,
       exports |-> <<[name |-> "f", kind |-> "func", target |-> 1], [name |-> "g", kind |-> "func", target |-> 0], [name |-> "f2", kind |-> "func", target |-> 1]>>,
       start |-> -1]
S2 == [funcs |-> <<F(FALSE, <<>>)>>, tables |-> <<>>, memories |-> <<>>, globals |-> <<>>, elems |-> <<>>, data |-> <<>>,
       imports |-> <<>>, exports |-> <<[name |-> "only", kind |-> "func", target |-> 0]>>, start |-> 0]
Inits == {S1, S2}
Bodies == {<<>>, <<<<"func", 0>>>>, <<<<"func", 1>>, <<"global", 0>>>>, <<<<"memory", 0>>, <<"data", 0>>>>, <<<<"table", 0>>, <<"elem", 0>>>>}
=============================================================================
