SPECIFICATION Spec
INVARIANT Accepted
CHECK_DEADLOCK FALSE
