--------------------------- MODULE Trace_Traversal ---------------------------
(***************************************************************************)
(* C16 monitor.  One trace line = one traversal of one real function by a  *)
(* recording visitor: the IR tree as read by plain recursion over          *)
(* LocalFunction::block (with the entity operands of every instruction     *)
(* extracted by matching on the instruction, not through Visit) and the    *)
(* callback log (start / instr+operand callbacks / end items).             *)
(*   in_order:      log = the recursive walk of the tree (RecItems):       *)
(*                  every instruction once, in program order, sequences    *)
(*                  properly nested, operands of each instruction exactly  *)
(*                  once (compared as sorted lists);                       *)
(*   pre_order_mut: every reachable sequence started and ended exactly     *)
(*                  once, every instruction reported exactly once with     *)
(*                  each operand exactly once (bag equality).              *)
(***************************************************************************)
EXTENDS Naturals, Integers, Sequences, FiniteSets, TLC, Json, IOUtils

Cases == ndJsonDeserialize(IOEnv.TRACEFILE)
VARIABLES k, verdict
vars == <<k, verdict>>

SeqOf(tr, s) == tr.seqs[s + 1]
Item(t, s, kd, ops) == [t |-> t, seq |-> s, k |-> kd, ops |-> ops]

RECURSIVE RecItems(_, _), RecFrom(_, _, _), Kids(_, _, _)
Kids(tr, kids, q) == IF q > Len(kids) THEN <<>> ELSE RecItems(tr, kids[q]) \o Kids(tr, kids, q + 1)
RecFrom(tr, s, i) ==
  IF i > Len(SeqOf(tr, s)) THEN <<>>
  ELSE LET n == SeqOf(tr, s)[i] IN
       <<Item("instr", -1, n.k, n.ops)>> \o Kids(tr, n.kids, 1) \o RecFrom(tr, s, i + 1)
\* a sequence whose own block type is a function type reports that type id right after its start event
SeqTy(tr, s) == IF tr.tys[s + 1] >= 0 THEN << <<"type", tr.tys[s + 1]>> >> ELSE <<>>
RecItems(tr, s) == <<Item("start", s, "", SeqTy(tr, s))>> \o RecFrom(tr, s, 1) \o <<Item("end", s, "", <<>>)>>

Norm(it) == IF it.t = "instr" THEN Item("instr", -1, it.k, it.ops) ELSE Item(it.t, it.seq, "", it.ops)
NormLog(c) == [q \in DOMAIN c.log |-> Norm(c.log[q])]

Ran(f) == {f[x] : x \in DOMAIN f}
CountIn(f, x) == Cardinality({q \in DOMAIN f : f[q] = x})
SameBag(a, b) == Len(a) = Len(b) /\ \A x \in Ran(a) \cup Ran(b) : CountIn(a, x) = CountIn(b, x)

FirstDiff(a, b) == IF \E q \in DOMAIN a : q > Len(b) \/ a[q] # b[q]
                   THEN CHOOSE q \in DOMAIN a : (q > Len(b) \/ a[q] # b[q]) /\ \A r \in 1..(q - 1) : r <= Len(b) /\ a[r] = b[r]
                   ELSE Len(a) + 1

\* the order dfs_pre_order_mut produces today: a work stack of sequence ids, children pushed while their parent is scanned
\* (the else arm below the then arm), a sequence finished before the next one is popped.  Used as a linear-time fast path
\* only: any other order that reports the same items is accepted as well (SameBag).
RECURSIVE PreFrom(_, _), PushedBy(_, _, _), ItemsOf(_, _, _)
ItemsOf(tr, s, i) == IF i > Len(SeqOf(tr, s)) THEN <<>> ELSE <<Item("instr", -1, SeqOf(tr, s)[i].k, SeqOf(tr, s)[i].ops)>> \o ItemsOf(tr, s, i + 1)
PushedBy(tr, s, i) ==
  IF i > Len(SeqOf(tr, s)) THEN <<>>
  ELSE LET kids == SeqOf(tr, s)[i].kids IN
       (IF Len(kids) = 2 THEN <<kids[2], kids[1]>> ELSE kids) \o PushedBy(tr, s, i + 1)
PreFrom(tr, stack) ==
  IF stack = <<>> THEN <<>>
  ELSE LET s == stack[Len(stack)] IN
       <<Item("start", s, "", SeqTy(tr, s))>> \o ItemsOf(tr, s, 1) \o <<Item("end", s, "", <<>>)>>
       \o PreFrom(tr, SubSeq(stack, 1, Len(stack) - 1) \o PushedBy(tr, s, 1))

Verdict(c) ==
  LET want == RecItems(c.tree, c.tree.entry)  got == NormLog(c) IN
  IF c.flavour = "in_order" THEN
       IF got = want THEN <<"ok">>
       ELSE LET d == FirstDiff(want, got) IN
            <<"in-order-log-differs-from-recursive-walk", d, IF d <= Len(want) THEN want[d] ELSE "nothing", IF d <= Len(got) THEN got[d] ELSE "nothing">>
  ELSE IF got = PreFrom(c.tree, <<c.tree.entry>>) THEN <<"ok">>
  ELSE IF SameBag(want, got) THEN <<"ok">>
       ELSE LET bad == CHOOSE x \in Ran(want) \cup Ran(got) : CountIn(want, x) # CountIn(got, x) IN
            <<"mutable-traversal-reports-differ", c.flavour, bad, CountIn(want, bad), CountIn(got, bad)>>

Judge(c) == LET v == Verdict(c) IN
            IF v[1] = "ok" \/ PrintT("REJECT " \o ToJson(<<c.id>> \o v)) THEN v[1] ELSE v[1]

Init == k \in 1..Len(Cases) /\ verdict = "pending"
Next == verdict = "pending" /\ verdict' = Judge(Cases[k]) /\ UNCHANGED k
Spec == Init /\ [][Next]_vars
Accepted == verdict \in {"pending", "ok"}
=============================================================================
