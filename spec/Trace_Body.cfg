SPECIFICATION TSpec
CONSTRAINT Record
POSTCONDITION Post
CHECK_DEADLOCK FALSE
