-------------------------------- MODULE Exec --------------------------------
(***************************************************************************)
(* A small-step semantics of a WebAssembly subset, used as a differential  *)
(* oracle (C01, and C06 / C18 when a pass or an edit is applied):          *)
(* every case carries two programs -- the module before ("in") and after   *)
(* ("out") walrus -- and a sequence of calls to exports; TLC instantiates  *)
(* and runs both, one instruction per step, and compares the observation   *)
(* records at the end.                                                     *)
(*                                                                         *)
(* Subset: i32 constants / arithmetic / comparison, locals, globals,       *)
(* drop / select, block / loop / if / else, br / br_if / br_table /        *)
(* return / unreachable / nop, call / call_indirect, i32 and i8 loads and  *)
(* stores on several memories, memory.size / grow / copy / fill / init,    *)
(* data.drop, table.size / copy / init / get / set / fill / grow,          *)
(* elem.drop, ref.null / ref.func / ref.is_null over several tables,       *)
(* imported functions (recorded as a host-call trace, results determined   *)
(* by the trace), instantiation (global initialisers, active element and   *)
(* data segments with bounds traps, passive / declared segments and their  *)
(* dropped state, a local or imported start function).  Growth of tables   *)
(* and memories is capped at 64 (entries / pages) in both runs.            *)
(*                                                                         *)
(* Values live in Z / 2^15 (TLC integers are 32 bit and overflow-checked); *)
(* both programs run under the *same* semantics, which is all a            *)
(* differential oracle needs.  Fuel is spent on calls and loop back-edges  *)
(* only, so it is invariant under nop / dead-code elision.                 *)
(* Functions, globals, memories and tables are 1-based here (index + 1).   *)
(***************************************************************************)
EXTENDS Integers, Sequences, FiniteSets, TLC, Json, IOUtils, Bitwise

Cases == ndJsonDeserialize(IOEnv.TRACEFILE)
N == Len(Cases)
M == 32768
PAGE == 65536

VARIABLES c,        \* case
          w,        \* "in" | "out": which program is running
          phase,    \* "inst" | "start" | "calls" | "done"
          ci,       \* next call
          st,       \* operand stack
          frs,      \* call frames
          gl,       \* global values
          mem,      \* [memory -> [address -> byte]] (sparse: untouched bytes are 0)
          msize,    \* [memory -> pages]
          tab,      \* [table -> Seq(function or 0)]
          dropped,  \* [elem |-> dropped element segments, data |-> dropped data segments] (1-based)
          log,      \* host calls
          res,      \* results of the calls so far
          status,   \* "idle" | "run"
          fuel,
          inst,     \* instantiation outcome
          obsIn     \* observation of the "in" run
vars == <<c, w, phase, ci, st, frs, gl, mem, msize, tab, dropped, log, res, status, fuel, inst, obsIn>>

Prog == IF w = "in" THEN Cases[c].inp ELSE Cases[c].outp
Wrap(x) == x % M
Take(s, n) == SubSeq(s, Len(s) - n + 1, Len(s))
DropN(s, n) == SubSeq(s, 1, Len(s) - n)
Zeros(n) == [x \in 1..n |-> 0]

Entry(code, isLoop, arity, height, body) == [code |-> code, isLoop |-> isLoop, arity |-> arity, height |-> height, body |-> body]
NewFrame(p, f, args, base) ==
  LET fn == p.funcs[f] IN
  [locals |-> args \o Zeros(fn.nl), nr |-> fn.nr, K |-> <<Entry(fn.body, FALSE, fn.nr, 0, <<>>)>>, base |-> base]

\* ---------- memory ----------
Byte(m, a) == IF a \in DOMAIN mem[m] THEN mem[m][a] ELSE 0
InBounds(m, a, n) == a >= 0 /\ a + n <= msize[m] * PAGE
Load(m, a, width) == IF width = 1 THEN Byte(m, a)
                     ELSE Wrap(Byte(m, a) + 256 * Byte(m, a + 1) + 3 * Byte(m, a + 2) + 5 * Byte(m, a + 3))
StoreBytes(m, a, v, width) ==
  IF width = 1 THEN [mem EXCEPT ![m] = (a :> (v % 256)) @@ @]
  ELSE [mem EXCEPT ![m] = (a :> (v % 256)) @@ ((a + 1) :> ((v \div 256) % 256)) @@ ((a + 2) :> 0) @@ ((a + 3) :> 0) @@ @]

\* ---------- instantiation ----------
GlobalInit(p, g, sofar) == IF g.k = "const" THEN Wrap(g.v) ELSE IF g.k = "import" THEN Wrap(11 + g.v) ELSE sofar[g.v + 1]
RECURSIVE InitGlobals(_, _, _)
InitGlobals(p, k, sofar) == IF k > Len(p.globals) THEN sofar ELSE InitGlobals(p, k + 1, Append(sofar, GlobalInit(p, p.globals[k], sofar)))

OffsetOf(p, e, g) == IF e.k = "const" THEN e.v ELSE g[e.v + 1]

\* active element segments, in order; ok = FALSE when one is out of bounds
RECURSIVE InitTables(_, _, _, _)
InitTables(p, k, g, t) ==
  IF k > Len(p.elems) THEN [ok |-> TRUE, v |-> t]
  ELSE LET e == p.elems[k] IN
       IF e.mode # "active" THEN InitTables(p, k + 1, g, t)
       ELSE LET off == OffsetOf(p, e.offset, g)  tb == e.table + 1 IN
            IF off + Len(e.items) > Len(t[tb]) THEN [ok |-> FALSE, v |-> t]
            ELSE InitTables(p, k + 1, g, [t EXCEPT ![tb] = [x \in DOMAIN t[tb] |-> IF x > off /\ x <= off + Len(e.items) THEN e.items[x - off] ELSE t[tb][x]]])
RECURSIVE InitMems(_, _, _, _, _)
InitMems(p, k, g, ms, mm) ==
  IF k > Len(p.data) THEN [ok |-> TRUE, v |-> mm]
  ELSE LET d == p.data[k] IN
       IF d.mode # "active" THEN InitMems(p, k + 1, g, ms, mm)
       ELSE LET off == OffsetOf(p, d.offset, g)  mi == d.mem + 1 IN
            IF off + Len(d.bytes) > ms[mi] * PAGE THEN [ok |-> FALSE, v |-> mm]
            ELSE InitMems(p, k + 1, g, ms, [mm EXCEPT ![mi] = [a \in (DOMAIN mm[mi]) \cup {off + x - 1 : x \in DOMAIN d.bytes} |->
                                                   IF a >= off /\ a < off + Len(d.bytes) THEN d.bytes[a - off + 1] ELSE mm[mi][a]]])

Instantiate ==
  /\ phase = "inst"
  /\ LET p == Prog
         g == InitGlobals(p, 1, <<>>)
         ms == [k \in DOMAIN p.mems |-> p.mems[k].pages]
         t0 == [k \in DOMAIN p.tables |-> [x \in 1..p.tables[k].size |-> 0]]
         m0 == [k \in DOMAIN p.mems |-> <<>>]
         t == InitTables(p, 1, g, t0)
         mm == IF t.ok THEN InitMems(p, 1, g, ms, m0) ELSE [ok |-> FALSE, v |-> m0]
     IN IF ~t.ok \/ ~mm.ok
        THEN /\ inst' = "trap" /\ phase' = "done"
             /\ gl' = g /\ msize' = ms /\ tab' = t0 /\ mem' = m0 /\ dropped' = [elem |-> {}, data |-> {}]
             /\ UNCHANGED <<st, frs, status, log>>
        ELSE /\ gl' = g /\ msize' = ms /\ tab' = t.v /\ mem' = mm.v /\ inst' = "ok"
             \* active and declared segments are dropped once instantiation has used them
             /\ dropped' = [elem |-> {k \in DOMAIN p.elems : p.elems[k].mode # "passive"},
                            data |-> {k \in DOMAIN p.data : p.data[k].mode # "passive"}]
             /\ IF p.start >= 0 /\ p.funcs[p.start + 1].imported
                \* the start function is the host's: instantiation calls out once, before any export is called
                THEN phase' = "calls" /\ log' = Append(log, [name |-> p.funcs[p.start + 1].name, args |-> <<>>])
                     /\ UNCHANGED <<st, frs, status>>
                ELSE IF p.start >= 0
                THEN phase' = "start" /\ frs' = <<NewFrame(p, p.start + 1, <<>>, 0)>> /\ st' = <<>> /\ status' = "run"
                     /\ UNCHANGED log
                ELSE phase' = "calls" /\ UNCHANGED <<st, frs, status, log>>
  /\ UNCHANGED <<c, w, ci, res, fuel, obsIn>>

\* ---------- calls to exports ----------
ExportedFunc(p, name) == (CHOOSE e \in {p.exports[x] : x \in DOMAIN p.exports} : e.kind = "func" /\ e.name = name).idx + 1
StartCall ==
  /\ phase = "calls" /\ status = "idle" /\ ci <= Len(Cases[c].calls)
  /\ LET call == Cases[c].calls[ci] IN
       /\ frs' = <<NewFrame(Prog, ExportedFunc(Prog, call.name), [x \in DOMAIN call.args |-> Wrap(call.args[x])], 0)>>
       /\ st' = <<>> /\ status' = "run"
  /\ UNCHANGED <<c, w, phase, ci, gl, mem, msize, tab, dropped, log, res, fuel, inst, obsIn>>

\* the running function finished (normally, by trap, or by running out of fuel)
Finish(outcome) ==
  IF phase = "start"
  THEN /\ phase' = (IF outcome.kind = "ok" THEN "calls" ELSE "done")
       /\ inst' = (IF outcome.kind = "ok" THEN "ok" ELSE "start-" \o outcome.kind)
       /\ status' = "idle" /\ frs' = <<>> /\ st' = <<>> /\ UNCHANGED <<res, ci>>
  ELSE /\ res' = Append(res, outcome) /\ ci' = ci + 1 /\ status' = "idle" /\ frs' = <<>> /\ st' = <<>>
       /\ UNCHANGED <<phase, inst>>
Trap == Finish([kind |-> "trap", vals |-> <<>>]) /\ UNCHANGED <<c, w, gl, mem, msize, tab, dropped, log, fuel, obsIn>>
OutOfFuel == Finish([kind |-> "fuel", vals |-> <<>>]) /\ UNCHANGED <<c, w, gl, mem, msize, tab, dropped, log, fuel, obsIn>>

\* ---------- one instruction ----------
F == frs[Len(frs)]
K == F.K
E == K[Len(K)]
SetK(k2) == [frs EXCEPT ![Len(frs)].K = k2]
Rest == [K EXCEPT ![Len(K)].code = Tail(E.code)]
Same == UNCHANGED <<c, w, phase, ci, gl, mem, msize, tab, dropped, log, res, status, fuel, inst, obsIn>>

Branch(d, s) ==
  LET idx == Len(K) - d
      t == K[idx]
      vals == Take(s, t.arity)
      s2 == SubSeq(s, 1, F.base + t.height) \o vals
  IN IF t.isLoop
     THEN [stk |-> s2, k |-> [SubSeq(K, 1, idx) EXCEPT ![idx].code = t.body], loop |-> TRUE]
     ELSE [stk |-> s2, k |-> SubSeq(K, 1, idx - 1), loop |-> FALSE]
Return(s) ==
  LET vals == Take(s, F.nr) IN
  IF Len(frs) = 1
  THEN Finish([kind |-> "ok", vals |-> vals]) /\ UNCHANGED <<c, w, gl, mem, msize, tab, dropped, log, fuel, obsIn>>
  ELSE /\ frs' = SubSeq(frs, 1, Len(frs) - 1)
       /\ st' = SubSeq(s, 1, F.base) \o vals
       /\ Same
DoBranch(d, s) ==
  IF Len(K) - d = 1 /\ ~K[1].isLoop THEN Return(s)
  ELSE LET b == Branch(d, s) IN
       IF b.loop /\ fuel = 0 THEN OutOfFuel
       ELSE /\ st' = b.stk /\ frs' = SetK(b.k)
            /\ fuel' = (IF b.loop THEN fuel - 1 ELSE fuel)
            /\ UNCHANGED <<c, w, phase, ci, gl, mem, msize, tab, dropped, log, res, status, inst, obsIn>>

Bin(o, a, b) ==
  CASE o = "I32Add" -> Wrap(a + b) [] o = "I32Sub" -> Wrap(a - b + M) [] o = "I32Mul" -> Wrap(a * b)
    [] o = "I32And" -> a & b [] o = "I32Or" -> a | b [] o = "I32Xor" -> a ^^ b
    [] o = "I32Eq" -> (IF a = b THEN 1 ELSE 0) [] o = "I32Ne" -> (IF a # b THEN 1 ELSE 0)
    [] o = "I32LtU" -> (IF a < b THEN 1 ELSE 0) [] o = "I32GtU" -> (IF a > b THEN 1 ELSE 0)
    [] o = "I32LeU" -> (IF a <= b THEN 1 ELSE 0) [] o = "I32GeU" -> (IF a >= b THEN 1 ELSE 0)
BinOps == {"I32Add", "I32Sub", "I32Mul", "I32And", "I32Or", "I32Xor", "I32Eq", "I32Ne", "I32LtU", "I32GtU", "I32LeU", "I32GeU"}

Pure(s2) == st' = s2 /\ frs' = SetK(Rest) /\ Same

DoCall(f, s) ==
  LET fn == Prog.funcs[f]  args == Take(s, fn.np) IN
  IF fn.imported
  THEN /\ log' = Append(log, [name |-> fn.name, args |-> args])
       /\ st' = DropN(s, fn.np) \o [x \in 1..fn.nr |-> Wrap(7 + Len(log) + x)]
       /\ frs' = SetK(Rest)
       /\ UNCHANGED <<c, w, phase, ci, gl, mem, msize, tab, dropped, res, status, fuel, inst, obsIn>>
  ELSE IF fuel = 0 THEN OutOfFuel
  ELSE /\ frs' = Append(SetK(Rest), NewFrame(Prog, f, args, Len(s) - fn.np))
       /\ st' = DropN(s, fn.np) /\ fuel' = fuel - 1
       /\ UNCHANGED <<c, w, phase, ci, gl, mem, msize, tab, dropped, log, res, status, inst, obsIn>>

Step ==
  /\ status = "run"
  /\ IF E.code = <<>>
     THEN IF Len(K) = 1 THEN Return(st)
          ELSE frs' = SetK(SubSeq(K, 1, Len(K) - 1)) /\ UNCHANGED st /\ Same
     ELSE LET ins == Head(E.code)  o == ins.o  top == IF st = <<>> THEN 0 ELSE st[Len(st)] IN
       CASE o = "I32Const" -> Pure(Append(st, Wrap(ins.v)))
         [] o = "Nop" -> Pure(st)
         [] o = "Drop" -> Pure(DropN(st, 1))
         [] o \in BinOps -> Pure(Append(DropN(st, 2), Bin(o, st[Len(st) - 1], top)))
         [] o = "I32Eqz" -> Pure(Append(DropN(st, 1), IF top = 0 THEN 1 ELSE 0))
         [] o = "Select" -> Pure(Append(DropN(st, 3), IF top # 0 THEN st[Len(st) - 2] ELSE st[Len(st) - 1]))
         [] o = "LocalGet" -> Pure(Append(st, F.locals[ins.i + 1]))
         [] o = "LocalSet" -> /\ st' = DropN(st, 1) /\ frs' = [frs EXCEPT ![Len(frs)] = [locals |-> [F.locals EXCEPT ![ins.i + 1] = top], nr |-> F.nr, K |-> Rest, base |-> F.base]] /\ Same
         [] o = "LocalTee" -> /\ st' = st /\ frs' = [frs EXCEPT ![Len(frs)] = [locals |-> [F.locals EXCEPT ![ins.i + 1] = top], nr |-> F.nr, K |-> Rest, base |-> F.base]] /\ Same
         [] o = "GlobalGet" -> Pure(Append(st, gl[ins.i + 1]))
         [] o = "GlobalSet" -> /\ st' = DropN(st, 1) /\ gl' = [gl EXCEPT ![ins.i + 1] = top] /\ frs' = SetK(Rest)
                               /\ UNCHANGED <<c, w, phase, ci, mem, msize, tab, dropped, log, res, status, fuel, inst, obsIn>>
         [] o = "Load" -> LET a == top + ins.off IN
                          IF ~InBounds(ins.m + 1, a, ins.w) THEN Trap ELSE Pure(Append(DropN(st, 1), Load(ins.m + 1, a, ins.w)))
         [] o = "Store" -> LET a == st[Len(st) - 1] + ins.off IN
                          IF ~InBounds(ins.m + 1, a, ins.w) THEN Trap
                          ELSE /\ st' = DropN(st, 2) /\ mem' = StoreBytes(ins.m + 1, a, top, ins.w) /\ frs' = SetK(Rest)
                               /\ UNCHANGED <<c, w, phase, ci, gl, msize, tab, dropped, log, res, status, fuel, inst, obsIn>>
         [] o = "MemorySize" -> Pure(Append(st, msize[ins.m + 1]))
         \* ---- bulk memory and table operations: operands are (destination, source, count), bounds are checked before anything is written
         [] o = "MemoryGrow" -> LET new == msize[ins.m + 1] + top IN
                                IF new > Prog.mems[ins.m + 1].max
                                THEN Pure(Append(DropN(st, 1), M - 1))
                                ELSE /\ st' = Append(DropN(st, 1), msize[ins.m + 1]) /\ msize' = [msize EXCEPT ![ins.m + 1] = new] /\ frs' = SetK(Rest)
                                     /\ UNCHANGED <<c, w, phase, ci, gl, mem, tab, dropped, log, res, status, fuel, inst, obsIn>>
         [] o \in {"MemoryCopy", "MemoryFill", "MemoryInit"} ->
              LET n == top  src == st[Len(st) - 1]  dst == st[Len(st) - 2]  d == ins.m + 1
                  seg == IF o = "MemoryInit" /\ (ins.seg + 1) \notin dropped.data THEN Prog.data[ins.seg + 1].bytes ELSE <<>>
                  srcOK == CASE o = "MemoryCopy" -> src + n <= msize[ins.s + 1] * PAGE
                             [] o = "MemoryInit" -> src + n <= Len(seg)
                             [] OTHER -> TRUE
                  byte(a) == CASE o = "MemoryCopy" -> Byte(ins.s + 1, a - dst + src)
                               [] o = "MemoryInit" -> seg[a - dst + src + 1]
                               [] OTHER -> src % 256
              IN IF ~srcOK \/ dst + n > msize[d] * PAGE THEN Trap
                 ELSE /\ st' = DropN(st, 3) /\ frs' = SetK(Rest)
                      /\ mem' = [mem EXCEPT ![d] = [a \in (DOMAIN mem[d]) \cup (dst..(dst + n - 1)) |->
                                                     IF a >= dst /\ a < dst + n THEN byte(a) ELSE mem[d][a]]]
                      /\ UNCHANGED <<c, w, phase, ci, gl, msize, tab, dropped, log, res, status, fuel, inst, obsIn>>
         [] o = "DataDrop" -> /\ dropped' = [dropped EXCEPT !.data = @ \cup {ins.seg + 1}] /\ st' = st /\ frs' = SetK(Rest)
                              /\ UNCHANGED <<c, w, phase, ci, gl, mem, msize, tab, log, res, status, fuel, inst, obsIn>>
         [] o = "TableSize" -> Pure(Append(st, Len(tab[ins.t + 1])))
         [] o \in {"TableCopy", "TableInit"} ->
              LET n == top  src == st[Len(st) - 1]  dst == st[Len(st) - 2]  d == ins.t + 1
                  seg == IF o = "TableInit" /\ (ins.seg + 1) \notin dropped.elem THEN Prog.elems[ins.seg + 1].items ELSE <<>>
                  from == IF o = "TableCopy" THEN tab[ins.s + 1] ELSE seg
              IN IF src + n > Len(from) \/ dst + n > Len(tab[d]) THEN Trap
                 ELSE /\ st' = DropN(st, 3) /\ frs' = SetK(Rest)
                      /\ tab' = [tab EXCEPT ![d] = [x \in DOMAIN tab[d] |-> IF x > dst /\ x <= dst + n THEN from[x - dst + src] ELSE tab[d][x]]]
                      /\ UNCHANGED <<c, w, phase, ci, gl, mem, msize, dropped, log, res, status, fuel, inst, obsIn>>
         \* ---- reference instructions: a function reference is the function's number in the running program (0 = null);
         \* it can only reach tables and ref.is_null (signatures, locals and globals of the subset are i32)
         [] o = "RefNull" -> Pure(Append(st, 0))
         [] o = "RefFunc" -> Pure(Append(st, ins.f + 1))
         [] o = "RefIsNull" -> Pure(Append(DropN(st, 1), IF top = 0 THEN 1 ELSE 0))
         [] o = "TableGet" -> IF top >= Len(tab[ins.t + 1]) THEN Trap ELSE Pure(Append(DropN(st, 1), tab[ins.t + 1][top + 1]))
         [] o = "TableSet" -> LET i == st[Len(st) - 1] IN
                              IF i >= Len(tab[ins.t + 1]) THEN Trap
                              ELSE /\ st' = DropN(st, 2) /\ frs' = SetK(Rest) /\ tab' = [tab EXCEPT ![ins.t + 1][i + 1] = top]
                                   /\ UNCHANGED <<c, w, phase, ci, gl, mem, msize, dropped, log, res, status, fuel, inst, obsIn>>
         [] o = "TableFill" -> LET n == top  v == st[Len(st) - 1]  i == st[Len(st) - 2]  d == ins.t + 1 IN
                               IF i + n > Len(tab[d]) THEN Trap
                               ELSE /\ st' = DropN(st, 3) /\ frs' = SetK(Rest)
                                    /\ tab' = [tab EXCEPT ![d] = [x \in DOMAIN tab[d] |-> IF x > i /\ x <= i + n THEN v ELSE tab[d][x]]]
                                    /\ UNCHANGED <<c, w, phase, ci, gl, mem, msize, dropped, log, res, status, fuel, inst, obsIn>>
         [] o = "TableGrow" -> LET n == top  v == st[Len(st) - 1]  d == ins.t + 1 IN
                               IF Len(tab[d]) + n > Prog.tables[d].max
                               THEN Pure(Append(DropN(st, 2), M - 1))
                               ELSE /\ st' = Append(DropN(st, 2), Len(tab[d])) /\ frs' = SetK(Rest)
                                    /\ tab' = [tab EXCEPT ![d] = tab[d] \o [x \in 1..n |-> v]]
                                    /\ UNCHANGED <<c, w, phase, ci, gl, mem, msize, dropped, log, res, status, fuel, inst, obsIn>>
         [] o = "ElemDrop" -> /\ dropped' = [dropped EXCEPT !.elem = @ \cup {ins.seg + 1}] /\ st' = st /\ frs' = SetK(Rest)
                              /\ UNCHANGED <<c, w, phase, ci, gl, mem, msize, tab, log, res, status, fuel, inst, obsIn>>
         [] o = "Unreachable" -> Trap
         [] o = "Block" -> frs' = SetK(Append(Rest, Entry(ins.body, FALSE, ins.nr, Len(st) - F.base - ins.np, <<>>))) /\ UNCHANGED st /\ Same
         [] o = "Loop" ->  frs' = SetK(Append(Rest, Entry(ins.body, TRUE, ins.np, Len(st) - F.base - ins.np, ins.body))) /\ UNCHANGED st /\ Same
         [] o = "If" ->    /\ st' = DropN(st, 1)
                           /\ frs' = SetK(Append(Rest, Entry(IF top # 0 THEN ins.body ELSE ins.alt, FALSE, ins.nr, Len(st) - 1 - F.base - ins.np, <<>>)))
                           /\ Same
         [] o = "Br" -> DoBranch(ins.d, st)
         [] o = "BrIf" -> IF top # 0 THEN DoBranch(ins.d, DropN(st, 1)) ELSE Pure(DropN(st, 1))
         [] o = "BrTable" -> DoBranch(IF top < Len(ins.ds) THEN ins.ds[top + 1] ELSE ins.d, DropN(st, 1))
         [] o = "Return" -> Return(st)
         [] o = "Call" -> DoCall(ins.f + 1, st)
         [] o = "CallIndirect" ->
              LET t == tab[ins.t + 1]  s == DropN(st, 1) IN
              IF top >= Len(t) THEN Trap                               \* undefined element
              ELSE IF t[top + 1] = 0 THEN Trap                          \* uninitialized element
              ELSE IF Prog.funcs[t[top + 1]].sig # ins.sig THEN Trap    \* indirect call type mismatch
              ELSE DoCall(t[top + 1], s)

\* ---------- the two runs and the comparison ----------
ExportsOf(p, kind) == {p.exports[x] : x \in {y \in DOMAIN p.exports : p.exports[y].kind = kind}}
Obs == [inst |-> inst, res |-> res, log |-> log,
        globals |-> {<<e.name, gl[e.idx + 1]>> : e \in ExportsOf(Prog, "global")},
        memories |-> {<<e.name, msize[e.idx + 1], {<<a, mem[e.idx + 1][a]>> : a \in {x \in DOMAIN mem[e.idx + 1] : mem[e.idx + 1][x] # 0}}>> : e \in ExportsOf(Prog, "memory")},
        tables |-> {<<e.name, [x \in DOMAIN tab[e.idx + 1] |-> IF tab[e.idx + 1][x] = 0 THEN "null" ELSE Prog.funcs[tab[e.idx + 1][x]].tag]>> : e \in ExportsOf(Prog, "table")}]

CallsDone == phase = "calls" /\ status = "idle" /\ ci > Len(Cases[c].calls)
Switch == /\ w = "in" /\ (CallsDone \/ phase = "done")
          /\ obsIn' = Obs /\ w' = "out" /\ phase' = "inst" /\ ci' = 1 /\ st' = <<>> /\ frs' = <<>> /\ status' = "idle"
          /\ gl' = <<>> /\ mem' = <<>> /\ msize' = <<>> /\ tab' = <<>> /\ dropped' = [elem |-> {}, data |-> {}] /\ log' = <<>> /\ res' = <<>>
          /\ fuel' = Cases[c].fuel /\ inst' = "none" /\ UNCHANGED c
Done == w = "out" /\ (CallsDone \/ phase = "done")

Init == /\ c \in 1..N /\ w = "in" /\ phase = "inst" /\ ci = 1 /\ st = <<>> /\ frs = <<>> /\ status = "idle"
        /\ gl = <<>> /\ mem = <<>> /\ msize = <<>> /\ tab = <<>> /\ dropped = [elem |-> {}, data |-> {}] /\ log = <<>> /\ res = <<>>
        /\ fuel = Cases[c].fuel /\ inst = "none" /\ obsIn = <<>>
Next == Instantiate \/ StartCall \/ Step \/ Switch
Spec == Init /\ [][Next]_vars

\* which facets are compared: after a pass that may remove an out-of-bounds segment of an unreferenced table
\* (C06's one tolerated difference) a failing instantiation of the original is not compared
Comparable == obsIn.inst = "ok" \/ ~Cases[c].lenient_inst
FirstDiff(a, b) == IF a.inst # b.inst THEN <<"instantiation", a.inst, b.inst>>
                   ELSE IF a.res # b.res THEN <<"call-results", a.res, b.res>>
                   ELSE IF a.log # b.log THEN <<"host-call-trace", a.log, b.log>>
                   ELSE IF a.globals # b.globals THEN <<"exported-globals", a.globals, b.globals>>
                   ELSE IF a.tables # b.tables THEN <<"exported-tables", a.tables, b.tables>>
                   ELSE <<"exported-memories">>
\* what a host has to provide: the import names and kinds (a pass may drop imports nothing uses, never add or rename one)
RanOf(f) == {f[x] : x \in DOMAIN f}
BagOf(sq) == [x \in RanOf(sq) |-> Cardinality({q \in DOMAIN sq : sq[q] = x})]
LinkageSame == IF Cases[c].lenient_inst THEN RanOf(Cases[c].outp.imports) \subseteq RanOf(Cases[c].inp.imports)
               ELSE BagOf(Cases[c].outp.imports) = BagOf(Cases[c].inp.imports)
Equivalent == Done => /\ (LinkageSame \/ PrintT("REJECT " \o ToJson(<<Cases[c].id, "imports-differ", Cases[c].inp.imports, Cases[c].outp.imports>>)))
                      /\ (~Comparable \/ obsIn = Obs \/ PrintT("REJECT " \o ToJson(<<Cases[c].id, "behaviour-differs">> \o FirstDiff(obsIn, Obs))))
=============================================================================
