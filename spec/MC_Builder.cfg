SPECIFICATION Spec
CONSTANTS
  MaxOps = 3
INVARIANTS
  TreeShaped
  FlatBalanced
  BranchesInRange
CHECK_DEADLOCK FALSE
