SPECIFICATION Spec
CONSTANTS
  MaxFuncs = 2
  MaxInstrs = 3
  LegacyLowPc = FALSE
  NopsUnrecorded = FALSE
INVARIANTS
  PairsJoinSameInstruction
  NoPairForUnwritten
  RangesTile
  RowsFollowInstructions
  RowsOfUnwrittenDropped
  RowsOfRemovedDropped
  SubprogramsFollowFunctions
  SubprogramsOfRemovedTombstoned
  SequenceStartsFollow
CHECK_DEADLOCK FALSE
