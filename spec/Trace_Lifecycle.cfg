SPECIFICATION TSpec
CONSTANTS
  CustomNames = {}
  MaxCustoms = 0
  MaxEmits = 1000000
  LegacyTakeCustoms = FALSE
CONSTRAINT Record
INVARIANT TraceInvariants
POSTCONDITION Post
CHECK_DEADLOCK FALSE
