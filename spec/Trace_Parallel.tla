--------------------------- MODULE Trace_Parallel ---------------------------
(***************************************************************************)
(* C09 monitor.  One trace line = one input processed by the serial build  *)
(* and, several times, by the build with the `parallel` feature under      *)
(* different RAYON_NUM_THREADS.  For every parallel run:                   *)
(*   - the accept/reject decision (with the reported error) and the digest *)
(*     of the emitted bytes equal the serial build's;                      *)
(*   - the observed order in which the per-function jobs ran (hook events)  *)
(*     is a behaviour of Parallel.tla, i.e. a permutation of the serial    *)
(*     job list in which every job occurs exactly once per phase.          *)
(***************************************************************************)
EXTENDS Naturals, Sequences, FiniteSets, TLC, Json, IOUtils

Cases == ndJsonDeserialize(IOEnv.TRACEFILE)
VARIABLES k, verdict
vars == <<k, verdict>>

Ran(f) == {f[x] : x \in DOMAIN f}
IsPermutation(a, b) == Len(a) = Len(b) /\ Ran(a) = Ran(b) /\ \A x, y \in DOMAIN a : a[x] = a[y] => x = y

RunVerdict(c, r) ==
  IF r.outcome # c.serial.outcome THEN <<"decision-differs-from-serial", r.threads, c.serial.outcome, r.outcome>>
  ELSE IF r.digest # c.serial.digest THEN <<"bytes-differ-from-serial", r.threads>>
  \* a failing parse stops at the error: job lists are only comparable for successful runs
  ELSE IF r.outcome = "ok" /\ r.hooks /\ ~IsPermutation(r.parse_jobs, c.serial.parse_jobs) THEN <<"parse-jobs-not-a-schedule-of-the-serial-jobs", r.threads>>
  ELSE IF r.outcome = "ok" /\ r.hooks /\ ~IsPermutation(r.emit_jobs, c.serial.emit_jobs) THEN <<"emit-jobs-not-a-schedule-of-the-serial-jobs", r.threads>>
  ELSE <<"ok">>

Verdict(c) ==
  LET bad == {q \in DOMAIN c.runs : RunVerdict(c, c.runs[q])[1] # "ok"} IN
  IF bad = {} THEN <<"ok">> ELSE RunVerdict(c, c.runs[CHOOSE q \in bad : \A x \in bad : q <= x])

Judge(c) == LET v == Verdict(c) IN
            IF v[1] = "ok" \/ PrintT("REJECT " \o ToJson(<<c.id>> \o v)) THEN v[1] ELSE v[1]

Init == k \in 1..Len(Cases) /\ verdict = "pending"
Next == verdict = "pending" /\ verdict' = Judge(Cases[k]) /\ UNCHANGED k
Spec == Init /\ [][Next]_vars
Accepted == verdict \in {"pending", "ok"}
=============================================================================
