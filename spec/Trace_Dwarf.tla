----------------------------- MODULE Trace_Dwarf -----------------------------
(***************************************************************************)
(* C10 monitor.  One trace line = a module with synthesized, well-formed   *)
(* DWARF (one subprogram per function with low_pc = start of the           *)
(* function's code-section entry and high_pc = its length; one line row    *)
(* per instruction, the line number naming (function, instruction)) run    *)
(* through parse ; [gc | edit] ; emit with DWARF generation on, and the    *)
(* rows and subprograms read back from the output with gimli.              *)
(* Addresses are code-section relative.  fmap gives, per input function,   *)
(* the function it is emitted as and, per input instruction, the position  *)
(* of the output instruction it became (0 = not emitted) -- the code       *)
(* transform that C11 judges.                                              *)
(*   rows         an output row for instruction (f, k) sits exactly at the *)
(*                start of the output instruction that (f, k) became, with *)
(*                the same file / column / is_stmt; every surviving        *)
(*                instruction's row is present once; rows of code that was *)
(*                removed are absent or tombstoned;                        *)
(*   subprograms  [low_pc, low_pc + high_pc) is exactly the output entry   *)
(*                of the function; subprograms of removed functions are    *)
(*                absent or tombstoned.                                    *)
(***************************************************************************)
EXTENDS Naturals, Integers, Sequences, FiniteSets, TLC, Json, IOUtils

Cases == ndJsonDeserialize(IOEnv.TRACEFILE)
VARIABLES k, verdict
vars == <<k, verdict>>
Ran(f) == {f[x] : x \in DOMAIN f}

FMap(c, fi) == c.fmap[fi + 1]
OutLayoutOf(c, fo) == CHOOSE l \in Ran(c.out_layout) : l.idx = fo
\* the output address the instruction (fi, kk) must have, or -1 when it was not emitted
WantAddr(c, fi, kk) ==
  IF fi < 0 \/ fi >= Len(c.fmap) THEN -1
  ELSE LET m == FMap(c, fi) IN
       IF m.fo < 0 \/ kk < 1 \/ kk > Len(m.map) \/ m.map[kk] = 0 THEN -1
       ELSE OutLayoutOf(c, m.fo).ops[m.map[kk]]

InRow(c, fi, kk) == CHOOSE r \in Ran(c.in_rows) : ~r.end /\ r.fi = fi /\ r.k = kk
HasInRow(c, fi, kk) == \E r \in Ran(c.in_rows) : ~r.end /\ r.fi = fi /\ r.k = kk

OutRowOK(c, r) ==
  \/ r.end \/ r.tomb
  \/ /\ HasInRow(c, r.fi, r.k)
     /\ r.addr = WantAddr(c, r.fi, r.k)
     /\ LET i == InRow(c, r.fi, r.k) IN i.col = r.col /\ i.stmt = r.stmt /\ i.file = r.file

InRowOK(c, i) ==
  \/ i.end
  \/ LET w == WantAddr(c, i.fi, i.k)
         outs == {r \in Ran(c.out_rows) : ~r.end /\ ~r.tomb /\ r.fi = i.fi /\ r.k = i.k} IN
     IF w >= 0 THEN Cardinality(outs) = 1 ELSE outs = {}

SubOK(c, s) ==
  LET m == FMap(c, s.fi) IN
  IF m.fo < 0
  THEN \A o \in Ran(c.out_subs) : o.fi = s.fi => o.tomb          \* removed function: absent or tombstoned
  ELSE /\ Cardinality({o \in Ran(c.out_subs) : o.fi = s.fi}) = 1
       /\ LET o == CHOOSE x \in Ran(c.out_subs) : x.fi = s.fi
              l == OutLayoutOf(c, m.fo) IN
          ~o.tomb /\ o.low = l.entry /\ o.len = l.end - l.entry

\* the correspondence used above comes from the recorded code transform; independently of it, every operator of a kept
\* function that survives elision (reachable, not a nop -- decided on the input alone) must have an image, or its row
\* would be dropped without anybody noticing
AllSurvivorsMapped(c, m) == m.imported \/ m.fo < 0 \/ Cardinality({q \in DOMAIN m.map : m.map[q] # 0}) >= m.survivors

\* ... and, also independently of what the transform claims: an instruction and its image are the same operator, and the
\* correspondence keeps the instructions of a function in order (two instructions never share an image)
SameOperators(m) ==
  m.imported \/ m.fo < 0 \/
  /\ \A q \in DOMAIN m.map : m.map[q] # 0 => (m.map[q] \in DOMAIN m.outo /\ m.ino[q] = m.outo[m.map[q]])
  /\ \A q1, q2 \in DOMAIN m.map : (q1 < q2 /\ m.map[q1] # 0 /\ m.map[q2] # 0) => m.map[q1] < m.map[q2]

Verdict(c) ==
  IF c.outcome # "ok" THEN <<"outcome", c.version, c.spanning, c.variant, c.outcome>>
  ELSE IF ~c.out_valid THEN <<"ok">>     \* an invalid output is C02's / C06's violation, not a statement about debug addresses
  ELSE IF c.read_error # "" THEN <<"output-dwarf-unreadable", c.read_error>>
  ELSE IF \E m \in Ran(c.fmap) : ~AllSurvivorsMapped(c, m) THEN
       LET m == CHOOSE x \in Ran(c.fmap) : ~AllSurvivorsMapped(c, x) IN
       <<"surviving-instruction-without-image", c.variant, m.fi, m.survivors, Cardinality({q \in DOMAIN m.map : m.map[q] # 0})>>
  ELSE IF \E m \in Ran(c.fmap) : ~SameOperators(m) THEN
       LET m == CHOOSE x \in Ran(c.fmap) : ~SameOperators(x) IN
       <<"address-correspondence-joins-different-instructions", c.variant, m.fi,
         {<<q, m.ino[q], m.map[q]>> : q \in {x \in DOMAIN m.map : m.map[x] # 0 /\ (m.map[x] \notin DOMAIN m.outo \/ m.ino[x] # m.outo[m.map[x]])}}>>
  ELSE IF \E s \in Ran(c.in_subs) : ~SubOK(c, s) THEN
       LET s == CHOOSE x \in Ran(c.in_subs) : ~SubOK(c, x) IN
       <<"subprogram-range", c.variant, s, {o \in Ran(c.out_subs) : o.fi = s.fi}, FMap(c, s.fi).fo>>
  ELSE IF \E r \in Ran(c.out_rows) : ~OutRowOK(c, r) THEN
       LET r == CHOOSE x \in Ran(c.out_rows) : ~OutRowOK(c, x) IN <<"row-not-at-its-instruction", c.variant, c.spanning, r, WantAddr(c, r.fi, r.k)>>
  ELSE IF \E i \in Ran(c.in_rows) : ~InRowOK(c, i) THEN
       LET i == CHOOSE x \in Ran(c.in_rows) : ~InRowOK(c, x) IN <<"row-lost-or-left-behind", c.variant, c.spanning, i, WantAddr(c, i.fi, i.k)>>
  ELSE <<"ok">>

Judge(c) == LET v == Verdict(c) IN
            IF v[1] = "ok" \/ PrintT("REJECT " \o ToJson(<<c.id>> \o v)) THEN v[1] ELSE v[1]

Init == k \in 1..Len(Cases) /\ verdict = "pending"
Next == verdict = "pending" /\ verdict' = Judge(Cases[k]) /\ UNCHANGED k
Spec == Init /\ [][Next]_vars
Accepted == verdict \in {"pending", "ok"}
=============================================================================
