------------------------------ MODULE Trace_GC ------------------------------
(***************************************************************************)
(* C06 / C07 monitor.  One trace line = one observed  parse ; gc ; emit    *)
(* of the real implementation (plus the facts about a second gc run).      *)
(*                                                                         *)
(*   C06  the output is valid, has the same exports, and is the input      *)
(*        restricted to the kept entities and renumbered                   *)
(*        (IsoVerdict), and everything reachable from the roots -- over    *)
(*        the operators that survive elision -- was kept.                  *)
(*   C07  recomputing reachability on the *output* finds every entity of   *)
(*        the output (nothing unreachable was emitted), except for the     *)
(*        tolerated residue of one memory; every emitted type is used;     *)
(*        a second run of the pass changes nothing.                        *)
(* Reach is the declarative least fixed point of ModuleGraph.tla.          *)
(***************************************************************************)
EXTENDS ModuleGraph, Json, IOUtils

Cases == ndJsonDeserialize(IOEnv.TRACEFILE)
VARIABLES k, verdict
vars == <<k, verdict>>

ExtraRoots(c) == {<<r[1], r[2]>> : r \in Ran(c.extra_roots)}
\* the same roots, renumbered into the output
OutExtraRoots(c) == {<<n[1], Img(c.sigma, n[1], n[2])>> : n \in ExtraRoots(c)}

Dropped(c) == Reach(c.inm, ExtraRoots(c)) \ KeptNodes(c.sigma)

Unreachable(c) == AllNodes(c.outm) \ Reach(c.outm, OutExtraRoots(c))
\* tolerated residue: one memory, only when a data segment is emitted and no memory is reachable otherwise
\* (it is kept "only so that retained data segments stay acceptable to third-party tools")
ResidueOK(c, U) ==
  /\ \A n \in U : n[1] = "memory"
  /\ Cardinality(U) <= 1
  /\ (U # {} => Len(c.outm.data) > 0 /\ Len(c.outm.memories) = 1)

UnusedTypes(c) == (0..(Len(c.outm.types) - 1)) \ Ran(c.outm.used_types)

VerdictC06(c) ==
  IF c.outcome # "ok" THEN <<"outcome", c.outcome>>
  ELSE IF ~c.out_valid THEN <<"output-invalid", c.out_error, c.decl_only_passive>>
  ELSE LET r == IsoVerdict(c.inm, c.outm, c.sigma) IN
       IF r[1] # "ok" THEN r
       ELSE IF Dropped(c) # {} THEN <<"reachable-entity-dropped", Dropped(c)>>
       ELSE <<"ok">>

VerdictC07(c) ==
  IF c.outcome # "ok" \/ ~c.out_valid THEN <<"ok">>   \* C06's business
  ELSE IF ~ResidueOK(c, Unreachable(c)) THEN <<"unreachable-entity-emitted", Unreachable(c)>>
  ELSE IF UnusedTypes(c) # {} THEN <<"unused-type-emitted", UnusedTypes(c)>>
  ELSE IF ~c.gc2_same THEN <<"second-gc-changed-output", c.gc2_detail>>
  ELSE <<"ok">>

Which == IOEnv.PROPERTY
Verdict(c) == IF Which = "C07" THEN VerdictC07(c) ELSE VerdictC06(c)

Judge(c) == LET v == Verdict(c) IN
            IF v[1] = "ok" \/ PrintT("REJECT " \o ToJson(<<c.id>> \o v)) THEN v[1] ELSE v[1]

Init == k \in 1..Len(Cases) /\ verdict = "pending"
Next == verdict = "pending" /\ verdict' = Judge(Cases[k]) /\ UNCHANGED k
Spec == Init /\ [][Next]_vars
Accepted == verdict \in {"pending", "ok"}
=============================================================================
