--------------------------- MODULE Trace_Lifecycle ---------------------------
(***************************************************************************)
(* Trace validation of recorded Module histories against Lifecycle.tla     *)
(* (C08, C12, C14).  One trace line = one history:                         *)
(*     parse ; (emit | gc | reparse)*                                      *)
(* Every event carries what the harness observed through the public API    *)
(* right after the call returned (the linearization point of a sequential  *)
(* library): the custom sections held by the Module value (name#digest),   *)
(* and for an emit the inventory of the produced binary.  Each trace       *)
(* action is  IsEvent /\ <bind logged fields> /\ <action of Lifecycle>.    *)
(* State (k, l, Lifecycle vars); histories are deterministic, the furthest *)
(* event reached per history is kept in a TLC register (-workers 1).       *)
(***************************************************************************)
EXTENDS Lifecycle, Json, IOUtils

Cases == ndJsonDeserialize(IOEnv.TRACEFILE)
VARIABLES k, l
tvars == <<vars, k, l>>

\* the property on whose behalf the histories are judged; each conjunct below belongs to exactly one of them
Which == IOEnv.PROPERTY
For(p) == Which = p

H == Cases[k]
Ev == H.events[l]
IsEvent(e) == l <= Len(H.events) /\ Ev.ev = e /\ l' = l + 1 /\ UNCHANGED k

\* what the implementation is observed to hold after the call
ObservedCustoms == Ev.held

TraceParseOk ==
  /\ IsEvent("parse") /\ Ev.ok /\ pc = "empty"
  /\ ParseInto(Ev.input, Ev.cfg, "fresh", Ev.input.tools)
  /\ input' = Ev.input
  /\ (For("C14") => onParse' = Ev.calls)                  \* the closure's own counter, must be onParse + 1
  /\ (For("C12") => customs' = ObservedCustoms)           \* the Module holds exactly the input's unknown sections
  /\ last' = <<last[2], "parse">>
  /\ UNCHANGED <<outs, emits>>

TraceParseFail ==
  /\ IsEvent("parse") /\ ~Ev.ok /\ pc = "empty"
  /\ (For("C14") => Ev.calls = onParse)                   \* the callback never runs on a failed parse
  /\ UNCHANGED vars

\* inventory of an emitted binary as logged: tail = sequence of [kind, name], tools, core digest
Logged == [core |-> Ev.out.core, tail |-> Ev.out.tail, tools |-> Ev.out.tools]

TraceEmit ==
  /\ IsEvent("emit") /\ pc = "ready"
  /\ Ev.outcome = "ok"
  /\ LET want == Emitted IN
     \* C12: the unknown custom sections, as a sequence (name#payload digest), are exactly the ones held
     /\ (For("C12") => SelectSeq(Logged.tail, LAMBDA s : s.kind = "custom") = SelectSeq(want.tail, LAMBDA s : s.kind = "custom"))
     \* C14: name / producers / DWARF sections are present exactly when state and switches call for them, once each
     \* (their placement relative to other custom sections is not constrained)
     /\ (For("C14") => \A kd \in {"name", "producers", "dwarf"} :
          Cardinality({q \in DOMAIN Logged.tail : Logged.tail[q].kind = kd}) = Cardinality({q \in DOMAIN want.tail : want.tail[q].kind = kd}))
     /\ (For("C14") => Logged.tools = want.tools)
     /\ (For("C08") => (core = "fresh" \/ Logged.core = core))   \* same core bytes as the previous emit of this state
     /\ core' = Logged.core
     /\ outs' = Append(outs, Logged)
  /\ customs' = customs
  /\ (For("C08") \/ For("C12") => ObservedCustoms = customs)      \* emitting consumes nothing
  /\ emits' = emits + 1 /\ last' = <<last[2], "emit">>
  /\ (For("C08") /\ Len(outs) >= 1 /\ last[2] = "emit" => Ev.digest = H.events[l - 1].digest)   \* byte-identical repeat
  /\ (For("C08") /\ last[2] = "parse" => \A q \in DOMAIN H.procs : H.procs[q] = Ev.digest)      \* ... and across processes
  /\ UNCHANGED <<pc, cfg, input, hasNames, producers, dwarf, onParse>>

TraceGc ==
  /\ IsEvent("gc") /\ pc = "ready"
  /\ core' = "fresh"
  /\ hasNames' \in (IF hasNames THEN BOOLEAN ELSE {FALSE})   \* resolved by the next emit
  /\ customs' = customs
  /\ (For("C12") => ObservedCustoms = customs)             \* the pass loses no custom section
  /\ last' = <<last[2], "gc">>
  /\ UNCHANGED <<pc, cfg, input, producers, dwarf, onParse, outs, emits>>

TraceReparse ==
  /\ IsEvent("reparse") /\ pc = "ready" /\ outs # <<>>
  /\ IF Ev.ok
     THEN /\ LET o == outs[Len(outs)] IN
             /\ (For("C12") => Ev.input.customs = CustomNamesOf(o))   \* what is read back is what was written
             /\ ParseInto(Ev.input, cfg, o.core, Ev.input.tools)
          /\ (For("C14") => onParse' = Ev.calls)
          /\ last' = <<last[2], "reparse">>
          /\ UNCHANGED <<outs, emits, input>>
     ELSE \* walrus cannot read its own output: a C08 failure; the other properties stop judging this history here
          /\ ~For("C08")
          /\ UNCHANGED vars

\* after a reparse the next emit must reproduce the previous output byte for byte (fixpoint)
FixpointBytes ==
  (l <= Len(H.events) /\ Ev.ev = "emit" /\ last[2] = "reparse") =>
     \E q \in 1..(l - 1) : H.events[q].ev = "emit" /\ (\A r \in (q + 1)..(l - 1) : H.events[r].ev # "emit") /\ H.events[q].digest = Ev.digest

TraceNext == (TraceParseOk \/ TraceParseFail \/ TraceEmit \/ TraceGc \/ TraceReparse) /\ (For("C08") => FixpointBytes)

TInit == Init /\ k \in 1..Len(Cases) /\ l = 1
TSpec == TInit /\ [][TraceNext]_tvars

ASSUME \A n \in 1..Len(Cases) : TLCSet(10 + n, 0)
Record == IF TLCGet(10 + k) < l THEN TLCSet(10 + k, l) ELSE TRUE

Post == \A n \in 1..Len(Cases) :
          LET far == TLCGet(10 + n) IN
          \/ far = Len(Cases[n].events) + 1
          \/ PrintT("REJECT " \o ToJson(<<Cases[n].id, "history-rejected-at", far, Cases[n].events[far].ev,
                      [x \in DOMAIN Cases[n].events |-> Cases[n].events[x].ev], Cases[n].events[far]>>))

\* the design properties are evaluated on every state of every recorded history as well
TraceInvariants == RepeatedEmitsEqual /\ CustomsSurvive /\ ProcessedByOnce
=============================================================================
