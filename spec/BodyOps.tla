------------------------------ MODULE BodyOps ------------------------------
(***************************************************************************)
(* Function bodies.                                                        *)
(*                                                                         *)
(* 1. Operators as records (the harness's AbsOp projection).               *)
(* 2. The matching relation "out is in after nop / dead-code elision, with *)
(*    every operand denoting the corresponding entity" -- shared by the    *)
(*    design model below and by the trace spec Trace_Body.tla that judges  *)
(*    the real implementation.                                             *)
(* 3. A design model of walrus's body parser (local_function/mod.rs +      *)
(*    context.rs: control stack, `unreachable` flags, if/else state) and   *)
(*    emitter (local_function/emit.rs: in-order walk, block stack,         *)
(*    branch_target, the always-emitted `else`), run over *all* valid      *)
(*    control strings up to a length bound, with the invariant that the    *)
(*    emitted string matches the parsed one.                               *)
(***************************************************************************)
EXTENDS Naturals, Integers, Sequences, FiniteSets, TLC, Json

-----------------------------------------------------------------------------
(* 1. operators *)

IsOpen(o) == o.o \in {"Block", "Loop", "If"}
\* transfers of control after which the rest of the block is dead
Term(o) == o.o \in {"Br", "BrTable", "Return", "Unreachable", "ReturnCall", "ReturnCallIndirect"}

MkOp(name, labels) ==
  [o |-> name, imm |-> "", refs |-> <<>>, local |-> -1, labels |-> labels,
   bt |-> IF name \in {"Block", "Loop", "If"} THEN "()->()" ELSE ""]

-----------------------------------------------------------------------------
(* 2. the elision matcher: control stack of frames while scanning the input *)

Frame(live, kind) == [live |-> live, entryLive |-> live, kind |-> kind, hasElse |-> FALSE]
InitCtl == <<Frame(TRUE, "func")>>
TopOf(ctl) == ctl[Len(ctl)]

\* effect of consuming input operator o on the control stack
Step(ctl, o) ==
  IF IsOpen(o) THEN Append(ctl, Frame(TopOf(ctl).live, o.o))
  ELSE IF o.o = "Else" THEN
        LET t == TopOf(ctl) IN
        [ctl EXCEPT ![Len(ctl)] = [live |-> t.entryLive, entryLive |-> t.entryLive, kind |-> t.kind, hasElse |-> TRUE]]
  ELSE IF o.o = "End" THEN SubSeq(ctl, 1, Len(ctl) - 1)
  ELSE IF Term(o) THEN
        LET t == TopOf(ctl) IN
        [ctl EXCEPT ![Len(ctl)] = [live |-> FALSE, entryLive |-> t.entryLive, kind |-> t.kind, hasElse |-> t.hasElse]]
  ELSE ctl

\* is the operator itself live?  `end` / `else` of a frame are live iff the frame was entered live
InstrLive(ctl, o) == IF o.o \in {"End", "Else"} THEN TopOf(ctl).entryLive ELSE TopOf(ctl).live

\* what may be dropped: nops and syntactically dead operators.  Nothing else.
Droppable(ctl, o) == o.o = "Nop" \/ ~InstrLive(ctl, o)

\* operand correspondence, given the module-level renumbering sg, the two type tables and a local map lm
RefOK(sg, ti, to, r1, r2) ==
  /\ r1[1] = r2[1]
  /\ IF r1[1] = "type"
     THEN r1[2] + 1 \in DOMAIN ti /\ r2[2] + 1 \in DOMAIN to /\ ti[r1[2] + 1] = to[r2[2] + 1]
     ELSE r1[2] >= 0 /\ r1[2] < Len(sg[r1[1]]) /\ sg[r1[1]][r1[2] + 1] = r2[2]

SameOp(sg, ti, to, a, b) ==
  /\ a.o = b.o /\ a.imm = b.imm /\ a.bt = b.bt /\ a.labels = b.labels
  /\ Len(a.refs) = Len(b.refs)
  /\ \A q \in DOMAIN a.refs : RefOK(sg, ti, to, a.refs[q], b.refs[q])
  /\ (a.local < 0) = (b.local < 0)

\* local operands: a partial injective type-preserving map, parameters pinned to their positions
LocalOK(lm, c, a, b) ==
  IF a.local < 0 THEN TRUE
  ELSE /\ a.local < Len(c.inlocals) /\ b.local >= 0 /\ b.local < Len(c.outlocals)
       /\ c.inlocals[a.local + 1] = c.outlocals[b.local + 1]
       /\ ((a.local < c.nparams \/ b.local < c.nparams) => a.local = b.local)
       /\ IF a.local \in DOMAIN lm THEN lm[a.local] = b.local
          ELSE \A x \in DOMAIN lm : lm[x] # b.local
ExtendLm(lm, a, b) == IF a.local < 0 \/ a.local \in DOMAIN lm THEN lm ELSE (a.local :> b.local) @@ lm

\* Recursive form of the relation, used by the design model on short strings
\* (operands: no entity refs, no locals): does some elision of `in` from position i give `out` from j ?
RECURSIVE Acc(_, _, _, _, _)
Acc(in, out, i, j, ctl) ==
  IF i > Len(in) THEN j > Len(out)
  ELSE
    \/ /\ j <= Len(out)
       /\ in[i].o = out[j].o /\ in[i].labels = out[j].labels /\ in[i].bt = out[j].bt
       /\ Acc(in, out, i + 1, j + 1, Step(ctl, in[i]))
    \/ /\ Droppable(ctl, in[i])
       /\ Acc(in, out, i + 1, j, Step(ctl, in[i]))
    \/ /\ in[i].o = "End" /\ TopOf(ctl).kind = "If" /\ ~TopOf(ctl).hasElse
       /\ j + 1 <= Len(out) /\ out[j].o = "Else" /\ out[j + 1].o = "End"
       /\ Acc(in, out, i + 1, j + 2, Step(ctl, in[i]))

Matches(in, out) == Acc(in, out, 1, 1, InitCtl)
=============================================================================
