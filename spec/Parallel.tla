------------------------------ MODULE Parallel ------------------------------
(***************************************************************************)
(* The per-function fan-out of walrus with the `parallel` feature (C09):   *)
(*   src/lib.rs  maybe_parallel!  (into_iter | into_par_iter)              *)
(*   src/module/functions/mod.rs  parse_local_functions: bodies are parsed *)
(*        by a pool of workers, the results are collected into a vector    *)
(*        in job order, and a *serial* post-pass installs them, returning  *)
(*        the first error in job order;                                    *)
(*   src/module/functions/mod.rs  Emit for ModuleFunctions: bodies are     *)
(*        encoded by the pool, collected in job order, and concatenated    *)
(*        serially;                                                        *)
(*   src/module/data.rs  emit_data_count: a parallel `any`.                *)
(*                                                                         *)
(* W workers claim jobs in any order and finish them in any order; each    *)
(* result is a function of the job alone (the workers only read shared     *)
(* state).  Whatever the schedule, the collected vector, the error that is *)
(* reported, the concatenation and the `any` equal those of the serial     *)
(* loop.                                                                   *)
(***************************************************************************)
EXTENDS Naturals, Sequences, FiniteSets, TLC

CONSTANTS NJobs, NWorkers, Outcomes   \* Outcomes: what a job can produce, e.g. {"ok", "errA", "errB"}

VARIABLES job,       \* [1..NJobs -> Outcomes]: the (schedule-independent) result of each job
          claimed,   \* jobs taken by some worker
          working,   \* [worker -> job or 0]
          slots,     \* [1..NJobs -> result or "empty"]: the collected vector
          order      \* completion order (what the hooks record)
vars == <<job, claimed, working, slots, order>>

Jobs == 1..NJobs
Workers == 1..NWorkers

Init == /\ job \in [Jobs -> Outcomes]
        /\ claimed = {} /\ working = [w \in Workers |-> 0]
        /\ slots = [j \in Jobs |-> "empty"] /\ order = <<>>

Claim(w) == /\ working[w] = 0
            /\ \E j \in Jobs \ claimed :
                 /\ claimed' = claimed \cup {j} /\ working' = [working EXCEPT ![w] = j]
            /\ UNCHANGED <<job, slots, order>>

\* the result depends on the job only; it lands in the job's own slot
Finish(w) == /\ working[w] # 0
             /\ slots' = [slots EXCEPT ![working[w]] = job[working[w]]]
             /\ order' = Append(order, working[w])
             /\ working' = [working EXCEPT ![w] = 0]
             /\ UNCHANGED <<job, claimed>>

Next == \E w \in Workers : Claim(w) \/ Finish(w)
Spec == Init /\ [][Next]_vars /\ WF_vars(Next)

AllDone == \A j \in Jobs : slots[j] # "empty"

\* the serial post-pass over a collected vector: first error in job order, else ok
FirstError(v) == IF \E j \in Jobs : v[j] # "ok"
                 THEN v[CHOOSE j \in Jobs : v[j] # "ok" /\ \A i \in Jobs : v[i] # "ok" => j <= i]
                 ELSE "ok"
Concat(v) == [j \in Jobs |-> v[j]]                 \* emission: job order, not completion order
AnyErr(v) == \E j \in Jobs : v[j] # "ok"           \* a parallel `any`

\* C09: for every schedule the observable results equal the serial build's
SameAsSerial == AllDone => /\ slots = job
                           /\ FirstError(slots) = FirstError(job)
                           /\ Concat(slots) = Concat(job)
                           /\ AnyErr(slots) = AnyErr(job)
\* every job is done exactly once
EachJobOnce == /\ \A a, b \in DOMAIN order : order[a] = order[b] => a = b
               /\ Len(order) <= NJobs
\* all interleavings terminate with every slot filled
Terminates == <>AllDone
=============================================================================
