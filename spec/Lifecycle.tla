----------------------------- MODULE Lifecycle -----------------------------
(***************************************************************************)
(* Life of a Module value with respect to everything that is *not* core    *)
(* wasm: unknown custom sections, the name section, the producers section, *)
(* DWARF sections, the configuration switches, and the bytes produced by   *)
(* repeated emission.                                                      *)
(*                                                                         *)
(*    Parse(input, cfg) ; (Emit | Gc)* ; Reparse(last output)              *)
(*                                                                         *)
(* Mirrors src/module/mod.rs (parse: routing of custom sections; emit_wasm:*)
(* name / producers / DWARF / customs emission), src/module/config.rs,     *)
(* src/module/producers.rs (add_processed_by), src/module/custom.rs.       *)
(* The core of the module is abstracted to an opaque token `core` that a   *)
(* GC pass may replace by another token.                                   *)
(*                                                                         *)
(* Properties: C08 (emission is pure, deterministic, a fixpoint),          *)
(* C12 (unknown custom sections survive in order, exactly once),           *)
(* C14 (each switch governs exactly its own section; processed-by walrus   *)
(* exactly once; on_parse once per successful parse).                      *)
(***************************************************************************)
EXTENDS Naturals, Sequences, FiniteSets, TLC

CONSTANTS CustomNames,     \* names of unknown custom sections used in inputs
          MaxCustoms,      \* at most this many unknown sections per input
          MaxEmits,        \* bound on the number of Emit steps of a behaviour
          LegacyTakeCustoms  \* TRUE: emit_wasm moves the custom sections out and never restores them (code before the fix)

Flags == [names : BOOLEAN, producers : BOOLEAN, dwarf : BOOLEAN]

\* an input binary, abstractly
Inputs ==
  [customs   : UNION {[1..n -> CustomNames] : n \in 0..MaxCustoms},   \* unknown sections, in file order, duplicates allowed
   hasNames  : BOOLEAN,
   tools     : {<<>>, <<"rustc">>, <<"rustc", "walrus">>, <<"walrus", "rustc">>},   \* the processed-by field of the input's producers section
   hasDwarf  : BOOLEAN]

\* an emitted binary, abstractly: the non-core sections in emission order plus the core token
Section(kind, name) == [kind |-> kind, name |-> name]

VARIABLES pc,        \* "empty" | "ready"
          cfg, input,
          core,      \* opaque token of the core module (changes only by Gc)
          customs,   \* Seq(name): ModuleCustomSections, in arena order
          hasNames, producers, dwarf,   \* producers: sequence of tool names in the processed-by field, or "absent"
          onParse,   \* number of on_parse callback invocations
          outs,      \* sequence of emitted binaries
          emits,
          last       \* the two most recent actions
vars == <<pc, cfg, input, core, customs, hasNames, producers, dwarf, onParse, outs, emits, last>>

ProducersOf(i) == i.tools

\* ModuleProducers::add_processed_by: replaces an existing walrus entry, else appends
AddProcessedBy(p) == IF \E q \in DOMAIN p : p[q] = "walrus" THEN p ELSE Append(p, "walrus")

ParseInto(i, c, tok, prods) ==
  /\ cfg' = c /\ core' = tok
  /\ customs' = i.customs                 \* every section that is not name / producers / .debug*
  /\ hasNames' = i.hasNames
  /\ producers' = AddProcessedBy(prods)
  /\ dwarf' = (i.hasDwarf /\ c.dwarf)     \* debug sections are only retained (converted) when DWARF generation is on
  /\ onParse' = onParse + 1
  /\ pc' = "ready"

Parse == /\ pc = "empty"
         /\ \E i \in Inputs, c \in Flags : ParseInto(i, c, "core0", ProducersOf(i)) /\ input' = i
         /\ last' = <<last[2], "parse">>
         /\ UNCHANGED <<outs, emits>>

\* what emit_wasm writes after the core sections, in order
Emitted ==
  [core |-> core,
   tail |-> (IF cfg.names /\ hasNames THEN <<Section("name", "name")>> ELSE <<>>)
            \o (IF cfg.producers THEN <<Section("producers", "producers")>> ELSE <<>>)
            \o (IF cfg.dwarf /\ dwarf THEN <<Section("dwarf", ".debug")>> ELSE <<>>)
            \o [q \in DOMAIN customs |-> Section("custom", customs[q])],
   tools |-> IF cfg.producers THEN producers ELSE <<>>]

Emit == /\ pc = "ready" /\ emits < MaxEmits
        /\ outs' = Append(outs, Emitted)
        /\ emits' = emits + 1
        /\ customs' = (IF LegacyTakeCustoms THEN <<>> ELSE customs)
        /\ last' = <<last[2], "emit">>
        /\ UNCHANGED <<pc, cfg, input, core, hasNames, producers, dwarf, onParse>>

Gc == /\ pc = "ready" /\ core = "core0"
      /\ core' = "core0-gc"        \* the pass only touches the core; custom sections contribute roots, nothing else
      /\ hasNames' \in (IF hasNames THEN BOOLEAN ELSE {FALSE})   \* names disappear together with the entities that carry them
      /\ last' = <<last[2], "gc">>
      /\ UNCHANGED <<pc, cfg, input, customs, producers, dwarf, onParse, outs, emits>>

\* read back what the last emitted binary contains
AsInput(o) ==
  [customs   |-> LET cs == SelectSeq(o.tail, LAMBDA s : s.kind = "custom") IN [q \in DOMAIN cs |-> cs[q].name],
   hasNames  |-> \E q \in DOMAIN o.tail : o.tail[q].kind = "name",
   tools     |-> IF \E q \in DOMAIN o.tail : o.tail[q].kind = "producers"
                 THEN o.tools ELSE <<>>,
   hasDwarf  |-> \E q \in DOMAIN o.tail : o.tail[q].kind = "dwarf"]

Reparse == /\ pc = "ready" /\ outs # <<>> /\ last[2] = "emit"
           /\ LET o == outs[Len(outs)]
                  hasP == \E q \in DOMAIN o.tail : o.tail[q].kind = "producers"
                  tools == IF hasP THEN o.tools ELSE <<>>
              IN ParseInto(AsInput(o), cfg, o.core, tools)
           /\ last' = <<last[2], "reparse">>
           /\ UNCHANGED <<outs, emits, input>>

Init == /\ pc = "empty" /\ cfg = [names |-> TRUE, producers |-> TRUE, dwarf |-> FALSE]
        /\ input = [customs |-> <<>>, hasNames |-> FALSE, tools |-> <<>>, hasDwarf |-> FALSE]
        /\ core = "none" /\ customs = <<>> /\ hasNames = FALSE /\ producers = <<>> /\ dwarf = FALSE
        /\ onParse = 0 /\ outs = <<>> /\ emits = 0 /\ last = <<"none", "none">>

Next == Parse \/ Emit \/ Gc \/ Reparse
Spec == Init /\ [][Next]_vars

-----------------------------------------------------------------------------
ModState == <<core, customs, hasNames, producers, dwarf, cfg>>

\* C08: emitting consumes or alters nothing
EmitIsPure == [][(emits' = emits + 1) => UNCHANGED ModState]_vars

\* C08: two consecutive emits give identical binaries
RepeatedEmitsEqual == (last = <<"emit", "emit">>) => outs[Len(outs)] = outs[Len(outs) - 1]

\* C08: re-parsing the last output and emitting again reproduces it (round trip is a fixpoint)
\* -- stated for outputs that carry a producers section or have it switched off both times
Fixpoint == (last = <<"reparse", "emit">> /\ Len(outs) >= 2) => outs[Len(outs)] = outs[Len(outs) - 1]

CustomNamesOf(o) == LET cs == SelectSeq(o.tail, LAMBDA s : s.kind = "custom") IN [q \in DOMAIN cs |-> cs[q].name]

\* C12: every emitted binary carries the input's unknown custom sections, in order, exactly once
CustomsSurvive == \A q \in DOMAIN outs : CustomNamesOf(outs[q]) = input.customs

\* C14: each switch governs exactly its section
SwitchesExact ==
  \A q \in DOMAIN outs :
    LET t == outs[q].tail
        has(kd) == \E r \in DOMAIN t : t[r].kind = kd IN
    /\ (has("name") => (cfg.names /\ input.hasNames))
    /\ ((cfg.names /\ input.hasNames /\ outs[q].core = "core0") => has("name"))
    /\ has("producers") = cfg.producers
    /\ has("dwarf") = (cfg.dwarf /\ input.hasDwarf)
    /\ Cardinality({r \in DOMAIN t : t[r].kind \in {"name", "producers", "dwarf"}}) = Cardinality({kd \in {"name", "producers", "dwarf"} : has(kd)})

\* C14: walrus is recorded exactly once, input tools preserved in order
ProcessedByOnce ==
  \A q \in DOMAIN outs :
    (\E r \in DOMAIN outs[q].tail : outs[q].tail[r].kind = "producers") =>
      LET tools == outs[q].tools IN
      /\ Cardinality({x \in DOMAIN tools : tools[x] = "walrus"}) = 1
      /\ SelectSeq(tools, LAMBDA x : x # "walrus") = SelectSeq(ProducersOf(input), LAMBDA x : x # "walrus")

\* C14: the callback runs exactly once per successful parse
OnParseOnce == (pc = "ready") => onParse >= 1
=============================================================================
