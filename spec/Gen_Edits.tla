------------------------------ MODULE Gen_Edits ------------------------------
(***************************************************************************)
(* Spec -> implementation: behaviours of Edits.tla over the states of real *)
(* parsed modules.  The harness writes the observable state of each parsed *)
(* module (IOEnv.INITS, ndjson); TLC explores edit sequences from each of  *)
(* them (exhaustively for small bounds, or with -simulate) and prints each *)
(* maximal sequence as one "CASE" line that the harness replays through    *)
(* the public API.  The guards of Edits.tla are what makes a script        *)
(* well-formed.                                                            *)
(***************************************************************************)
EXTENDS Edits, Json, IOUtils

Inits == ndJsonDeserialize(IOEnv.INITS)
CONSTANT MaxEdits
VARIABLES k, hist, nedits
gvars == <<st, nedits, k, hist>>

Nodes(s) == UNION {{<<sp, id>> : id \in LiveIds(s, sp)} : sp \in ESpaces}
\* bodies of new functions: empty, or one or two live entities
Pick(S) == IF S = {} THEN {} ELSE {CHOOSE x \in S : TRUE}
SomeNodes(s) == UNION {Pick({n \in Nodes(s) : n[1] = sp}) : sp \in ESpaces} \cup Pick({n \in Nodes(s) : n[1] = "func" /\ n[2] > 0})
Bodies(s) == {<<>>} \cup {<<n>> : n \in SomeNodes(s)} \cup {<<a, b>> : a \in SomeNodes(s), b \in SomeNodes(s)}
AsRefs(b) == [q \in DOMAIN b |-> <<b[q][1], b[q][2]>>]
Canon(b) == b   \* bodies are generated in the canonical (sorted, duplicate-free) order below
\* the harness reports body references sorted by (space name, id) without duplicates
Rank(sp) == CASE sp = "data" -> 1 [] sp = "elem" -> 2 [] sp = "func" -> 3 [] sp = "global" -> 4 [] sp = "memory" -> 5 [] sp = "table" -> 6
Sorted(b) == IF Len(b) < 2 THEN TRUE
             ELSE IF Rank(b[1][1]) # Rank(b[2][1]) THEN Rank(b[1][1]) < Rank(b[2][1]) ELSE b[1][2] < b[2][2]

Rec(op, id, extra) == [op |-> op, id |-> id] @@ extra

GStep ==
  /\ nedits < MaxEdits /\ nedits' = nedits + 1 /\ UNCHANGED k
  /\ \/ \E f \in LiveIds(st, "func"), b \in Bodies(st) : Sorted(b) /\
          IF CanReplaceImported(st, f) THEN st' = ReplaceImported(st, f, b) /\ hist' = Append(hist, [op |-> "replace_imported", id |-> f, refs |-> b])
          ELSE st' = st /\ hist' = Append(hist, [op |-> "replace_imported", id |-> f, refs |-> b])   \* must fail and change nothing
     \/ \E f \in LiveIds(st, "func"), b \in Bodies(st) : Sorted(b) /\
          IF CanReplaceExported(st, f) THEN st' = ReplaceExported(st, f, b) /\ hist' = Append(hist, [op |-> "replace_exported", id |-> f, refs |-> b])
          ELSE st' = st /\ hist' = Append(hist, [op |-> "replace_exported", id |-> f, refs |-> b])
     \/ \E sp \in ESpaces : \E id \in LiveIds(st, sp) : CanDelete(st, sp, id) /\ st' = Delete(st, sp, id)
          /\ hist' = Append(hist, [op |-> "delete_" \o sp, id |-> id])
     \/ \E x \in DOMAIN st.exports : st' = DeleteExport(st, x) /\ hist' = Append(hist, [op |-> "delete_export", k |-> x - 1])
     \/ \E sp \in {"func", "table", "memory", "global"} : \E id \in LiveIds(st, sp) :
          st' = AddExport(st, "x" \o ToString(nedits), sp, id)
          /\ hist' = Append(hist, [op |-> "add_export", name |-> "x" \o ToString(nedits), kind |-> sp, target |-> id])
     \/ \E b \in Bodies(st) : Sorted(b) /\ st' = AddFunc(st, "()->()", b) /\ hist' = Append(hist, [op |-> "add_func", sig |-> "()->()", refs |-> b])
     \/ st' = AddImportFunc(st, "n" \o ToString(nedits), "()->()") /\ hist' = Append(hist, [op |-> "add_import_func", field |-> "n" \o ToString(nedits), sig |-> "()->()"])
     \/ \E ety \in {"funcref", "externref"} : st' = AddImportTable(st, "t" \o ToString(nedits), ety) /\ hist' = Append(hist, [op |-> "add_import_table", field |-> "t" \o ToString(nedits), ety |-> ety])
     \/ st' = AddImportMemory(st, "m" \o ToString(nedits)) /\ hist' = Append(hist, [op |-> "add_import_memory", field |-> "m" \o ToString(nedits)])
     \/ st' = AddImportGlobal(st, "g" \o ToString(nedits)) /\ hist' = Append(hist, [op |-> "add_import_global", field |-> "g" \o ToString(nedits)])
     \/ st' = AddGlobal(st, TRUE, 7) /\ hist' = Append(hist, [op |-> "add_global", mutable |-> TRUE, value |-> 7])
     \/ st' = AddMemory(st, 1) /\ hist' = Append(hist, [op |-> "add_memory", pages |-> 1])
     \/ st' = AddTable(st, 1) /\ hist' = Append(hist, [op |-> "add_table", min |-> 1])
     \/ st' = AddPassiveData(st, "af63bd4c8601b7be") /\ hist' = Append(hist, [op |-> "add_data", mode |-> "passive", mem |-> 0, byte |-> 0])
     \/ \E f \in Pick(LiveIds(st, "func")) : st' = AddPassiveElem(st, <<f>>) /\ hist' = Append(hist, [op |-> "add_elem", funcs |-> <<f>>])
     \/ \E f \in LiveIds(st, "func") : st.funcs[f + 1].sig = "()->()" /\ st' = SetStart(st, f) /\ hist' = Append(hist, [op |-> "set_start", id |-> f])
     \/ st' = SetStart(st, -1) /\ hist' = Append(hist, [op |-> "clear_start"])

RF == {Inits[k].rf[q] : q \in DOMAIN Inits[k].rf}
\* only well-formed edits are generated: no step of the *user's* removes the last declaration of a function a body names
\* by ref.func.  replace_exported_func is walrus's own edit: when it takes away the only declaration (the export) of such a
\* function the output no longer validates -- that is a finding about walrus (known_findings.json), not an ill-formed script
GStepWF == GStep /\ (RefFuncOK(st', RF) \/ ~RefFuncOK(st, RF) \/ hist'[Len(hist')].op = "replace_exported")

GInit == k \in 1..Len(Inits) /\ st = Inits[k].state /\ nedits = 0 /\ hist = <<>>
GSpec == GInit /\ [][GStepWF]_gvars

EmitCase == nedits = MaxEdits => PrintT("CASE " \o ToJson([id |-> Inits[k].id, edits |-> hist]))
StillWF == WF(st)
=============================================================================
