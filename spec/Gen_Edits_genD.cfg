SPECIFICATION GSpec
CONSTANTS
  MaxEdits = 5
INVARIANTS
  EmitCase
  StillWF
CHECK_DEADLOCK FALSE
