SPECIFICATION GSpec
CONSTANTS
  MaxEdits = 3
INVARIANTS
  EmitCase
  StillWF
CHECK_DEADLOCK FALSE
