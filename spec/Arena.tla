------------------------------- MODULE Arena -------------------------------
(***************************************************************************)
(* One collection of a Module: src/tombstone_arena.rs (+ src/arena_set.rs  *)
(* for the de-duplicating type collection) as seen through the public      *)
(* wrappers (ModuleTypes, ModuleExports, ModuleImports, ModuleMemories,    *)
(* ModuleTables, ModuleGlobals, ModuleData, ModuleElements,                *)
(* ModuleFunctions, ModuleCustomSections, ModuleLocals).                   *)
(*                                                                         *)
(* Identifiers are 1..Len(store): the k-th allocation gets id k, forever.  *)
(* `dead` is the tombstone set.  Every operation returns a record `ret`    *)
(* that the trace spec compares with what the implementation returned.     *)
(***************************************************************************)
EXTENDS Naturals, Sequences, FiniteSets, TLC

CONSTANTS Values,    \* item payloads
          MaxOps,    \* bound on history length (model checking only)
          Dedup,     \* TRUE: adding an item equal to a live one returns the existing id (ArenaSet / ModuleTypes)
          CanDelete  \* FALSE for ModuleLocals

VARIABLES store, dead, ret, nops
vars == <<store, dead, ret, nops>>

Ids == 1..Len(store)
Live == Ids \ dead
LiveWith(v) == {i \in Live : store[i] = v}
MinOf(S) == CHOOSE x \in S : \A y \in S : x <= y

Init == store = <<>> /\ dead = {} /\ ret = [op |-> "init"] /\ nops = 0

Tick == nops < MaxOps /\ nops' = nops + 1

Add(v) ==
  /\ Tick
  /\ IF Dedup /\ LiveWith(v) # {}
     THEN /\ UNCHANGED <<store, dead>>
          /\ ret' = [op |-> "add", v |-> v, id |-> MinOf(LiveWith(v)), fresh |-> FALSE]
     ELSE /\ store' = Append(store, v) /\ UNCHANGED dead
          /\ ret' = [op |-> "add", v |-> v, id |-> Len(store) + 1, fresh |-> TRUE]

\* deleting a dead id trips the arena's assertion: reported as "absent", state unchanged
Delete(i) ==
  /\ Tick /\ CanDelete /\ i \in Ids
  /\ IF i \in dead
     THEN UNCHANGED <<store, dead>> /\ ret' = [op |-> "delete", id |-> i, res |-> "absent"]
     ELSE dead' = dead \cup {i} /\ UNCHANGED store /\ ret' = [op |-> "delete", id |-> i, res |-> "ok"]

\* a dead id is reported absent (a panic or an explicit None), never another item
Get(i) ==
  /\ Tick /\ i \in Ids /\ UNCHANGED <<store, dead>>
  /\ ret' = [op |-> "get", id |-> i, found |-> i \notin dead, v |-> IF i \in dead THEN 0 ELSE store[i]]

IterSeq == LET F[n \in 0..Len(store)] ==
                 IF n = 0 THEN <<>> ELSE IF n \in dead THEN F[n - 1] ELSE Append(F[n - 1], <<n, store[n]>>)
           IN F[Len(store)]

\* iteration: exactly the live items, in creation order
Iter == /\ Tick /\ UNCHANGED <<store, dead>>
        /\ ret' = [op |-> "iter", res |-> IterSeq, len |-> Cardinality(Live)]

\* lookup by value (ModuleTypes::find, ModuleImports::find, ModuleFunctions::by_name, ...): some live id with that value, or none
Find(v) == /\ Tick /\ UNCHANGED <<store, dead>>
           /\ ret' = [op |-> "find", v |-> v, ids |-> LiveWith(v)]

Next == (\E v \in Values : Add(v) \/ Find(v)) \/ (\E i \in Ids : Delete(i) \/ Get(i)) \/ Iter
Spec == Init /\ [][Next]_vars

-----------------------------------------------------------------------------
(* C17 *)
NeverReused     == [][Len(store') >= Len(store) /\ \A i \in Ids : store'[i] = store[i]]_vars
DeadStaysDead   == [][dead \subseteq dead']_vars
DedupInv        == Dedup => \A a, b \in Live : store[a] = store[b] => a = b
AddReturnsLive  == ret.op = "add" => ret.id \in Live /\ store[ret.id] = ret.v
AddFreshIsNew   == [][(ret'.op = "add" /\ ret'.fresh) => ret'.id = Len(store) + 1 /\ ret'.id \notin Ids]_vars
DeleteIsolated  == [][\A i \in Ids : (i \in Live /\ i \in Live') => store'[i] = store[i]]_vars
DeleteOnlyThat  == [][ret'.op = "delete" => (dead' \ dead) \subseteq {ret'.id}]_vars
IterIsLiveInOrder == ret.op = "iter" =>
   /\ {p[1] : p \in {ret.res[q] : q \in DOMAIN ret.res}} = Live
   /\ \A a, b \in DOMAIN ret.res : a < b => ret.res[a][1] < ret.res[b][1]
   /\ ret.len = Len(ret.res)
GetIsStable     == ret.op = "get" => /\ ret.found = (ret.id \in Live)
                                    /\ (ret.found => ret.v = store[ret.id])
=============================================================================
