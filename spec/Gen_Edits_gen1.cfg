SPECIFICATION GSpec
CONSTANTS
  MaxEdits = 1
INVARIANTS
  EmitCase
  StillWF
CHECK_DEADLOCK FALSE
