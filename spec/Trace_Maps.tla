------------------------------ MODULE Trace_Maps ------------------------------
(***************************************************************************)
(* C19 monitor.  One trace line = one parse ; [gc] ; emit with             *)
(*   inm     the input binary (wasmparser)                                 *)
(*   st1     the Module as seen through the public API *inside on_parse*,  *)
(*           indexed by arena id                                           *)
(*   i2id    IndicesToIds as queried inside on_parse (index -> id)         *)
(*   st2     the Module just before emit, indexed by arena id              *)
(*   id2idx  IdsToIndices as queried inside CustomSection::data            *)
(*   outm    the emitted binary (wasmparser)                               *)
(* Both maps are judged with the renumbering relation of ModuleGraph.tla:  *)
(*   Iso(inm, st1, i2id)      -- the id the parse-time map returns for an  *)
(*                               index is the entity the input defines     *)
(*                               there (attributes, references, order)     *)
(*   Iso(st2, outm, id2idx)   -- the index the emit-time map returns for   *)
(*                               an id is where that entity appears        *)
(* plus types (by signature) and locals (by type and parameter position).  *)
(***************************************************************************)
EXTENDS ModuleGraph, Json, IOUtils

Cases == ndJsonDeserialize(IOEnv.TRACEFILE)
VARIABLES k, verdict
vars == <<k, verdict>>

TypesParseOK(c) == \A q \in DOMAIN c.i2id["type"] :
  LET id == c.i2id["type"][q] IN id >= 0 /\ id < Len(c.st1.types) /\ c.st1.types[id + 1] = c.inm.types[q]
TypesEmitOK(c) == \A id \in 0..(Len(c.id2idx["type"]) - 1) :
  LET j == c.id2idx["type"][id + 1] IN j < 0 \/ (j < Len(c.outm.types) /\ c.outm.types[j + 1] = c.st2.types[id + 1])

\* locals: for function index f, local index l: the id's type is the declared type; parameters are the function's args in order
LocalsOK(c) == \A f \in DOMAIN c.locals :
  LET L == c.locals[f] IN
  c.inm.funcs[f].imported \/
  /\ Len(L.types) = Len(c.inm.funcs[f].locals)
  /\ \A l \in DOMAIN L.types : L.types[l] = c.inm.funcs[f].locals[l]
  /\ \A l \in DOMAIN L.args : L.args[l] = L.ids[l]
  /\ Len(L.args) = c.inm.funcs[f].nparams
  /\ \A a, b \in DOMAIN L.ids : L.ids[a] = L.ids[b] => a = b

\* which function is where: the entities a function's body names, carried through the map, are the entities the
\* function at the mapped position names (two functions of one type are told apart by what they refer to)
RefSet(fn) == {<<fn.refs[q][1], fn.refs[q][2]>> : q \in DOMAIN fn.refs}
LiveRefSet(fn) == {<<fn.live_refs[q][1], fn.live_refs[q][2]>> : q \in DOMAIN fn.live_refs}
Through(map, rs) == {<<r[1], map[r[1]][r[2] + 1]>> : r \in rs}
ParseBodiesOK(c) == \A i \in DOMAIN c.inm.funcs :
  LET id == c.i2id["func"][i] IN
  c.inm.funcs[i].imported \/ id < 0 \/ Through(c.i2id, LiveRefSet(c.inm.funcs[i])) = RefSet(c.st1.funcs[id + 1])
EmitBodiesOK(c) == \A id \in 0..(Len(c.st2.funcs) - 1) :
  LET j == c.id2idx["func"][id + 1] IN
  c.st2.funcs[id + 1].sig = "dead" \/ c.st2.funcs[id + 1].imported \/ j < 0 \/ Through(c.id2idx, RefSet(c.st2.funcs[id + 1])) = RefSet(c.outm.funcs[j + 1])

Verdict(c) ==
  IF c.outcome # "ok" THEN <<"outcome", c.outcome>>
  ELSE LET p == IsoVerdict(c.inm, c.st1, c.i2id) IN
  IF p[1] # "ok" THEN <<"parse-map">> \o p
  ELSE IF ~AllKept(c.inm, c.i2id) THEN <<"parse-map", "index-without-id">>
  ELSE IF ~TypesParseOK(c) THEN <<"parse-map", "type">>
  ELSE IF ~LocalsOK(c) THEN <<"parse-map", "locals">>
  ELSE IF ~ParseBodiesOK(c) THEN <<"parse-map", "function-body-elsewhere">>
  ELSE LET e == IsoVerdict(c.st2, c.outm, c.id2idx) IN
  IF e[1] # "ok" THEN <<"emit-map">> \o e
  ELSE IF ~TypesEmitOK(c) THEN <<"emit-map", "type">>
  ELSE IF ~EmitBodiesOK(c) THEN <<"emit-map", "function-body-elsewhere">>
  ELSE <<"ok">>

Judge(c) == LET v == Verdict(c) IN
            IF v[1] = "ok" \/ PrintT("REJECT " \o ToJson(<<c.id>> \o v)) THEN v[1] ELSE v[1]

Init == k \in 1..Len(Cases) /\ verdict = "pending"
Next == verdict = "pending" /\ verdict' = Judge(Cases[k]) /\ UNCHANGED k
Spec == Init /\ [][Next]_vars
Accepted == verdict \in {"pending", "ok"}
=============================================================================
