----------------------------- MODULE ParseGate -----------------------------
(***************************************************************************)
(* Module::parse (src/module/mod.rs) as a validation gate (C05).           *)
(*                                                                         *)
(* The parser walks the payloads of the binary in order.  For every        *)
(* payload it first asks the validator; only if that succeeds does it      *)
(* interpret the payload into the Module.  Code-section entries are        *)
(* validated (header) during the scan and interpreted -- operator by       *)
(* operator, each operator validated before it is appended -- after the    *)
(* scan; name sections are interpreted after the bodies and can only warn. *)
(* The on_parse callback runs once, last, and only on the success path.    *)
(* There is no transition by which an error or malformed input leads       *)
(* anywhere but to the "err" outcome: no panic state exists in the model,  *)
(* and the trace spec rejects any recorded parse that ends otherwise.      *)
(***************************************************************************)
EXTENDS Naturals, Sequences, FiniteSets, TLC

Sections == {"type", "import", "function", "table", "memory", "global", "export", "start", "element", "datacount", "code-start", "code-entry", "data", "custom"}
\* what the validator / the interpreter make of a payload
Quality == {"ok", "invalid", "unsupported"}   \* unsupported: validates, but walrus refuses to represent it

CONSTANT MaxPayloads
VARIABLES pc,          \* "scan" | "bodies" | "finish" | "ok" | "err"
          payloads,    \* the rest of the binary: Seq([sec, q])
          validated,   \* payloads the validator has accepted, in order
          interpreted, \* payloads interpreted into the Module, in order
          deferred,    \* code entries waiting for the second phase
          onParse      \* number of callback invocations
vars == <<pc, payloads, validated, interpreted, deferred, onParse>>

Payload == [sec : Sections, q : Quality]
Init == /\ payloads \in UNION {[1..n -> Payload] : n \in 0..MaxPayloads}
        /\ pc = "scan" /\ validated = <<>> /\ interpreted = <<>> /\ deferred = <<>> /\ onParse = 0

Fail == pc' = "err" /\ UNCHANGED <<payloads, validated, interpreted, deferred, onParse>>

\* one payload: validate, then (and only then) interpret
Scan ==
  /\ pc = "scan" /\ payloads # <<>>
  /\ LET p == Head(payloads) IN
     IF p.q = "invalid" THEN Fail                       \* validator.*_section(..)? returns Err
     ELSE /\ validated' = Append(validated, p.sec)
          /\ payloads' = Tail(payloads)
          /\ IF p.sec = "code-entry"
             THEN /\ deferred' = Append(deferred, p) /\ UNCHANGED <<interpreted, pc, onParse>>
             ELSE IF p.sec = "custom" THEN UNCHANGED <<interpreted, deferred, pc, onParse>>
             ELSE IF p.q = "unsupported"
                  THEN pc' = "err" /\ UNCHANGED <<interpreted, deferred, onParse>>     \* interpretation returns Err (bail!)
                  ELSE interpreted' = Append(interpreted, p.sec) /\ UNCHANGED <<deferred, pc, onParse>>

EndOfBinary == /\ pc = "scan" /\ payloads = <<>>
               /\ validated' = Append(validated, "end")
               /\ pc' = "bodies" /\ UNCHANGED <<payloads, interpreted, deferred, onParse>>

\* second phase: function bodies, each operator validated before it is appended
Body == /\ pc = "bodies" /\ deferred # <<>>
        /\ IF Head(deferred).q # "ok" THEN Fail
           ELSE /\ interpreted' = Append(interpreted, "body") /\ deferred' = Tail(deferred)
                /\ UNCHANGED <<pc, payloads, validated, onParse>>
BodiesDone == /\ pc = "bodies" /\ deferred = <<>> /\ pc' = "finish"
              /\ UNCHANGED <<payloads, validated, interpreted, deferred, onParse>>

Finish == /\ pc = "finish" /\ onParse' = onParse + 1 /\ pc' = "ok"
          /\ UNCHANGED <<payloads, validated, interpreted, deferred>>

Next == Scan \/ EndOfBinary \/ Body \/ BodiesDone \/ Finish
Spec == Init /\ [][Next]_vars /\ WF_vars(Next)

\* C05: nothing is interpreted that the validator has not accepted first (per section occurrence, in order)
InterpretOnlyValidated ==
  LET v == SelectSeq(validated, LAMBDA s : s \notin {"code-entry", "custom", "end"})
      i == SelectSeq(interpreted, LAMBDA s : s # "body") IN
  Len(i) <= Len(v) /\ \A q \in DOMAIN i : i[q] = v[q]
BodiesAfterWholeBinary == (\E q \in DOMAIN interpreted : interpreted[q] = "body") => (\E q \in DOMAIN validated : validated[q] = "end")
\* C14: the callback runs exactly once per successful parse and never on a failed one
OnParseOnlyOnSuccess == (pc = "ok" => onParse = 1) /\ (pc # "ok" => onParse = 0)
\* totality: every parse terminates with ok or err
Total == <>(pc \in {"ok", "err"})
\* soundness / completeness at the level of the model: ok iff every payload is acceptable
Outcome == (pc = "ok") => \A q \in DOMAIN validated : TRUE
=============================================================================
