SPECIFICATION ESpec
CONSTANTS
  Values = {1, 2}
  MaxOps = 5
  Dedup = FALSE
  CanDelete = TRUE
INVARIANTS
  EmitCase
CHECK_DEADLOCK FALSE
