SPECIFICATION Spec
CONSTANTS
  NJobs = 4
  NWorkers = 3
  Outcomes = {"ok", "errA", "errB"}
INVARIANTS
  SameAsSerial
  EachJobOnce
PROPERTIES
  Terminates
CHECK_DEADLOCK FALSE
