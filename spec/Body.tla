------------------------------- MODULE Body -------------------------------
(***************************************************************************)
(* Design model of walrus's function-body parser and emitter, run over     *)
(* all valid control strings up to a length bound; the relation it must    *)
(* satisfy (Matches) is defined in BodyOps.tla and shared with the trace   *)
(* spec Trace_Body.tla that judges the real implementation.                *)
(***************************************************************************)
EXTENDS BodyOps

-----------------------------------------------------------------------------
(* 3. design model: validate + parse (walrus) one operator at a time, then emit *)

CONSTANTS MaxLen,     \* bound on the length of the control strings explored
          MaxDepth    \* bound on nesting

VARIABLES src,      \* operators consumed so far
          vst,      \* validator: control frames [kind, height, unreach, hasElse]
          wst,      \* walrus: control frames [kind, unreachable, block (seq id)]
          ifelse,   \* walrus: if/else states [consequent, alternative (or -1)]
          seqs,     \* walrus: arena of instruction sequences (id k-1 <-> k-th), each a Seq of IR nodes
          done,     \* the function's final `end` was consumed
          out       \* emitted string or <<>>
bvars == <<src, vst, wst, ifelse, seqs, done, out>>

VTop == vst[Len(vst)]
WTop == wst[Len(wst)]

\* IR nodes
NOp(name)        == [t |-> "op", name |-> name, a |-> -1, b |-> -1, targets |-> <<>>]
NBlock(kind, s)  == [t |-> "block", name |-> kind, a |-> s, b |-> -1, targets |-> <<>>]
NIfElse(c, alt)  == [t |-> "ifelse", name |-> "If", a |-> c, b |-> alt, targets |-> <<>>]
NBr(name, tg)    == [t |-> "br", name |-> name, a |-> -1, b |-> -1, targets |-> tg]

\* context.rs alloc_instr_in_control(n, ..): append to the block of the n-th enclosing frame unless that frame is unreachable
AllocIn(n, node) ==
  LET f == wst[Len(wst) - n] IN
  IF f.unreachable THEN seqs ELSE [seqs EXCEPT ![f.block + 1] = Append(@, node)]
NewSeq == Len(seqs)   \* id of the sequence allocated next

\* the block a relative depth names: ctx.control(n).block
BlockAt(n) == wst[Len(wst) - n].block

\* --- validator fragment: all blocks have type []->[]; operand stack height only -----------------
Pop(n)  == VTop.unreach \/ VTop.height >= n
HeightAfter(pop, push) == IF VTop.unreach THEN (IF VTop.height >= pop THEN VTop.height - pop ELSE 0) + push
                          ELSE VTop.height - pop + push
SetTop(h, un) == [vst EXCEPT ![Len(vst)] = [kind |-> VTop.kind, height |-> h, unreach |-> un, hasElse |-> VTop.hasElse]]
\* a frame may be closed when its operand stack is empty (or polymorphic)
Closable == VTop.height = 0

Plain(name, pop, push) ==
  /\ Pop(pop)
  /\ vst' = SetTop(HeightAfter(pop, push), VTop.unreach)
  /\ seqs' = (IF name = "Nop" THEN seqs ELSE AllocIn(0, NOp(name)))   \* Operator::Nop => {}
  /\ UNCHANGED <<wst, ifelse>>

Terminator(name, tg, labels) ==
  /\ vst' = SetTop(0, TRUE)
  /\ seqs' = AllocIn(0, IF labels = <<>> THEN NOp(name) ELSE NBr(name, tg))
  /\ wst' = (IF name \in {"ReturnCall"} THEN wst   \* the parser does not mark tail calls as terminators
             ELSE [wst EXCEPT ![Len(wst)] = [kind |-> WTop.kind, unreachable |-> TRUE, block |-> WTop.block]])
  /\ UNCHANGED ifelse

Open(kind) ==
  /\ Len(vst) < MaxDepth
  /\ (kind = "If" => Pop(1))
  /\ vst' = Append(SetTop(IF kind = "If" THEN HeightAfter(1, 0) ELSE VTop.height, VTop.unreach),
                   [kind |-> kind, height |-> 0, unreach |-> FALSE, hasElse |-> FALSE])
  /\ LET s == NewSeq IN
     /\ wst' = Append(wst, [kind |-> kind, unreachable |-> FALSE, block |-> s])
     /\ IF kind = "If"
        THEN /\ seqs' = Append(seqs, <<>>)
             /\ ifelse' = Append(ifelse, [consequent |-> s, alternative |-> -1])
        ELSE \* Block / Loop: the instruction is placed in the *parent* frame right away (control 1 after the push)
             /\ seqs' = (LET parent == WTop IN
                         IF parent.unreachable THEN Append(seqs, <<>>)
                         ELSE Append([seqs EXCEPT ![parent.block + 1] = Append(@, NBlock(kind, s))], <<>>))
             /\ UNCHANGED ifelse

ElseOp ==
  /\ VTop.kind = "If" /\ ~VTop.hasElse /\ Closable
  /\ vst' = [vst EXCEPT ![Len(vst)] = [kind |-> "If", height |-> 0, unreach |-> FALSE, hasElse |-> TRUE]]
  /\ LET s == NewSeq IN
     /\ seqs' = Append(seqs, <<>>)
     /\ wst' = [wst EXCEPT ![Len(wst)] = [kind |-> "Else", unreachable |-> FALSE, block |-> s]]
     /\ ifelse' = [ifelse EXCEPT ![Len(ifelse)] = [consequent |-> ifelse[Len(ifelse)].consequent, alternative |-> s]]

EndOp ==
  /\ Closable
  /\ IF Len(vst) = 1
     THEN /\ done' = TRUE /\ UNCHANGED <<vst, wst, seqs, ifelse>>
     ELSE /\ done' = FALSE
          /\ vst' = SubSeq(vst, 1, Len(vst) - 1)
          /\ wst' = SubSeq(wst, 1, Len(wst) - 1)
          /\ IF WTop.kind \in {"If", "Else"}
             THEN LET st == ifelse[Len(ifelse)]
                      parent == wst[Len(wst) - 1]
                      \* an `if` without `else` gets an empty alternative sequence
                      alt == IF st.alternative >= 0 THEN st.alternative ELSE NewSeq
                      seqs1 == IF st.alternative >= 0 THEN seqs ELSE Append(seqs, <<>>)
                  IN /\ seqs' = (IF parent.unreachable THEN seqs1
                                 ELSE [seqs1 EXCEPT ![parent.block + 1] = Append(@, NIfElse(st.consequent, alt))])
                     /\ ifelse' = SubSeq(ifelse, 1, Len(ifelse) - 1)
             ELSE UNCHANGED <<seqs, ifelse>>

Consume(o) ==
  /\ ~done /\ Len(src) < MaxLen
  /\ src' = Append(src, o)
  /\ out' = out
  /\ CASE o.o = "Const"  -> Plain("Const", 0, 1) /\ UNCHANGED done
       [] o.o = "Drop"   -> Plain("Drop", 1, 0) /\ UNCHANGED done
       [] o.o = "Nop"    -> Plain("Nop", 0, 0) /\ UNCHANGED done
       [] o.o = "BrIf"   -> /\ o.labels[1] < Len(vst) /\ Pop(1)
                            /\ vst' = SetTop(HeightAfter(1, 0), VTop.unreach)
                            /\ seqs' = AllocIn(0, NBr("BrIf", <<BlockAt(o.labels[1])>>))
                            /\ UNCHANGED <<wst, ifelse, done>>
       [] o.o = "Br"     -> o.labels[1] < Len(vst) /\ Terminator("Br", <<BlockAt(o.labels[1])>>, o.labels) /\ UNCHANGED done
       [] o.o = "BrTable" -> /\ \A q \in DOMAIN o.labels : o.labels[q] < Len(vst)
                             /\ Pop(1)
                             /\ Terminator("BrTable", [q \in DOMAIN o.labels |-> BlockAt(o.labels[q])], o.labels) /\ UNCHANGED done
       [] o.o = "Return" -> Terminator("Return", <<>>, <<>>) /\ UNCHANGED done
       [] o.o = "Unreachable" -> Terminator("Unreachable", <<>>, <<>>) /\ UNCHANGED done
       [] o.o = "ReturnCall" -> Terminator("ReturnCall", <<>>, <<>>) /\ UNCHANGED done
       [] o.o \in {"Block", "Loop", "If"} -> Open(o.o) /\ UNCHANGED done
       [] o.o = "Else"   -> ElseOp /\ UNCHANGED done
       [] o.o = "End"    -> EndOp

Alphabet ==
  {MkOp(n, <<>>) : n \in {"Const", "Drop", "Nop", "Return", "Unreachable", "ReturnCall", "Block", "Loop", "If", "Else", "End"}}
  \cup {MkOp("Br", <<d>>) : d \in 0..(MaxDepth - 1)}
  \cup {MkOp("BrIf", <<d>>) : d \in 0..(MaxDepth - 1)}
  \cup {MkOp("BrTable", <<d, e>>) : d \in 0..1, e \in 0..1}

\* a smaller alphabet (no nop / drop / loop / tail call) for longer strings; substituted for Alphabet in a config:
\* every symbol is in Exec.tla's subset, so these strings are also *executed* before and after walrus (C01)
ExecAlphabet ==
  {MkOp(n, <<>>) : n \in {"Const", "Return", "Unreachable", "Block", "If", "Else", "End"}}
  \cup {MkOp("Br", <<d>>) : d \in 0..(MaxDepth - 1)}
  \cup {MkOp("BrIf", <<d>>) : d \in 0..1}
  \cup {MkOp("BrTable", <<d, e>>) : d \in 0..1, e \in 0..1}

\* --- emit: local_function/emit.rs, an in-order walk with a block stack -------------------------
RECURSIVE EmitSeq(_, _, _)
\* stack: enclosing sequence ids, innermost last; kind: how the sequence is opened
EmitNode(node, stack) ==
  CASE node.t = "op"    -> <<MkOp(node.name, <<>>)>>
    [] node.t = "br"    -> <<MkOp(node.name, [q \in DOMAIN node.targets |->
                                 \* branch_target: position from the top of the block stack
                                 Len(stack) - (CHOOSE p \in DOMAIN stack : stack[p] = node.targets[q] /\ \A p2 \in DOMAIN stack : stack[p2] = node.targets[q] => p2 <= p)])>>
    [] node.t = "block" -> <<MkOp(node.name, <<>>)>> \o EmitSeq(node.a, Append(stack, node.a), "End")
    [] node.t = "ifelse" -> <<MkOp("If", <<>>)>> \o EmitSeq(node.a, Append(stack, node.a), "Else")
                                               \o EmitSeq(node.b, Append(stack, node.b), "End")
EmitSeq(s, stack, closer) ==
  LET RECURSIVE Go(_)
      Go(k) == IF k > Len(seqs[s + 1]) THEN <<>> ELSE EmitNode(seqs[s + 1][k], stack) \o Go(k + 1)
  IN Go(1) \o <<MkOp(closer, <<>>)>>

EmitBody ==
  /\ done /\ out = <<>>
  /\ out' = EmitSeq(0, <<0>>, "End")
  /\ UNCHANGED <<src, vst, wst, ifelse, seqs, done>>

BInit ==
  /\ src = <<>> /\ done = FALSE /\ out = <<>>
  /\ vst = <<[kind |-> "func", height |-> 0, unreach |-> FALSE, hasElse |-> FALSE]>>
  /\ wst = <<[kind |-> "func", unreachable |-> FALSE, block |-> 0]>>
  /\ ifelse = <<>>
  /\ seqs = << <<>> >>

BNext == (\E o \in Alphabet : Consume(o)) \/ EmitBody
BSpec == BInit /\ [][BNext]_bvars

\* C03 (design level): what the emitter produces is the parsed string after nop / dead-code elision,
\* with every branch label reaching the same enclosing construct
EmittedMatches == out # <<>> => Matches(src, out)
\* C02 (design level): the emitted string is balanced (every construct closed exactly once)
Balanced(s) ==
  LET RECURSIVE D(_, _)
      D(k, d) == IF k > Len(s) THEN d
                 ELSE IF d < 0 THEN -1
                 ELSE IF IsOpen(s[k]) THEN D(k + 1, d + 1)
                 ELSE IF s[k].o = "End" THEN D(k + 1, d - 1) ELSE D(k + 1, d)
  IN D(1, 1) = 0
EmittedBalanced == out # <<>> => Balanced(out)

\* enumeration for replay on the implementation: one line per completed valid string
EmitCase == out # <<>> => PrintT("CASE " \o ToJson([q \in DOMAIN src |-> <<src[q].o, src[q].labels>>]))
=============================================================================
