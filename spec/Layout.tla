------------------------------- MODULE Layout -------------------------------
(***************************************************************************)
(* Byte layout of the code section before and after walrus, the code       *)
(* transform recorded at emission and the conversion of DWARF addresses:   *)
(*   src/module/functions/local_function/mod.rs  parse: original_range,    *)
(*                          instruction_mapping (every operator's offset,  *)
(*                          also of operators that are not kept in the IR) *)
(*   src/module/functions/mod.rs   emit: instruction_map (kept original    *)
(*                          instructions only), function_ranges (from the  *)
(*                          size prefix to the end), code_section_start    *)
(*   src/module/debug/expression.rs  CodeAddressGenerator::find_address    *)
(*                          (instruction, instruction edge, offset in      *)
(*                          function, function edge, unknown) and          *)
(*                          CodeAddressConverter::find_address             *)
(*   src/module/debug/dwarf.rs, mod.rs   rows and high_pc are converted    *)
(*                          with the inclusive-end preference, sequence    *)
(*                          starts and low_pc with the exclusive one; an   *)
(*                          unconvertible address becomes a tombstone      *)
(*                                                                         *)
(* All addresses are relative to the first byte of the code section's      *)
(* contents (its function count).  A configuration = the input functions   *)
(* (instruction sizes, which instructions walrus keeps), which functions   *)
(* the GC keeps, where an edit inserted instructions, and the order in     *)
(* which the kept functions are written.  TLC enumerates all of them up to *)
(* the bounds; there is no temporal behaviour, the invariants are          *)
(* statements about every configuration (C10, C11).                        *)
(***************************************************************************)
EXTENDS Naturals, Integers, Sequences, FiniteSets, TLC

CONSTANTS MaxFuncs, MaxInstrs,
          LegacyLowPc,     \* TRUE: low_pc converted with the inclusive preference (the tree before the fix of defect 11)
          NopsUnrecorded   \* TRUE: offsets of operators that are not kept are not recorded at parse (a seeded slip)

VARIABLES funcs,    \* Seq of [instrs: Seq of [size, keep], live, ins: set of positions an edit inserted before]
          order     \* the kept functions in the order they are written
vars == <<funcs, order>>

Ran(f) == {f[x] : x \in DOMAIN f}
None == -1

\* ---- input layout: 1 byte of function count, then per function: size prefix (1), locals (1), instructions ----------
RECURSIVE SumSizes(_, _)
SumSizes(ins, n) == IF n = 0 THEN 0 ELSE ins[n].size + SumSizes(ins, n - 1)
BodyLen(f) == 2 + SumSizes(funcs[f].instrs, Len(funcs[f].instrs))
RECURSIVE InStart(_)
InStart(f) == IF f = 1 THEN 1 ELSE InStart(f - 1) + BodyLen(f - 1)
InEnd(f) == InStart(f) + BodyLen(f)
InAddr(f, i) == InStart(f) + 2 + SumSizes(funcs[f].instrs, i - 1)

Live == {f \in DOMAIN funcs : funcs[f].live}
Instrs(f) == DOMAIN funcs[f].instrs
Kept(f, i) == funcs[f].instrs[i].keep

\* ---- output layout --------------------------------------------------------------------------------------------------
RECURSIVE OutSum(_, _)
\* bytes written for instructions 1..n of f: kept ones plus one-byte inserted ones placed before them
OutSum(f, n) == IF n = 0 THEN 0
                ELSE OutSum(f, n - 1) + (IF n \in funcs[f].ins THEN 1 ELSE 0) + (IF Kept(f, n) THEN funcs[f].instrs[n].size ELSE 0)
OutBodyLen(f) == 2 + OutSum(f, Len(funcs[f].instrs))
Pos(f) == CHOOSE k \in DOMAIN order : order[k] = f
RECURSIVE OutStartAt(_)
OutStartAt(k) == IF k = 1 THEN 1 ELSE OutStartAt(k - 1) + OutBodyLen(order[k - 1])
OutStart(f) == OutStartAt(Pos(f))
OutEnd(f) == OutStart(f) + OutBodyLen(f)
OutAddr(f, i) == OutStart(f) + 2 + OutSum(f, i - 1) + (IF i \in funcs[f].ins THEN 1 ELSE 0)

\* ---- what parse and emit record ---------------------------------------------------------------------------------------
\* instruction_mapping of the functions still in the module: <<input offset, location id>> (the id is the offset)
Recorded == UNION {{InAddr(f, i) : i \in {x \in Instrs(f) : Kept(f, x) \/ ~NopsUnrecorded}} : f \in Live}
\* instruction_map: location id -> output offset, for instructions that were written
InstrMap(a) == IF \E f \in Live : \E i \in Instrs(f) : Kept(f, i) /\ InAddr(f, i) = a
               THEN LET f == CHOOSE g \in Live : \E i \in Instrs(g) : Kept(g, i) /\ InAddr(g, i) = a
                        i == CHOOSE j \in Instrs(f) : Kept(f, j) /\ InAddr(f, j) = a
                    IN OutAddr(f, i)
               ELSE None

\* ---- CodeAddressGenerator::find_address followed by CodeAddressConverter::find_address ---------------------------------
Convert(addr, inclusive) ==
  IF addr \in Recorded THEN InstrMap(addr)                                              \* InstrInFunction
  ELSE LET above == {a \in Recorded : a > addr} IN
       IF above # {} /\ (CHOOSE a \in above : \A b \in above : a <= b) - 1 = addr
       THEN LET m == InstrMap(addr + 1) IN IF m = None THEN None ELSE m - 1          \* InstrEdge
       ELSE LET hit == {f \in Live : IF inclusive THEN InStart(f) < addr /\ addr <= InEnd(f)
                                                  ELSE InStart(f) <= addr /\ addr < InEnd(f)} IN
            IF hit = {} THEN None                                                        \* Unknown
            ELSE LET f == CHOOSE g \in hit : TRUE IN
                 IF addr = InEnd(f) THEN OutEnd(f)                                       \* FunctionEdge
                 ELSE OutStart(f) + (addr - InStart(f))                                  \* OffsetInFunction

\* ---- configurations -------------------------------------------------------------------------------------------------------
InstrSet == [size : 1..2, keep : BOOLEAN]
FuncSet == {[instrs |-> sq, live |-> lv, ins |-> s] :
               sq \in UNION {[1..n -> InstrSet] : n \in 1..MaxInstrs}, lv \in BOOLEAN, s \in SUBSET (1..MaxInstrs)}
WellFormed(fn) == /\ fn.instrs[Len(fn.instrs)].keep /\ fn.instrs[Len(fn.instrs)].size = 1     \* the final `end`
                  /\ fn.ins \subseteq DOMAIN fn.instrs
Perms(S) == {sq \in [1..Cardinality(S) -> S] : \A a, b \in DOMAIN sq : sq[a] = sq[b] => a = b}

Init == /\ funcs \in UNION {[1..n -> {fn \in FuncSet : WellFormed(fn)}] : n \in 1..MaxFuncs}
        /\ order \in Perms({f \in DOMAIN funcs : funcs[f].live})
Next == UNCHANGED vars
Spec == Init /\ [][Next]_vars

-----------------------------------------------------------------------------
(* C11 *)
\* every recorded pair joins the first byte of an input instruction with the first byte of the same instruction as written
PairsJoinSameInstruction ==
  \A f \in Live : \A i \in Instrs(f) : Kept(f, i) => InstrMap(InAddr(f, i)) = OutAddr(f, i)
\* instructions that were not written, and inserted ones, have no pair
NoPairForUnwritten == \A f \in Live : \A i \in Instrs(f) : ~Kept(f, i) => InstrMap(InAddr(f, i)) = None
\* function ranges tile the output code section
RangesTile == \A k \in DOMAIN order : OutStartAt(k) = (IF k = 1 THEN 1 ELSE OutEnd(order[k - 1]))

(* C10 *)
\* a row on the first byte of a written instruction designates the first byte of that instruction in the output
RowsFollowInstructions == \A f \in Live : \A i \in Instrs(f) : Kept(f, i) => Convert(InAddr(f, i), TRUE) = OutAddr(f, i)
\* a row on an instruction walrus did not write is dropped (not left pointing at other code)
RowsOfUnwrittenDropped == \A f \in Live : \A i \in Instrs(f) : ~Kept(f, i) => Convert(InAddr(f, i), TRUE) = None
\* rows of functions the GC removed are dropped
RowsOfRemovedDropped == \A f \in DOMAIN funcs \ Live : \A i \in Instrs(f) : Convert(InAddr(f, i), TRUE) = None
\* a subprogram's low_pc / high_pc cover the same function
LowPc(f) == Convert(InStart(f), LegacyLowPc)
SubprogramsFollowFunctions == \A f \in Live : LowPc(f) = OutStart(f) /\ Convert(InEnd(f), TRUE) = OutEnd(f)
SubprogramsOfRemovedTombstoned == \A f \in DOMAIN funcs \ Live : LowPc(f) = None
\* the start of a per-function line sequence (exclusive preference) follows the function
SequenceStartsFollow == \A f \in Live : Convert(InStart(f), FALSE) = OutStart(f)
=============================================================================
