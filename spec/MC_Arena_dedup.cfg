SPECIFICATION Spec
CONSTANTS
  Values = {1, 2}
  MaxOps = 6
  Dedup = TRUE
  CanDelete = TRUE
INVARIANTS
  DedupInv
  AddReturnsLive
  IterIsLiveInOrder
  GetIsStable
PROPERTIES
  NeverReused
  DeadStaysDead
  AddFreshIsNew
  DeleteIsolated
  DeleteOnlyThat
CHECK_DEADLOCK FALSE
