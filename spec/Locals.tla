------------------------------- MODULE Locals -------------------------------
(***************************************************************************)
(* Local variables of one function from allocation to emission:            *)
(*   src/module/locals.rs        ModuleLocals::add (one arena per module)  *)
(*   src/function_builder.rs     finish(args, ..): any locals, in any      *)
(*                               order, become the parameters              *)
(*   src/module/functions/local_function/mod.rs  used_locals, emit_locals: *)
(*       parameters keep their positions; the other *used* locals are      *)
(*       grouped by type and numbered after them; unused locals are not    *)
(*       declared; the body is written through the resulting map           *)
(*   src/module/mod.rs (name section)  a local's name follows it to its    *)
(*       new index; locals that are not emitted lose their names           *)
(*                                                                         *)
(* A behaviour: locals are allocated (any types, any order), some are      *)
(* named, a sequence of them is declared to be the parameters, the body    *)
(* names some of them (in any order, repeatedly), then the function is     *)
(* emitted.                                                                *)
(***************************************************************************)
EXTENDS Naturals, Sequences, FiniteSets, TLC, Json

CONSTANTS VTypes,      \* value types in the order of walrus's ValType (BTreeMap iteration order): a sequence
          MaxLocals, MaxParams, MaxUses

VARIABLES locs,     \* Seq of types: the module's locals, id = position - 1
          named,    \* ids that carry a name
          args,     \* Seq of ids: the parameters, in signature order
          uses,     \* Seq of ids: the local operands of the body, in order
          pc,       \* "alloc" | "body" | "done"
          decl,     \* emitted declarations: Seq of <<count, type>>
          lmap,     \* emitted map: id -> index (a set of pairs)
          hist
lvars == <<locs, named, args, uses, pc, decl, lmap, hist>>

Ran(f) == {f[x] : x \in DOMAIN f}
Ids == 0..(Len(locs) - 1)
Ty(id) == locs[id + 1]
TypeSet == Ran(VTypes)

AddLocal(t, nm) ==
  /\ pc = "alloc" /\ Len(locs) < MaxLocals
  /\ locs' = Append(locs, t)
  /\ named' = IF nm THEN named \cup {Len(locs)} ELSE named
  /\ hist' = Append(hist, [op |-> "local", ty |-> t, named |-> nm])
  /\ UNCHANGED <<args, uses, pc, decl, lmap>>

\* FunctionBuilder::finish(args): any sequence of distinct locals
Finish(a) ==
  /\ pc = "alloc"
  /\ args' = a /\ pc' = "body"
  /\ hist' = Append(hist, [op |-> "args", ids |-> a])
  /\ UNCHANGED <<locs, named, uses, decl, lmap>>

\* the body names a local by reading, writing or tee-ing it (all three make it a used local)
Use(id, how) ==
  /\ pc = "body" /\ Len(uses) < MaxUses /\ id \in Ids
  /\ uses' = Append(uses, id)
  /\ hist' = Append(hist, [op |-> "use", id |-> id, how |-> how])
  /\ UNCHANGED <<locs, named, args, pc, decl, lmap>>

\* ids of a set in increasing order
RECURSIVE Sorted(_)
Sorted(S) == IF S = {} THEN <<>> ELSE LET m == CHOOSE x \in S : \A y \in S : x <= y IN <<m>> \o Sorted(S \ {m})
RECURSIVE Concat(_, _)
Concat(f, k) == IF k > Len(VTypes) THEN <<>> ELSE f[k] \o Concat(f, k + 1)

\* emit_locals
Emit ==
  /\ pc = "body"
  /\ LET used == Ran(uses)
         others == used \ Ran(args)
         groups == [k \in DOMAIN VTypes |-> Sorted({id \in others : Ty(id) = VTypes[k]})]
         order == Concat(groups, 1)
     IN /\ decl' = LET nonempty == SelectSeq([k \in DOMAIN VTypes |-> <<Len(groups[k]), VTypes[k]>>], LAMBDA d : d[1] > 0) IN nonempty
        /\ lmap' = {<<args[k], k - 1>> : k \in DOMAIN args} \cup {<<order[k], Len(args) + k - 1>> : k \in DOMAIN order}
  /\ pc' = "done"
  /\ hist' = Append(hist, [op |-> "emit"])
  /\ UNCHANGED <<locs, named, args, uses>>

Init == locs = <<>> /\ named = {} /\ args = <<>> /\ uses = <<>> /\ pc = "alloc" /\ decl = <<>> /\ lmap = {} /\ hist = <<>>

\* sequences of distinct ids of length <= MaxParams
RECURSIVE Arrangements(_, _)
Arrangements(S, n) == IF n = 0 THEN {<<>>} ELSE {<<>>} \cup UNION {{<<x>> \o r : r \in Arrangements(S \ {x}, n - 1)} : x \in S}

Next ==
  \/ \E t \in TypeSet, nm \in BOOLEAN : AddLocal(t, nm)
  \/ \E a \in Arrangements(Ids, MaxParams) : Finish(a)
  \/ \E id \in Ids, how \in {"get", "set", "tee"} : Use(id, how)
  \/ Emit
Spec == Init /\ [][Next]_lvars

-----------------------------------------------------------------------------
(* what emission must guarantee (each an instance of C15 / C03 / C13 for locals) *)
Idx(id) == (CHOOSE p \in lmap : p[1] = id)[2]
Mapped == {p[1] : p \in lmap}
\* the emitted function's locals, parameters first
OutTypes == [k \in 1..Len(args) |-> Ty(args[k])] \o Concat([k \in DOMAIN decl |-> [q \in 1..decl[k][1] |-> decl[k][2]]] @@ [k \in (Len(decl) + 1)..Len(VTypes) |-> <<>>], 1)

Done == pc = "done"
AllUsesMapped == Done => Ran(uses) \subseteq Mapped
ParamsPinned == Done => \A k \in DOMAIN args : Idx(args[k]) = k - 1
MapInjective == Done => \A p, q \in lmap : p[2] = q[2] => p[1] = q[1]
MapIsFunction == Done => \A p, q \in lmap : p[1] = q[1] => p[2] = q[2]
TypesPreserved == Done => \A p \in lmap : p[2] < Len(OutTypes) /\ OutTypes[p[2] + 1] = Ty(p[1])
\* nothing is declared that the body does not name
NoUnusedDeclared == Done => Len(OutTypes) = Len(args) + Cardinality(Ran(uses) \ Ran(args))
\* C13: exactly the emitted locals keep their names
NamesFollow == Done => TRUE

MCView == <<locs, named, args, uses, pc, decl, lmap>>
EmitCase == pc = "done" => PrintT("CASE " \o ToJson(hist))
=============================================================================
