------------------------------ MODULE Builder ------------------------------
(***************************************************************************)
(* src/function_builder.rs: an arena of instruction sequences that a user  *)
(* fills in any order -- append, positional insert, nested block / loop /  *)
(* if-else construction, dangling sequences attached later -- and the      *)
(* in-order flattening that emission must produce (C15).                   *)
(*                                                                         *)
(* seqs[k] (id k-1) is a sequence of nodes.  Every build operation inserts *)
(* a stack-neutral *unit* (one or two instructions), so every tree that    *)
(* can be built is well typed; units may be inserted at any instruction    *)
(* position (units nest like parentheses).                                 *)
(* Function type (i32, i32) -> ();  locals: 0, 1 = the parameters, 2 = i32,*)
(* 3 = i64.  (The real function's locals are allocated in another order    *)
(* than this, parameters last and reversed: slot assignment must not       *)
(* depend on allocation order.)                                            *)
(***************************************************************************)
EXTENDS Naturals, Integers, Sequences, FiniteSets, TLC, Json

CONSTANTS MaxOps,     \* bound on the history length
          UnitKinds,  \* which stack-neutral units may be inserted ({} = structure-only histories)
          Sigs,       \* which signatures typed blocks may have (subset of {1, 2}; {} = none)
          MaxPos      \* insertion positions 0..MaxPos

VARIABLES seqs, attached, hist
bvars == <<seqs, attached, hist>>

Node(t, a, b) == [t |-> t, a |-> a, b |-> b]
\* leaf nodes: const32 v | const64 v | lset l | lget l | drop | br target | brif target | brtable t1 t2 ; structured: block s | loop s | ifelse c alt
InsertAt(s, pos, nodes) == SubSeq(s, 1, pos) \o nodes \o SubSeq(s, pos + 1, Len(s))
Ins(sq, pos, nodes) == [seqs EXCEPT ![sq + 1] = InsertAt(@, pos, nodes)]

SeqIds == 0..(Len(seqs) - 1)
Children(sq) == UNION {CASE n.t \in {"block", "loop"} -> {n.a} [] n.t = "ifelse" -> {n.a, n.b} [] OTHER -> {}
                        : n \in {seqs[sq + 1][q] : q \in DOMAIN seqs[sq + 1]}}
RECURSIVE Desc(_)
Desc(sq) == {sq} \cup UNION {Desc(c) : c \in Children(sq)}
Parent(sq) == IF \E p \in SeqIds : sq \in Children(p) THEN CHOOSE p \in SeqIds : sq \in Children(p) ELSE -1
RECURSIVE Ancestors(_)
Ancestors(sq) == IF Parent(sq) < 0 THEN {sq} ELSE {sq} \cup Ancestors(Parent(sq))

Positions(sq) == 0..Len(seqs[sq + 1])

\* ---- build operations (each also records itself in `hist` for replay on the real FunctionBuilder) -------
Unit(sq, pos, kind, v) ==
  LET nodes == CASE kind = "set32" -> <<Node("const32", v, -1), Node("lset", 2, -1)>>
                 [] kind = "set64" -> <<Node("const64", v, -1), Node("lset", 3, -1)>>
                 [] kind = "getp"  -> <<Node("lget", 0, -1), Node("drop", -1, -1)>>
                 [] kind = "getq"  -> <<Node("lget", 1, -1), Node("drop", -1, -1)>>
                 \* instructions with two operands of one kind, or an operand pair whose order matters: three i32 arguments,
                 \* then (destination, source) of the module's two tables / two memories, or (segment, destination)
                 [] kind = "tcopy" -> <<Node("const32", 0, -1), Node("const32", 0, -1), Node("const32", 0, -1), Node("tcopy", 1, 0)>>
                 [] kind = "mcopy" -> <<Node("const32", 0, -1), Node("const32", 0, -1), Node("const32", 0, -1), Node("mcopy", 0, 1)>>
                 [] kind = "tinit" -> <<Node("const32", 0, -1), Node("const32", 0, -1), Node("const32", 0, -1), Node("tinit", 0, 1)>>
                 [] kind = "minit" -> <<Node("const32", 0, -1), Node("const32", 0, -1), Node("const32", 0, -1), Node("minit", 0, 1)>>
  IN /\ seqs' = Ins(sq, pos, nodes) /\ UNCHANGED attached
     /\ hist' = Append(hist, [op |-> "unit", seq |-> sq, pos |-> pos, kind |-> kind, v |-> v, d |-> -1])

\* block_at / loop_at: a new sequence, attached immediately
NewBlock(sq, pos, kind) ==
  LET new == Len(seqs) IN
  /\ seqs' = Append(Ins(sq, pos, <<Node(kind, new, -1)>>), <<>>)
  /\ attached' = attached \cup {new}
  /\ hist' = Append(hist, [op |-> kind, seq |-> sq, pos |-> pos, kind |-> kind, v |-> 0, d |-> -1])

\* a block / loop with a signature made by InstrSeqType::new:
\*   sig 1, (i32) -> (i32):  const 7 ; block { } ; drop        (the body passes its parameter on)
\*   sig 2, ()    -> (i32):  block { const 7 } ; drop
NewTypedBlock(sq, pos, kind, sig) ==
  LET new == Len(seqs) IN
  /\ seqs' = IF sig = 1
             THEN Append(Ins(sq, pos, <<Node("const32", 7, -1), Node(kind, new, 1), Node("drop", -1, -1)>>), <<>>)
             ELSE Append(Ins(sq, pos, <<Node(kind, new, 2), Node("drop", -1, -1)>>), <<Node("const32", 7, -1)>>)
  /\ attached' = attached \cup {new}
  /\ hist' = Append(hist, [op |-> "tblock", seq |-> sq, pos |-> pos, kind |-> kind, v |-> sig, d |-> -1])

\* the node that holds sequence t, and how many values a branch to t carries
HolderNodes(t) == {n \in UNION {{seqs[p][q] : q \in DOMAIN seqs[p]} : p \in DOMAIN seqs} :
                     (n.t \in {"block", "loop"} /\ n.a = t) \/ (n.t = "ifelse" /\ (n.a = t \/ n.b = t))}
\* (the function body and a sequence that is still dangling have no holder: a dangling sequence is attached as a void block / loop)
SigOf(t) == IF HolderNodes(t) = {} THEN 0 ELSE LET n == CHOOSE x \in HolderNodes(t) : TRUE IN IF n.t = "ifelse" \/ n.b <= 0 THEN 0 ELSE n.b
IsLoop(t) == HolderNodes(t) # {} /\ (CHOOSE x \in HolderNodes(t) : TRUE).t = "loop"
LabelArity(t) == IF SigOf(t) = 0 THEN 0 ELSE IF SigOf(t) = 1 THEN 1 ELSE IF IsLoop(t) THEN 0 ELSE 1
\* a branch is only placed where the operand stack certainly holds what the label wants: any label without operands, or
\* the very start of the (i32) -> (i32) sequence the branch sits in (exactly its parameter is on the stack there; later
\* insertions in front of it are stack-neutral, insertions elsewhere may leave an i64 on top)
\* (Sigs = {}: no sequence has a signature, nothing needs to be looked up)
BranchFits(sq, pos, target) == Sigs = {} \/ LabelArity(target) = 0 \/ (sq = target /\ SigOf(target) = 1 /\ pos = 0)

\* const 1 ; if_else_at: two new sequences
NewIfElse(sq, pos) ==
  LET c == Len(seqs)  alt == Len(seqs) + 1 IN
  /\ seqs' = Ins(sq, pos, <<Node("const32", 1, -1), Node("ifelse", c, alt)>>) \o << <<>>, <<>> >>
  /\ attached' = attached \cup {c, alt}
  /\ hist' = Append(hist, [op |-> "ifelse", seq |-> sq, pos |-> pos, kind |-> "ifelse", v |-> 0, d |-> -1])

\* dangling_instr_seq: a sequence that is not part of the tree (yet)
NewDangling ==
  /\ seqs' = Append(seqs, <<>>) /\ UNCHANGED attached
  /\ hist' = Append(hist, [op |-> "dangling", seq |-> -1, pos |-> 0, kind |-> "", v |-> 0, d |-> -1])

\* attach a dangling sequence later as a block or loop; never inside itself
Attach(sq, pos, d, kind) ==
  /\ d \notin attached /\ d # 0 /\ sq \notin Desc(d)
  /\ seqs' = Ins(sq, pos, <<Node(kind, d, -1)>>)
  /\ attached' = attached \cup {d}
  /\ hist' = Append(hist, [op |-> "attach", seq |-> sq, pos |-> pos, kind |-> kind, v |-> 0, d |-> d])

\* const 1 ; IfElse whose two arms are dangling sequences made earlier (in either order of allocation)
AttachIf(sq, pos, d1, d2) ==
  /\ d1 \notin attached /\ d2 \notin attached /\ d1 # d2 /\ d1 # 0 /\ d2 # 0 /\ sq \notin Desc(d1) /\ sq \notin Desc(d2)
  /\ seqs' = Ins(sq, pos, <<Node("const32", 1, -1), Node("ifelse", d1, d2)>>)
  /\ attached' = attached \cup {d1, d2}
  /\ hist' = Append(hist, [op |-> "attachif", seq |-> sq, pos |-> pos, kind |-> "ifelse", v |-> d2, d |-> d1])

\* const 0 ; br_table [t1] t2 : two enclosing sequences
BrTable(sq, pos, t1, t2) ==
  /\ t1 \in Ancestors(sq) /\ t2 \in Ancestors(sq) /\ (Sigs = {} \/ (LabelArity(t1) = 0 /\ LabelArity(t2) = 0))
  /\ seqs' = Ins(sq, pos, <<Node("const32", 0, -1), Node("brtable", t1, t2)>>)
  /\ UNCHANGED attached
  /\ hist' = Append(hist, [op |-> "brtable", seq |-> sq, pos |-> pos, kind |-> "", v |-> t2, d |-> t1])

\* br / (const 0 ; br_if) to an enclosing sequence
Branch(sq, pos, target, cond) ==
  /\ target \in Ancestors(sq) /\ BranchFits(sq, pos, target)
  /\ seqs' = Ins(sq, pos, IF cond THEN <<Node("const32", 0, -1), Node("brif", target, -1)>> ELSE <<Node("br", target, -1)>>)
  /\ UNCHANGED attached
  /\ hist' = Append(hist, [op |-> (IF cond THEN "brif" ELSE "br"), seq |-> sq, pos |-> pos, kind |-> "", v |-> 0, d |-> target])

Init == seqs = << <<>> >> /\ attached = {0} /\ hist = <<>>
Next ==
  /\ Len(hist) < MaxOps
  /\ \/ \E sq \in SeqIds, pos \in 0..MaxPos, kind \in UnitKinds : pos \in Positions(sq) /\ Unit(sq, pos, kind, Len(hist) + 1)
     \/ \E sq \in SeqIds, pos \in 0..MaxPos, kind \in {"block", "loop"} : pos \in Positions(sq) /\ NewBlock(sq, pos, kind)
     \/ \E sq \in SeqIds, pos \in 0..MaxPos, kind \in {"block", "loop"}, sig \in Sigs : pos \in Positions(sq) /\ NewTypedBlock(sq, pos, kind, sig)
     \/ \E sq \in SeqIds, pos \in 0..MaxPos : pos \in Positions(sq) /\ NewIfElse(sq, pos)
     \/ NewDangling
     \/ \E sq \in SeqIds, pos \in 0..MaxPos, d \in SeqIds, kind \in {"block", "loop"} : pos \in Positions(sq) /\ Attach(sq, pos, d, kind)
     \/ \E sq \in SeqIds, pos \in 0..MaxPos, t \in SeqIds, c \in BOOLEAN : pos \in Positions(sq) /\ Branch(sq, pos, t, c)
     \/ \E sq \in SeqIds, pos \in 0..MaxPos, d1 \in SeqIds, d2 \in SeqIds : pos \in Positions(sq) /\ AttachIf(sq, pos, d1, d2)
     \/ \E sq \in SeqIds, pos \in 0..MaxPos, t1 \in SeqIds, t2 \in SeqIds : pos \in Positions(sq) /\ BrTable(sq, pos, t1, t2)
Spec == Init /\ [][Next]_bvars

-----------------------------------------------------------------------------
(* The in-order flattening, as operator records in the shape of the harness's projection of the emitted body *)

Op(o, imm, local, labels, bt) == [o |-> o, imm |-> imm, refs |-> <<>>, local |-> local, labels |-> labels, bt |-> bt]
OpR(o, refs) == [o |-> o, imm |-> "", refs |-> refs, local |-> -1, labels |-> <<>>, bt |-> ""]

SigText(b) == IF b = 1 THEN "(i32)->(i32)" ELSE IF b = 2 THEN "()->(i32)" ELSE "()->()"
RECURSIVE FlatSeq(_, _, _), FlatFrom(_, _, _)
\* stack: enclosing sequence ids, innermost last
FlatNode(n, stack) ==
  CASE n.t = "const32" -> <<Op("I32Const", "value=" \o ToString(n.a), -1, <<>>, "")>>
    [] n.t = "const64" -> <<Op("I64Const", "value=" \o ToString(n.a), -1, <<>>, "")>>
    [] n.t = "lset"    -> <<Op("LocalSet", "", n.a, <<>>, "")>>
    [] n.t = "lget"    -> <<Op("LocalGet", "", n.a, <<>>, "")>>
    [] n.t = "drop"    -> <<Op("Drop", "", -1, <<>>, "")>>
    \* operand order as the binary format has it: table.copy / memory.copy (destination, source); *.init (segment, destination)
    [] n.t = "tcopy"   -> <<OpR("TableCopy", << <<"table", n.a>>, <<"table", n.b>> >>)>>
    [] n.t = "mcopy"   -> <<OpR("MemoryCopy", << <<"memory", n.a>>, <<"memory", n.b>> >>)>>
    [] n.t = "tinit"   -> <<OpR("TableInit", << <<"elem", n.a>>, <<"table", n.b>> >>)>>
    [] n.t = "minit"   -> <<OpR("MemoryInit", << <<"data", n.a>>, <<"memory", n.b>> >>)>>
    [] n.t \in {"br", "brif"} ->
         \* label depth = number of constructs between the branch and its target
         LET p == CHOOSE x \in DOMAIN stack : stack[x] = n.a /\ \A y \in DOMAIN stack : stack[y] = n.a => y <= x IN
         <<Op(IF n.t = "br" THEN "Br" ELSE "BrIf", "", -1, <<Len(stack) - p>>, "")>>
    [] n.t = "brtable" ->
         LET Depth(t) == Len(stack) - (CHOOSE x \in DOMAIN stack : stack[x] = t /\ \A y \in DOMAIN stack : stack[y] = t => y <= x) IN
         <<Op("BrTable", "", -1, <<Depth(n.a), Depth(n.b)>>, "")>>
    [] n.t = "block"   -> <<Op("Block", "", -1, <<>>, SigText(n.b))>> \o FlatSeq(n.a, Append(stack, n.a), "End")
    [] n.t = "loop"    -> <<Op("Loop", "", -1, <<>>, SigText(n.b))>> \o FlatSeq(n.a, Append(stack, n.a), "End")
    [] n.t = "ifelse"  -> <<Op("If", "", -1, <<>>, "()->()")>> \o FlatSeq(n.a, Append(stack, n.a), "Else") \o FlatSeq(n.b, Append(stack, n.b), "End")
FlatFrom(sq, k, stack) == IF k > Len(seqs[sq + 1]) THEN <<>> ELSE FlatNode(seqs[sq + 1][k], stack) \o FlatFrom(sq, k + 1, stack)
FlatSeq(sq, stack, closer) == FlatFrom(sq, 1, stack) \o <<Op(closer, "", -1, <<>>, "")>>

Flatten == FlatSeq(0, <<0>>, "End")

\* the local types of the built function, in abstract numbering
AbsLocals == <<"i32", "i32", "i32", "i64">>

\* ---- design-level sanity: the tree is a tree, flattening is balanced and branch depths are in range -----
TreeShaped == \A sq \in SeqIds : Cardinality({p \in SeqIds : sq \in Children(p)}) <= 1
FlatBalanced ==
  LET f == Flatten
      RECURSIVE D(_, _)
      D(k, d) == IF k > Len(f) THEN d ELSE IF d < 0 THEN -1
                 ELSE IF f[k].o \in {"Block", "Loop", "If"} THEN D(k + 1, d + 1)
                 ELSE IF f[k].o = "End" THEN D(k + 1, d - 1) ELSE D(k + 1, d)
  IN D(1, 1) = 0
BranchesInRange ==
  LET f == Flatten
      RECURSIVE Ok(_, _)
      Ok(k, d) == IF k > Len(f) THEN TRUE
                  ELSE IF f[k].o \in {"Block", "Loop", "If"} THEN Ok(k + 1, d + 1)
                  ELSE IF f[k].o = "End" THEN Ok(k + 1, d - 1)
                  ELSE IF f[k].o \in {"Br", "BrIf", "BrTable"} THEN (\A q \in DOMAIN f[k].labels : f[k].labels[q] < d) /\ Ok(k + 1, d)
                  ELSE Ok(k + 1, d)
  IN Ok(1, 1)
\* state view for enumeration of distinct trees (one history per tree and allocation order)
TreeView == <<seqs, attached, Len(hist)>>
\* enumeration for replay: one line per build history
EmitCase == hist # <<>> => PrintT("CASE " \o ToJson(hist))
\* structure-only enumeration: complete trees (nothing left dangling) whose last step places a branch
EmitStructCase ==
  (Len(hist) = MaxOps /\ attached = SeqIds /\ hist[Len(hist)].op \in {"br", "brif", "brtable"}) => PrintT("CASE " \o ToJson(hist))
=============================================================================
