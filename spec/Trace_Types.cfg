SPECIFICATION TSpec
CONSTANTS
  Lists <- TraceLists
  MaxTypes = 1000
  MaxFuncs = 1000
  MaxEdits = 1000
  EditOps = {"build", "findadd", "nametype", "delete", "root", "gc"}
CONSTRAINT Record
POSTCONDITION Post
CHECK_DEADLOCK FALSE
