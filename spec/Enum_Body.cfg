SPECIFICATION BSpec
CONSTANTS
  MaxLen = 5
  MaxDepth = 3
INVARIANTS
  EmitCase
CHECK_DEADLOCK FALSE
