----------------------------- MODULE Trace_Edits -----------------------------
(***************************************************************************)
(* C18 / C02: trace validation of edit histories against Edits.tla.        *)
(* One line = parse ; edit* ; emit ; (same edits) gc ; emit  on a real     *)
(* module.  Every edit event carries the complete observable state after   *)
(* the call; the trace action is                                           *)
(*      IsEvent(op) /\ guard /\ st' = <Edits.tla transformer>(st, args)    *)
(*                  /\ st' = logged state /\ logged return value           *)
(* so a replacement that rewires anything else, recycles an id, or changes *)
(* state although it returned Err is rejected at that event.  The closing  *)
(* emit events must succeed and validate whenever the state is WF (which   *)
(* every prefix of a well-formed script is).                               *)
(***************************************************************************)
EXTENDS Edits, Json, IOUtils

Cases == ndJsonDeserialize(IOEnv.TRACEFILE)
VARIABLES k, l
tvars == <<st, k, l>>
Which == IOEnv.PROPERTY

H == Cases[k]
Ev == H.events[l]
IsEvent(e) == l <= Len(H.events) /\ Ev.op = e /\ l' = l + 1 /\ UNCHANGED k

Becomes(new) == st' = new /\ Ev.state = new
Refs(ev) == [q \in DOMAIN ev.refs |-> <<ev.refs[q][1], ev.refs[q][2]>>]

\* the closure that writes the replacement body is handed the parameters of the function being made
\* ... and, in the binary, the new body reads its parameters from the parameter slots and its scratch local from another one
HandedParams == "handed" \in DOMAIN Ev.ret =>
                   /\ Ev.ret.handed = Ev.ret.params
                   /\ (Ev.ret.trial => /\ Ev.ret.reads = [q \in 1..Len(Ev.ret.params) |-> q - 1]
                                        /\ Ev.ret.scratch >= Len(Ev.ret.params)
                                        \* the body that was built is the body that runs: its loop is a loop, its block a block
                                        /\ Ev.ret.shape = <<"Loop", "BrIf0", "End", "Block", "BrIf0", "End", "Block(i32)->(i32)", "End">>)

TReplaceImported ==
  /\ IsEvent("replace_imported") /\ HandedParams
  /\ IF CanReplaceImported(st, Ev.id)
     THEN Ev.ret.ok /\ Ev.ret.id = Ev.id /\ Becomes(ReplaceImported(st, Ev.id, Refs(Ev)))
     ELSE ~Ev.ret.ok /\ Becomes(st)              \* an Err return leaves the module untouched
TReplaceExported ==
  /\ IsEvent("replace_exported") /\ HandedParams
  /\ IF CanReplaceExported(st, Ev.id)
     THEN Ev.ret.ok /\ Ev.ret.id = Len(st.funcs) /\ Becomes(ReplaceExported(st, Ev.id, Refs(Ev)))
     ELSE ~Ev.ret.ok /\ Becomes(st)

TDelete(sp) == /\ IsEvent("delete_" \o sp) /\ CanDelete(st, sp, Ev.id) /\ Ev.ret.ok /\ Becomes(Delete(st, sp, Ev.id))
TDeleteExport == /\ IsEvent("delete_export") /\ Ev.k + 1 \in DOMAIN st.exports /\ Ev.ret.ok /\ Becomes(DeleteExport(st, Ev.k + 1))
TAddExport == /\ IsEvent("add_export") /\ IsLive(st, Ev.kind, Ev.target) /\ Ev.ret.ok /\ Becomes(AddExport(st, Ev.name, Ev.kind, Ev.target))
TAddFunc == /\ IsEvent("add_func") /\ Ev.ret.ok /\ Ev.ret.id = Len(st.funcs) /\ Becomes(AddFunc(st, Ev.sig, Refs(Ev)))
TAddImportFunc == /\ IsEvent("add_import_func") /\ Ev.ret.ok /\ Ev.ret.id = Len(st.funcs) /\ Becomes(AddImportFunc(st, Ev.field, Ev.sig))
TAddImportTable == /\ IsEvent("add_import_table") /\ Ev.ret.ok /\ Ev.ret.id = Len(st.tables) /\ Becomes(AddImportTable(st, Ev.field, Ev.ety))
TAddImportMemory == /\ IsEvent("add_import_memory") /\ Ev.ret.ok /\ Ev.ret.id = Len(st.memories) /\ Becomes(AddImportMemory(st, Ev.field))
TAddImportGlobal == /\ IsEvent("add_import_global") /\ Ev.ret.ok /\ Ev.ret.id = Len(st.globals) /\ Becomes(AddImportGlobal(st, Ev.field))
TAddGlobal == /\ IsEvent("add_global") /\ Ev.ret.ok /\ Ev.ret.id = Len(st.globals) /\ Becomes(AddGlobal(st, Ev.mutable, Ev.value))
TAddMemory == /\ IsEvent("add_memory") /\ Ev.ret.ok /\ Ev.ret.id = Len(st.memories) /\ Becomes(AddMemory(st, Ev.pages))
TAddTable == /\ IsEvent("add_table") /\ Ev.ret.ok /\ Ev.ret.id = Len(st.tables) /\ Becomes(AddTable(st, Ev.min))
TAddData == /\ IsEvent("add_data") /\ Ev.mode = "passive" /\ Ev.ret.ok /\ Ev.ret.id = Len(st.data)
            /\ Becomes(AddPassiveData(st, Ev.state.data[Len(st.data) + 1].digest))
TAddElem == /\ IsEvent("add_elem") /\ Ev.ret.ok /\ Ev.ret.id = Len(st.elems) /\ Becomes(AddPassiveElem(st, Ev.funcs))
TSetStart == /\ IsEvent("set_start") /\ IsLive(st, "func", Ev.id) /\ Ev.ret.ok /\ Becomes(SetStart(st, Ev.id))
TClearStart == /\ IsEvent("clear_start") /\ Ev.ret.ok /\ Becomes(SetStart(st, -1))

\* C02 / C18: a closed module emits without panicking and the result validates (with and without the GC pass)
TEmit == /\ IsEvent("emit") /\ UNCHANGED st
         /\ (WF(st) => (Ev.outcome = "ok" /\ Ev.out_valid))

TNext == TReplaceImported \/ TReplaceExported \/ (\E sp \in ESpaces : TDelete(sp)) \/ TDeleteExport \/ TAddExport
         \/ TAddFunc \/ TAddImportFunc \/ TAddImportTable \/ TAddImportMemory \/ TAddImportGlobal \/ TAddGlobal \/ TAddMemory \/ TAddTable \/ TAddData \/ TAddElem \/ TSetStart \/ TClearStart \/ TEmit

TInit == k \in 1..Len(Cases) /\ l = 1 /\ st = Cases[k].init
TSpec == TInit /\ [][TNext]_tvars

ASSUME \A n \in 1..Len(Cases) : TLCSet(10 + n, 0)
Record == IF TLCGet(10 + k) < l THEN TLCSet(10 + k, l) ELSE TRUE
Slim(ev) == [x \in (DOMAIN ev) \ {"state"} |-> ev[x]]
Post == \A n \in 1..Len(Cases) :
          LET far == TLCGet(10 + n) IN
          \/ far = Len(Cases[n].events) + 1
          \/ PrintT("REJECT " \o ToJson(<<Cases[n].id, "edit-history-rejected-at", far, Slim(Cases[n].events[far]),
                                         [x \in 1..far |-> Cases[n].events[x].op]>>))
TraceInvariants == WF(st)
=============================================================================
