----------------------------- MODULE Enum_Arena -----------------------------
(* All histories of exactly MaxOps operations of Arena.tla, one ndjson line each, for replay on the real collections.
   Ids in a history are *spec* ids (k = the k-th fresh allocation); the harness binds them to real ids. *)
EXTENDS Arena, Json
VARIABLE hist
evars == <<vars, hist>>
EInit == Init /\ hist = <<>>
ENext ==
  \/ \E v \in Values : Add(v) /\ hist' = Append(hist, [op |-> "add", v |-> v, id |-> 0])
  \/ \E v \in Values : Find(v) /\ hist' = Append(hist, [op |-> "find", v |-> v, id |-> 0])
  \/ \E i \in Ids : Delete(i) /\ hist' = Append(hist, [op |-> "delete", v |-> 0, id |-> i])
  \/ \E i \in Ids : Get(i) /\ hist' = Append(hist, [op |-> "get", v |-> 0, id |-> i])
  \/ Iter /\ hist' = Append(hist, [op |-> "iter", v |-> 0, id |-> 0])
ESpec == EInit /\ [][ENext]_evars
EmitCase == nops = MaxOps => PrintT("CASE " \o ToJson(hist))
=============================================================================
