----------------------------- MODULE Trace_Parse -----------------------------
(***************************************************************************)
(* C05 monitor.  One trace line = one call of ModuleConfig::parse on       *)
(* arbitrary bytes under one feature configuration, with                   *)
(*   verdict  the verdict of a standalone validator under the same         *)
(*            feature set,                                                 *)
(*   outcome  ok | err | panic | crash | hang                              *)
(*   events   the hook events of the parse ("validated s", "interpret s",  *)
(*            "on_parse"), in the order they fired,                        *)
(*   calls    the parse callback's own counter.                            *)
(*  total     outcome is ok or err;                                        *)
(*  sound and complete   outcome = ok  <=>  verdict;                       *)
(*  gate      the event sequence is a behaviour of ParseGate.tla: a        *)
(*            section is interpreted only after the validator accepted     *)
(*            that section, function bodies only after the whole binary    *)
(*            was scanned, the callback fires once, last, on success only. *)
(***************************************************************************)
EXTENDS Naturals, Sequences, FiniteSets, TLC, Json, IOUtils

Cases == ndJsonDeserialize(IOEnv.TRACEFILE)
VARIABLES k, verdict
vars == <<k, verdict>>

Count(ev, name, sec, upto) == Cardinality({q \in 1..upto : ev[q][1] = name /\ ev[q][2] = sec})

\* the validation that must precede the interpretation of a section
Gate(sec) == IF sec = "code" THEN "end" ELSE sec

GateOK(ev) ==
  \A q \in DOMAIN ev :
    /\ (ev[q][1] = "interpret" =>
          \* every interpretation is matched by an earlier validation of that very section occurrence
          Count(ev, "validated", Gate(ev[q][2]), q - 1) >= Count(ev, "interpret", ev[q][2], q))
    /\ (ev[q][1] = "on_parse" => q = Len(ev))                     \* last
CallbackOK(c) ==
  LET n == Cardinality({q \in DOMAIN c.events : c.events[q][1] = "on_parse"}) IN
  /\ c.calls = (IF c.outcome = "ok" THEN 1 ELSE 0)
  /\ (c.hooks => n = c.calls)

Verdict(c) ==
  IF c.outcome \notin {"ok", "err"} THEN <<"parse-did-not-return", c.outcome, c.cfg, c.msg>>
  ELSE IF c.outcome = "ok" /\ ~c.verdict THEN <<"accepted-invalid-module", c.cfg, c.why>>
  ELSE IF c.outcome = "err" /\ c.verdict THEN <<"rejected-valid-module", c.cfg, c.msg>>
  ELSE IF c.hooks /\ ~GateOK(c.events) THEN <<"interpreted-before-validated", c.cfg, c.events>>
  ELSE IF ~CallbackOK(c) THEN <<"on-parse-callback-count", c.cfg, c.outcome, c.calls>>
  ELSE <<"ok">>

Judge(c) == LET v == Verdict(c) IN
            IF v[1] = "ok" \/ PrintT("REJECT " \o ToJson(<<c.id>> \o v)) THEN v[1] ELSE v[1]

Init == k \in 1..Len(Cases) /\ verdict = "pending"
Next == verdict = "pending" /\ verdict' = Judge(Cases[k]) /\ UNCHANGED k
Spec == Init /\ [][Next]_vars
Accepted == verdict \in {"pending", "ok"}
=============================================================================
