----------------------------- MODULE Trace_Arena -----------------------------
(***************************************************************************)
(* C17: trace validation of recorded histories of the public collection    *)
(* APIs against Arena.tla.  One line = one history on one real collection. *)
(* Each event is  IsEvent /\ <action of Arena.tla> /\ <logged result =      *)
(* ret'>.  Spec ids are bound to real ids at allocation (`rids`), so no     *)
(* numbering scheme is assumed; a fresh allocation must return a real id    *)
(* that was never returned before (never recycled).                         *)
(***************************************************************************)
EXTENDS Arena, Integers, Json, IOUtils

Cases == ndJsonDeserialize(IOEnv.TRACEFILE)
VARIABLES k, l, rids
tvars == <<vars, k, l, rids>>

H == Cases[k]
Ev == H.events[l]
IsEvent(e) == l <= Len(H.events) /\ Ev.op = e /\ l' = l + 1 /\ UNCHANGED k
RanOf(f) == {f[x] : x \in DOMAIN f}
SpecId(r) == CHOOSE i \in DOMAIN rids : rids[i] = r

TAdd == /\ IsEvent("add") /\ Add(Ev.v)
        /\ IF ret'.fresh
           THEN Ev.rid \notin RanOf(rids) /\ rids' = Append(rids, Ev.rid)     \* identifiers are never recycled
           ELSE Ev.rid = rids[ret'.id] /\ UNCHANGED rids                      \* de-duplication returns the existing id

TDelete == /\ IsEvent("delete") /\ Ev.rid \in RanOf(rids)
           /\ Delete(SpecId(Ev.rid)) /\ ret'.res = Ev.res /\ UNCHANGED rids

TGet == /\ IsEvent("get") /\ Ev.rid \in RanOf(rids)
        /\ Get(SpecId(Ev.rid))
        /\ ret'.found = Ev.found /\ (Ev.found => ret'.v = Ev.v) /\ UNCHANGED rids
        \* the mutable lookup (where the collection has one) answers exactly the same
        /\ ("found_mut" \in DOMAIN Ev => Ev.found_mut = Ev.found /\ (Ev.found => Ev.v_mut = Ev.v))

TIter == /\ IsEvent("iter") /\ Iter
         /\ [q \in DOMAIN ret'.res |-> <<rids[ret'.res[q][1]], ret'.res[q][2]>>] = Ev.items
         \* the mutable iterator (where the collection has one) yields exactly the same items
         /\ ("items_mut" \in DOMAIN Ev => Ev.items_mut = Ev.items)
         /\ (Ev.len >= 0 => Ev.len = ret'.len) /\ UNCHANGED rids

TFind == /\ IsEvent("find") /\ Find(Ev.v)
         /\ (IF ret'.ids = {} THEN Ev.rid = -1 ELSE Ev.rid \in {rids[i] : i \in ret'.ids}) /\ UNCHANGED rids

TNext == TAdd \/ TDelete \/ TGet \/ TIter \/ TFind
TInit == Init /\ k \in 1..Len(Cases) /\ l = 1 /\ rids = <<>>
TSpec == TInit /\ [][TNext]_tvars

ASSUME \A n \in 1..Len(Cases) : TLCSet(10 + n, 0)
Record == IF TLCGet(10 + k) < l THEN TLCSet(10 + k, l) ELSE TRUE
Post == \A n \in 1..Len(Cases) :
          LET far == TLCGet(10 + n) IN
          \/ far = Len(Cases[n].events) + 1
          \/ PrintT("REJECT " \o ToJson(<<Cases[n].id, "history-rejected-at", Cases[n].coll, far, Cases[n].events[far],
                                         [x \in 1..far |-> Cases[n].events[x].op]>>))
TraceInvariants == DedupInv /\ AddReturnsLive /\ IterIsLiveInOrder /\ GetIsStable
=============================================================================
