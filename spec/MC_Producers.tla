--------------------------- MODULE MC_Producers ---------------------------
(* Model-checking instance of Producers.tla: input sections with and without a processed-by field, with it first or
   not, with walrus already recorded (same or other version), with a repeated field name, a field without values, a repeated value name.  (A section with a field name outside the tool convention is
   rejected by the section reader walrus uses and dropped with a warning: not a well-formed producers section, not modelled.) *)
EXTENDS Producers
F(n, vals) == [name |-> n, values |-> vals]
InputsSmall == {
  <<>>,
  <<F("language", <<<<"a", "1">>>>)>>,
  <<F("processed-by", <<<<"a", "1">>>>)>>,
  <<F("language", <<<<"a", "1">>>>), F("processed-by", <<<<"a", "2">>>>), F("sdk", <<<<"a", "1">>>>)>>,
  <<F("processed-by", <<<<"walrus", "W">>>>)>>,
  <<F("language", <<<<"a", "1">>>>), F("processed-by", <<<<"a", "1">>, <<"walrus", "old">>>>)>>,
  <<F("sdk", <<<<"a", "1">>>>), F("sdk", <<<<"b", "1">>>>)>>,
  \* a field without values, and one value name twice in a field: the input is preserved as it is (nothing is merged)
  <<F("language", <<>>), F("sdk", <<<<"a", "1">>>>)>>,
  <<F("language", <<<<"a", "1">>, <<"a", "2">>>>)>>
}
=============================================================================
