SPECIFICATION ESpec
CONSTANTS
  InitStates <- Inits
  BodyRefs <- Bodies
  MaxEdits = 3
INVARIANTS
  WFInvariant
  ReplaceImportedRewiresOneThing
  ReplaceExportedRewiresOneThing
CHECK_DEADLOCK FALSE
