------------------------------ MODULE Walrus ------------------------------
(***************************************************************************)
(* The walrus pipeline as a state machine over abstract modules:           *)
(*                                                                         *)
(*     Parse (section by section)  ;  (GC mark ; GC sweep)*  ;             *)
(*     Emit (section by section, assigning indices)  ;  Finish             *)
(*                                                                         *)
(* Mirrors src/module/mod.rs (parse, emit_wasm), src/parse.rs              *)
(* (IndicesToIds), src/emit.rs (IdsToIndices), src/passes/used.rs (the     *)
(* worklist of Used::new) and src/passes/gc.rs (the sweep).                *)
(*                                                                         *)
(* The input is an abstract module in the same shape as the harness's      *)
(* AbsModule projection, so the relations of ModuleGraph (Iso, Reach)      *)
(* judge the design model and the real implementation with one definition. *)
(*                                                                         *)
(* Identifiers: an arena is a sequence; the id of its k-th entry is k-1.   *)
(* Deleting tombstones an entry (live = FALSE); ids are never reused.      *)
(***************************************************************************)
EXTENDS ModuleGraph

CONSTANTS Inputs,       \* set of input modules to explore
          PassSeqs,     \* set of pass sequences, e.g. {<<>>, <<"gc">>, <<"gc","gc">>}
          LegacyElemTrace  \* TRUE: GC traces items of funcref expression segments only (the code before the fix)

VARIABLES pc, step, inm, todo,
          arena,      \* [space -> Seq([live : BOOLEAN, ent : record])]   refs inside ent are ids
          imports,    \* Seq([live, module, field, kind, ty, target(id)])
          exports,    \* Seq([name, kind, target(id)])
          startId,    \* id or -1
          i2id,       \* [space -> Seq(id)]            parse.rs IndicesToIds
          used,       \* [space -> SUBSET id]          passes/used.rs Used
          stack,      \* [space -> Seq(id)]            passes/used.rs Roots stacks
          id2i,       \* [space -> function id -> index]  emit.rs IdsToIndices
          lookups,    \* number of get_*_index calls performed (coverage)
          ran,        \* number of completed GC runs
          out         \* the emitted abstract module, or "none"

vars == <<pc, step, inm, todo, arena, imports, exports, startId, i2id, used, stack, id2i, lookups, ran, out>>

EmptyBySpace(v) == [sp \in Spaces |-> v]

-----------------------------------------------------------------------------
(* Parse: payloads in binary order.  Each section allocates ids in index   *)
(* order and resolves the indices it mentions through i2id -- which only   *)
(* works because the referenced spaces were filled by earlier sections.    *)

ParseOrder == <<"imports", "func", "table", "memory", "global", "exports", "start", "elem", "data", "code">>

IdOf(space, i) == i2id[space][i + 1]

ExprToIds(e) == CASE e.k = "global" -> [e EXCEPT !.r = IdOf("global", e.r)]
                  [] e.k = "func"   -> [e EXCEPT !.r = IdOf("func", e.r)]
                  [] OTHER          -> e

\* entities of one space that a section defines: local ones (imports are allocated by the import section)
LocalsOf(m, space) == SelectSeq(m[Field(space)], LAMBDA e : space \in {"elem", "data"} \/ ~e.imported)

AllocAll(space, ents) ==
  LET n0 == Len(arena[space]) IN
  /\ arena' = [arena EXCEPT ![space] = @ \o [k \in 1..Len(ents) |-> [live |-> TRUE, ent |-> ents[k]]]]
  /\ i2id' = [i2id EXCEPT ![space] = @ \o [k \in 1..Len(ents) |-> n0 + k - 1]]

ParseImports ==
  \* one arena entry per imported entity, in import order; each import record points at it
  LET imps == inm.imports
      \* k-th import is the j-th of its kind
      Rank(k) == Cardinality({q \in 1..k : imps[q].kind = imps[k].kind}) - 1
      EntOf(imp) == Ent(inm, imp.kind, imp.target)
      ImpsOfKind(sp) == SelectSeq(imps, LAMBDA x : x.kind = sp)
  IN
  /\ arena' = [sp \in Spaces |->
                 IF sp \in {"func", "table", "memory", "global"}
                 THEN arena[sp] \o [k \in 1..Len(ImpsOfKind(sp)) |-> [live |-> TRUE, ent |-> EntOf(ImpsOfKind(sp)[k])]]
                 ELSE arena[sp]]
  /\ i2id' = [sp \in Spaces |->
                 IF sp \in {"func", "table", "memory", "global"}
                 THEN i2id[sp] \o [k \in 1..Len(ImpsOfKind(sp)) |-> Len(arena[sp]) + k - 1]
                 ELSE i2id[sp]]
  /\ imports' = [k \in 1..Len(imps) |-> [live |-> TRUE, module |-> imps[k].module, field |-> imps[k].field,
                                         kind |-> imps[k].kind, ty |-> imps[k].ty, target |-> Rank(k)]]
  /\ UNCHANGED <<exports, startId>>

ParseSection(sec) ==
  CASE sec = "imports" -> ParseImports
    [] sec \in {"func", "table", "memory"} ->
         AllocAll(sec, LocalsOf(inm, sec)) /\ UNCHANGED <<imports, exports, startId>>
    [] sec = "global" ->
         \* initialisers are evaluated against the ids known so far (imported globals, all functions)
         AllocAll("global", [k \in 1..Len(LocalsOf(inm, "global")) |->
                               [LocalsOf(inm, "global")[k] EXCEPT !.init = ExprToIds(@)]])
         /\ UNCHANGED <<imports, exports, startId>>
    [] sec = "exports" ->
         /\ exports' = [k \in 1..Len(inm.exports) |->
                          [name |-> inm.exports[k].name, kind |-> inm.exports[k].kind,
                           target |-> IdOf(inm.exports[k].kind, inm.exports[k].target)]]
         /\ UNCHANGED <<arena, i2id, imports, startId>>
    [] sec = "start" ->
         /\ startId' = IF inm.start >= 0 THEN IdOf("func", inm.start) ELSE -1
         /\ UNCHANGED <<arena, i2id, imports, exports>>
    [] sec = "elem" ->
         AllocAll("elem", [k \in 1..Len(inm.elems) |->
                             LET e == inm.elems[k] IN
                             [e EXCEPT !.table = IF e.mode = "active" THEN IdOf("table", e.table) ELSE -1,
                                       !.offset = ExprToIds(@),
                                       !.items = [q \in DOMAIN e.items |-> ExprToIds(e.items[q])]]])
         /\ UNCHANGED <<imports, exports, startId>>
    [] sec = "data" ->
         AllocAll("data", [k \in 1..Len(inm.data) |->
                             LET d == inm.data[k] IN
                             [d EXCEPT !.mem = IF d.mode = "active" THEN IdOf("memory", d.mem) ELSE -1,
                                       !.offset = ExprToIds(@)]])
         /\ UNCHANGED <<imports, exports, startId>>
    [] sec = "code" ->
         \* function bodies are parsed last: every index space is complete by now
         /\ arena' = [arena EXCEPT !["func"] =
                        [k \in DOMAIN arena["func"] |->
                           LET item == arena["func"][k]
                               rs == item.ent.refs
                               ent2 == [item.ent EXCEPT !.refs = [q \in DOMAIN rs |-> <<rs[q][1], IdOf(rs[q][1], rs[q][2])>>]]
                           IN [live |-> item.live, ent |-> ent2]]]
         /\ UNCHANGED <<i2id, imports, exports, startId>>

Parse ==
  /\ pc = "parse"
  /\ ParseSection(ParseOrder[step])
  /\ IF step = Len(ParseOrder)
     THEN pc' = "ready" /\ step' = 1
     ELSE pc' = "parse" /\ step' = step + 1
  /\ UNCHANGED <<inm, todo, used, stack, id2i, lookups, ran, out>>

-----------------------------------------------------------------------------
(* GC mark: passes/used.rs.  push_* inserts into `used` and, if new, onto   *)
(* the kind's stack; the loop pops one item at a time.                      *)

Live(space) == {k - 1 : k \in {q \in DOMAIN arena[space] : arena[space][q].live}}
EntById(space, id) == arena[space][id + 1].ent

\* push a set of <<space, id>> nodes
PushAll(nodes, u, s) ==
  LET new(sp) == {n[2] : n \in {x \in nodes : x[1] = sp /\ x[2] \notin u[sp]}}
      \* a deterministic order for the stack (the real order is irrelevant to the fixed point)
      RECURSIVE AsSeq(_)
      AsSeq(S) == IF S = {} THEN <<>> ELSE LET x == CHOOSE y \in S : \A z \in S : y <= z IN <<x>> \o AsSeq(S \ {x})
  IN <<[sp \in Spaces |-> u[sp] \cup new(sp)], [sp \in Spaces |-> s[sp] \o AsSeq(new(sp))]>>

IdExprRefs(e) == CASE e.k = "global" -> {<<"global", e.r>>}
                   [] e.k = "func"   -> {<<"func", e.r>>}
                   [] OTHER          -> {}

GcRoots ==
  {<<e.kind, e.target>> : e \in Ran(exports)}
  \cup (IF startId >= 0 THEN {<<"func", startId>>} ELSE {})
  \cup {<<"data", id>> : id \in {d \in Live("data") : EntById("data", d).mode = "active"}}
  \cup {<<"elem", id>> : id \in {e \in Live("elem") :
          \/ EntById("elem", e).mode = "declared"
          \/ (EntById("elem", e).mode = "active" /\ EntById("table", EntById("elem", e).table).imported)}}

\* what popping one item pushes
Visit(space, id) ==
  LET ent == EntById(space, id) IN
  CASE space = "func"   -> {<<r[1], r[2]>> : r \in Ran(ent.refs)}
    [] space = "table"  -> {<<"elem", e>> : e \in {x \in Live("elem") : EntById("elem", x).mode = "active" /\ EntById("elem", x).table = id}}
    [] space = "global" -> IdExprRefs(ent.init)
    [] space = "memory" -> {<<"data", d>> : d \in {x \in Live("data") : EntById("data", x).mode = "active" /\ EntById("data", x).mem = id}}
    [] space = "data"   -> IF ent.mode = "active" THEN {<<"memory", ent.mem>>} \cup IdExprRefs(ent.offset) ELSE {}
    [] space = "elem"   ->
         (IF LegacyElemTrace /\ ent.form = "exprs" /\ ent.ety # "funcref" THEN {}
          ELSE UNION {IdExprRefs(ent.items[q]) : q \in DOMAIN ent.items})
         \cup (IF ent.mode = "active" THEN {<<"table", ent.table>>} \cup IdExprRefs(ent.offset) ELSE {})

GcStart ==
  /\ pc = "ready" /\ todo # <<>> /\ Head(todo) = "gc"
  /\ LET p == PushAll(GcRoots, EmptyBySpace({}), EmptyBySpace(<<>>)) IN used' = p[1] /\ stack' = p[2]
  /\ pc' = "gc-mark"
  /\ UNCHANGED <<step, inm, todo, arena, imports, exports, startId, i2id, id2i, lookups, ran, out>>

GcPop(space) ==
  /\ pc = "gc-mark" /\ stack[space] # <<>>
  /\ LET id == stack[space][Len(stack[space])]
         rest == [stack EXCEPT ![space] = SubSeq(@, 1, Len(@) - 1)]
         p == PushAll(Visit(space, id), used, rest)
     IN used' = p[1] /\ stack' = p[2]
  /\ UNCHANGED <<pc, step, inm, todo, arena, imports, exports, startId, i2id, id2i, lookups, ran, out>>

\* "if there are data segments kept, but no memories, then we try to add the first memory"
Residue(u) ==
  IF u["data"] # {} /\ u["memory"] = {} /\ Live("memory") # {}
  THEN [u EXCEPT !["memory"] = {CHOOSE m \in Live("memory") : \A x \in Live("memory") : m <= x}]
  ELSE u

GcSweep ==
  /\ pc = "gc-mark" /\ \A sp \in Spaces : stack[sp] = <<>>
  /\ LET u == Residue(used) IN
     /\ used' = u
     /\ arena' = [sp \in Spaces |-> [k \in DOMAIN arena[sp] |->
                    [arena[sp][k] EXCEPT !.live = @ /\ (k - 1) \in u[sp]]]]
     /\ imports' = [k \in DOMAIN imports |-> [imports[k] EXCEPT !.live = @ /\ imports[k].target \in u[imports[k].kind]]]
  /\ pc' = "ready" /\ todo' = Tail(todo) /\ ran' = ran + 1
  /\ UNCHANGED <<step, inm, exports, startId, i2id, stack, id2i, lookups, out>>

-----------------------------------------------------------------------------
(* Emit: sections in the order of emit_wasm.  push_* assigns the next index *)
(* of a space; every get_*_index must find an assigned id, else the real    *)
(* code panics.                                                             *)

EmitOrder == <<"imports", "funcsec", "tables", "memories", "globals", "exports", "start", "elements", "datacount", "code", "data">>

Assigned(space, id) == id \in DOMAIN id2i[space]


\* push a sequence of ids of one space, in order
PushSeq(m, space, ids) ==
  [m EXCEPT ![space] = [id \in (DOMAIN @) \cup Ran(ids) |->
      IF id \in DOMAIN @ THEN @[id]
      ELSE Cardinality(DOMAIN @) + (CHOOSE k \in DOMAIN ids : ids[k] = id) - 1]]

LiveSeq(space, P(_)) ==
  \* live ids of a space in arena (= creation) order, filtered
  LET all == [k \in 1..Len(arena[space]) |-> k - 1] IN
  SelectSeq(all, LAMBDA id : arena[space][id + 1].live /\ P(id))

IsImported(space, id) == EntById(space, id).imported

\* local functions sorted by (size descending, id ascending): functions/mod.rs used_local_functions
RECURSIVE SortFuncs(_)
SortFuncs(S) ==
  IF S = {} THEN <<>>
  ELSE LET best == CHOOSE f \in S : \A g \in S :
                      \/ EntById("func", f).size > EntById("func", g).size
                      \/ (EntById("func", f).size = EntById("func", g).size /\ f <= g)
       IN <<best>> \o SortFuncs(S \ {best})

NeededBy(sec) ==
  \* the get_*_index calls a section performs, as a set of <<space, id>>
  CASE sec = "globals"  -> UNION {IdExprRefs(EntById("global", g).init) : g \in {x \in Live("global") : ~IsImported("global", x)}}
    [] sec = "exports"  -> {<<e.kind, e.target>> : e \in Ran(exports)}
    [] sec = "start"    -> IF startId >= 0 THEN {<<"func", startId>>} ELSE {}
    [] sec = "elements" -> UNION {LET e == EntById("elem", x) IN
                                  UNION {IdExprRefs(e.items[q]) : q \in DOMAIN e.items}
                                  \cup (IF e.mode = "active" THEN {<<"table", e.table>>} \cup IdExprRefs(e.offset) ELSE {})
                                  : x \in Live("elem")}
    [] sec = "code"     -> UNION {{<<r[1], r[2]>> : r \in Ran(EntById("func", f).refs)} : f \in {x \in Live("func") : ~IsImported("func", x)}}
    [] sec = "data"     -> UNION {LET d == EntById("data", x) IN
                                  IF d.mode = "active" THEN {<<"memory", d.mem>>} \cup IdExprRefs(d.offset) ELSE {}
                                  : x \in Live("data")}
    [] OTHER            -> {}

Pushes(sec, m) ==
  CASE sec = "imports" ->
         \* one push per live import, in import order, into the space of its kind
         LET RECURSIVE Go(_, _)
             Go(k, acc) == IF k > Len(imports) THEN acc
                           ELSE IF imports[k].live THEN Go(k + 1, PushSeq(acc, imports[k].kind, <<imports[k].target>>))
                           ELSE Go(k + 1, acc)
         IN Go(1, m)
    [] sec = "funcsec"  -> PushSeq(m, "func", SortFuncs({f \in Live("func") : ~IsImported("func", f)}))
    [] sec = "tables"   -> PushSeq(m, "table", LiveSeq("table", LAMBDA id : ~IsImported("table", id)))
    [] sec = "memories" -> PushSeq(m, "memory", LiveSeq("memory", LAMBDA id : ~IsImported("memory", id)))
    [] sec = "globals"  -> PushSeq(m, "global", LiveSeq("global", LAMBDA id : ~IsImported("global", id)))
    [] sec = "elements" -> PushSeq(m, "elem", LiveSeq("elem", LAMBDA id : TRUE))
    [] sec = "datacount" -> PushSeq(m, "data", LiveSeq("data", LAMBDA id : TRUE))
    [] OTHER            -> m

EmitStart ==
  /\ pc = "ready" /\ todo = <<>>
  /\ pc' = "emit" /\ step' = 1
  /\ id2i' = [sp \in Spaces |-> <<>>]
  /\ UNCHANGED <<inm, todo, arena, imports, exports, startId, i2id, used, stack, lookups, ran, out>>

EmitSection ==
  /\ pc = "emit" /\ step <= Len(EmitOrder)
  /\ LET sec == EmitOrder[step]
         m2 == Pushes(sec, id2i)
         need == NeededBy(sec)
     IN IF \A n \in need : n[2] \in DOMAIN m2[n[1]]
        THEN /\ id2i' = m2 /\ lookups' = lookups + Cardinality(need)
             /\ step' = step + 1 /\ pc' = "emit"
        ELSE \* IdsToIndices::get_*_index panics
             /\ pc' = "panic" /\ UNCHANGED <<id2i, lookups, step>>
  /\ UNCHANGED <<inm, todo, arena, imports, exports, startId, i2id, used, stack, ran, out>>

-----------------------------------------------------------------------------
(* Finish: materialise the emitted module from the arenas and id2i.         *)

Ix(space, id) == id2i[space][id]
IdAt(space, j) == CHOOSE id \in DOMAIN id2i[space] : id2i[space][id] = j
OutExpr(e) == CASE e.k = "global" -> [e EXCEPT !.r = Ix("global", e.r)]
                [] e.k = "func"   -> [e EXCEPT !.r = Ix("func", e.r)]
                [] OTHER          -> e

OutEnt(space, j) ==
  LET id == IdAt(space, j)  ent == EntById(space, id) IN
  CASE space = "func"   -> [ent EXCEPT !.idx = j, !.refs = [q \in DOMAIN ent.refs |-> <<ent.refs[q][1], Ix(ent.refs[q][1], ent.refs[q][2])>>]]
    [] space = "table"  -> [ent EXCEPT !.idx = j]
    [] space = "memory" -> [ent EXCEPT !.idx = j]
    [] space = "global" -> [ent EXCEPT !.idx = j, !.init = OutExpr(@)]
    [] space = "elem"   -> [ent EXCEPT !.idx = j, !.table = IF ent.mode = "active" THEN Ix("table", ent.table) ELSE -1,
                                        !.offset = OutExpr(@), !.items = [q \in DOMAIN ent.items |-> OutExpr(ent.items[q])]]
    [] space = "data"   -> [ent EXCEPT !.idx = j, !.mem = IF ent.mode = "active" THEN Ix("memory", ent.mem) ELSE -1, !.offset = OutExpr(@)]

OutModule ==
  LET liveImps == SelectSeq(imports, LAMBDA x : x.live) IN
  [funcs    |-> [j \in 1..Cardinality(DOMAIN id2i["func"])   |-> OutEnt("func", j - 1)],
   tables   |-> [j \in 1..Cardinality(DOMAIN id2i["table"])  |-> OutEnt("table", j - 1)],
   memories |-> [j \in 1..Cardinality(DOMAIN id2i["memory"]) |-> OutEnt("memory", j - 1)],
   globals  |-> [j \in 1..Cardinality(DOMAIN id2i["global"]) |-> OutEnt("global", j - 1)],
   elems    |-> [j \in 1..Cardinality(DOMAIN id2i["elem"])   |-> OutEnt("elem", j - 1)],
   data     |-> [j \in 1..Cardinality(DOMAIN id2i["data"])   |-> OutEnt("data", j - 1)],
   imports  |-> [k \in 1..Len(liveImps) |-> [module |-> liveImps[k].module, field |-> liveImps[k].field, kind |-> liveImps[k].kind,
                                              ty |-> liveImps[k].ty, target |-> Ix(liveImps[k].kind, liveImps[k].target)]],
   exports  |-> [k \in 1..Len(exports) |-> [name |-> exports[k].name, kind |-> exports[k].kind, target |-> Ix(exports[k].kind, exports[k].target)]],
   start    |-> IF startId >= 0 THEN Ix("func", startId) ELSE -1]

Finish ==
  /\ pc = "emit" /\ step = Len(EmitOrder) + 1
  /\ out' = OutModule
  /\ pc' = "done"
  /\ UNCHANGED <<step, inm, todo, arena, imports, exports, startId, i2id, used, stack, id2i, lookups, ran>>

-----------------------------------------------------------------------------
Init ==
  /\ inm \in Inputs /\ todo \in PassSeqs
  /\ pc = "parse" /\ step = 1
  /\ arena = EmptyBySpace(<<>>) /\ imports = <<>> /\ exports = <<>> /\ startId = -1
  /\ i2id = EmptyBySpace(<<>>)
  /\ used = EmptyBySpace({}) /\ stack = EmptyBySpace(<<>>)
  /\ id2i = EmptyBySpace(<<>>) /\ lookups = 0 /\ ran = 0 /\ out = "none"

NextStep == Parse \/ GcStart \/ (\E sp \in Spaces : GcPop(sp)) \/ GcSweep \/ EmitStart \/ EmitSection \/ Finish

Spec == Init /\ [][NextStep]_vars /\ WF_vars(NextStep)

-----------------------------------------------------------------------------
(* Properties of the design.                                                *)

\* the renumbering the pipeline realised: in-index -> id -> out-index
Sigma == [sp \in Spaces |-> [k \in 1..Len(i2id[sp]) |->
            IF i2id[sp][k] \in DOMAIN id2i[sp] THEN id2i[sp][i2id[sp][k]] ELSE -1]]

GcRan == pc = "done" /\ ran > 0

\* C02 (design level): a still-referenced entity is never left without an index
NoPanic == pc # "panic"

\* C04 / C06 (design level): the output is the input restricted to what was kept, renumbered
OutputIsIso == pc = "done" => Iso(inm, out, Sigma)

\* C04: without a pass nothing is dropped
NothingDroppedWithoutPass == (pc = "done" /\ ~GcRan) => AllKept(inm, Sigma)

\* C06 + C07 (design level): after GC exactly the reachable entities are kept; the only residue is one memory
ResidueMem == IF (\E n \in Reach(inm, {}) : n[1] = "data") /\ ~(\E n \in Reach(inm, {}) : n[1] = "memory")
              THEN {<<"memory", i>> : i \in 0..(Count(inm, "memory") - 1)} ELSE {}
GcExact ==
  GcRan => /\ Reach(inm, {}) \subseteq KeptNodes(Sigma)
           /\ KeptNodes(Sigma) \ Reach(inm, {}) \subseteq ResidueMem
           /\ Cardinality(KeptNodes(Sigma) \ Reach(inm, {})) <= 1

\* C07: a second run of the pass changes nothing
SecondGcIsNoOp == [][(pc = "gc-mark" /\ pc' = "ready" /\ ran >= 1) => (arena' = arena /\ imports' = imports)]_vars

\* C19 (design level): the parse-time map names the entity the input defines at that index ...
ParseMapAgrees == pc \notin {"parse"} =>
  \A sp \in Spaces : \A k \in 1..Len(i2id[sp]) : EntById(sp, i2id[sp][k]).idx = k - 1
\* ... and the emit-time map names the position at which the entity is emitted
EmitMapAgrees == pc = "done" =>
  \A sp \in Spaces : \A id \in DOMAIN id2i[sp] :
     LET o == out[Field(sp)][id2i[sp][id] + 1] IN
     o.idx = id2i[sp][id] /\ (sp \in {"func", "table", "memory", "global"} => o.imported = EntById(sp, id).imported)
\* get_*_index is only ever asked for ids that were assigned earlier in the section order
IndexSpacesDense == pc \in {"emit", "done"} =>
  \A sp \in Spaces : {id2i[sp][id] : id \in DOMAIN id2i[sp]} = 0..(Cardinality(DOMAIN id2i[sp]) - 1)

\* the worklists terminate and emission completes
Terminates == <>(pc \in {"done", "panic"})
=============================================================================
