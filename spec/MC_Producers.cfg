SPECIFICATION Spec
CONSTANTS
  Inputs <- InputsSmall
  ValueNames = {"a", "b"}
  Versions = {"1", "2"}
  MaxOps = 4
INVARIANTS
  WalrusOnce
  InputPreserved
  OffWritesNothing
PROPERTIES
  RoundTripFixpoint
  AddIsLocal
VIEW MCView
CHECK_DEADLOCK FALSE
