SPECIFICATION Spec
INVARIANT Equivalent
CHECK_DEADLOCK FALSE
