--------------------------- MODULE Trace_Features ---------------------------
(***************************************************************************)
(* C20 monitor.  One trace line = one round trip (optionally with GC) and, *)
(* for each feature set F of a family (all proposals minus every subset of *)
(* size <= 2, and the greedily minimised set the input validates under),   *)
(* the verdicts of the independent validator on input and output.          *)
(*       valid_F(in)  =>  valid_F(out)          for every F                *)
(* The MVP encoding rules the property names (no data-count section, no    *)
(* new element-segment or block-type encodings, no multi-byte table or     *)
(* memory immediates) are instances: each makes the output invalid under   *)
(* the reduced set the input validates under.                              *)
(***************************************************************************)
EXTENDS Naturals, Sequences, FiniteSets, TLC, Json, IOUtils

Cases == ndJsonDeserialize(IOEnv.TRACEFILE)
VARIABLES k, verdict
vars == <<k, verdict>>
Ran(f) == {f[x] : x \in DOMAIN f}

Escalations(c) == {s \in Ran(c.sets) : s.inv /\ ~s.outv}

\* Encodings whose proposal the validator does not gate (facts of the binary format, from the bulk-memory and
\* reference-types proposals): an element segment whose flag is not 0, a data segment whose flag is not 0 and the
\* data-count section did not exist in the MVP.  An input that uses none of them, and none of the operators of those
\* proposals, must not acquire one.
PostMvp == {"bulk", "reftypes", "multi_memory"}
InputIsPlain(c) ==
  /\ Ran(c.needs) \cap PostMvp = {}
  /\ \A q \in DOMAIN c.in_elem_flags : c.in_elem_flags[q] = 0
  /\ \A q \in DOMAIN c.in_data_flags : c.in_data_flags[q] = 0
  /\ ~c.in_datacount
EncodingEscalation(c) ==
  IF ~InputIsPlain(c) THEN <<>>
  ELSE IF \E q \in DOMAIN c.out_elem_flags : c.out_elem_flags[q] # 0 THEN <<"element-segment-flag", c.out_elem_flags>>
  ELSE IF \E q \in DOMAIN c.out_data_flags : c.out_data_flags[q] # 0 THEN <<"data-segment-flag", c.out_data_flags>>
  ELSE IF c.out_datacount THEN <<"data-count-section">>
  ELSE <<>>

Verdict(c) ==
  IF c.outcome # "ok" THEN <<"outcome", c.outcome>>
  \* an output that is invalid under walrus's whole feature set but valid once the proposals walrus does not speak (GC, ...)
  \* are enabled needs one of those: the input did not
  ELSE IF (\E s \in Ran(c.sets) : s.removed = <<>> /\ s.inv /\ ~s.outv) /\ c.out_valid_beyond THEN
       <<"proposal-outside-the-supported-set-introduced", (CHOOSE s \in Ran(c.sets) : s.removed = <<>>).why>>
  \* an output that is invalid even with every proposal enabled is not an escalation (it is C02's violation)
  ELSE IF \E s \in Ran(c.sets) : s.removed = <<>> /\ s.inv /\ ~s.outv THEN <<"ok">>
  ELSE IF Escalations(c) # {} THEN
       LET s == CHOOSE x \in Escalations(c) : \A y \in Escalations(c) : Len(x.removed) <= Len(y.removed) IN
       <<"feature-escalation", s.removed, s.why, c.needs>>
  ELSE IF EncodingEscalation(c) # <<>> THEN <<"post-mvp-encoding-introduced">> \o EncodingEscalation(c)
  ELSE <<"ok">>

Judge(c) == LET v == Verdict(c) IN
            IF v[1] = "ok" \/ PrintT("REJECT " \o ToJson(<<c.id>> \o v)) THEN v[1] ELSE v[1]

Init == k \in 1..Len(Cases) /\ verdict = "pending"
Next == verdict = "pending" /\ verdict' = Judge(Cases[k]) /\ UNCHANGED k
Spec == Init /\ [][Next]_vars
Accepted == verdict \in {"pending", "ok"}
=============================================================================
