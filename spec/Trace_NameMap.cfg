SPECIFICATION TSpec
CONSTANTS
  Shapes <- TraceShapes
  MaxOps = 100000
  NewNames = {}
  AnyFuncOrder = FALSE
  SkipActiveInIndex = FALSE
  EmitBySlot = FALSE
CONSTRAINT Record
POSTCONDITION Post
CHECK_DEADLOCK FALSE
