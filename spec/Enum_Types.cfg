SPECIFICATION Spec
CONSTANTS
  Lists <- ListsTwo
  MaxTypes = 2
  MaxFuncs = 1
  MaxEdits = 1
INVARIANTS
  EmitCase
CHECK_DEADLOCK FALSE
