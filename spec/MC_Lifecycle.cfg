SPECIFICATION Spec
CONSTANTS
  CustomNames = {"a", "b"}
  MaxCustoms = 2
  MaxEmits = 3
  LegacyTakeCustoms = FALSE
INVARIANTS
  RepeatedEmitsEqual
  Fixpoint
  CustomsSurvive
  SwitchesExact
  ProcessedByOnce
  OnParseOnce
PROPERTIES
  EmitIsPure
CHECK_DEADLOCK FALSE
