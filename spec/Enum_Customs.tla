---------------------------- MODULE Enum_Customs ----------------------------
(***************************************************************************)
(* C12 enumeration: every way of placing up to MaxN unknown custom         *)
(* sections (names from a two-element set so duplicates occur, empty and   *)
(* non-empty payloads) before / between / after the standard sections of a *)
(* fixed module.  Position p means "after the standard section with        *)
(* ordinal p" (0 = at the very start, 13 = at the very end).  The harness  *)
(* builds one binary per line.                                             *)
(***************************************************************************)
EXTENDS Naturals, Sequences, TLC, Json, IOUtils, SequencesExt, FiniteSetsExt
MaxN == 2
Slot == [pos : 0..13, name : {"a", "b"}, len : {0, 3}]
Layouts == UNION {[1..n -> Slot] : n \in 0..MaxN}
\* sections are written in file order: positions must be non-decreasing
Ordered(l) == \A i \in 1..(Len(l) - 1) : l[i].pos <= l[i + 1].pos
VARIABLE dumped
Init == dumped = ndJsonSerialize(IOEnv.OUTFILE, SetToSeq({[layout |-> l] : l \in {x \in Layouts : Ordered(x)}}))
Next == UNCHANGED dumped
Spec == Init /\ [][Next]_dumped
=============================================================================
