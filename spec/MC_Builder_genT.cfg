SPECIFICATION Spec
CONSTANTS
  MaxOps = 3
  UnitKinds = {"getp"}
  MaxPos = 2
  Sigs = {1, 2}
INVARIANTS
  TreeShaped
  FlatBalanced
  BranchesInRange
CHECK_DEADLOCK FALSE
