----------------------------- MODULE Trace_Body -----------------------------
(***************************************************************************)
(* C03 monitor: the two-cursor elision matcher as a state machine.         *)
(* One trace line = one module round trip: for each local function the     *)
(* input operator list, the output operator list of the function sigma     *)
(* maps it to, both local type lists, and the module-level renumbering.    *)
(* State (k, f, i, j, ctl, lm): case, function, input cursor, output       *)
(* cursor, control stack of Body.tla, local map.  A function is accepted   *)
(* iff some behaviour reaches the end of both lists.  Accepted pairs are   *)
(* collected in TLC register 1 (so the run needs -workers 1), the furthest *)
(* position reached per pair in register 2 (for the report).               *)
(***************************************************************************)
EXTENDS BodyOps, IOUtils

Cases == ndJsonDeserialize(IOEnv.TRACEFILE)
VARIABLES k, f, i, j, ctl, lm
tvars == <<k, f, i, j, ctl, lm>>

C == Cases[k]
Fn == C.funcs[f]
In == Fn.inops
Out == Fn.outops

TInit == /\ k \in 1..Len(Cases) /\ f \in 1..Len(Cases[k].funcs)
         /\ i = 1 /\ j = 1 /\ ctl = InitCtl /\ lm = <<>>

Keep == /\ i <= Len(In) /\ j <= Len(Out)
        /\ SameOp(C.sigma, C.intypes, C.outtypes, In[i], Out[j])
        /\ LocalOK(lm, Fn, In[i], Out[j])
        /\ lm' = ExtendLm(lm, In[i], Out[j])
        /\ ctl' = Step(ctl, In[i]) /\ i' = i + 1 /\ j' = j + 1 /\ UNCHANGED <<k, f>>

Drop == /\ i <= Len(In) /\ Droppable(ctl, In[i])
        /\ ctl' = Step(ctl, In[i]) /\ i' = i + 1 /\ UNCHANGED <<j, k, f, lm>>

\* input `end` closes an if without else; the output has an inserted empty else
ElseFill == /\ i <= Len(In) /\ j + 1 <= Len(Out)
            /\ In[i].o = "End" /\ TopOf(ctl).kind = "If" /\ ~TopOf(ctl).hasElse
            /\ Out[j].o = "Else" /\ Out[j + 1].o = "End"
            /\ ctl' = Step(ctl, In[i]) /\ i' = i + 1 /\ j' = j + 2 /\ UNCHANGED <<k, f, lm>>

TNext == Keep \/ Drop \/ ElseFill
TSpec == TInit /\ [][TNext]_tvars

AtEnd == i = Len(In) + 1 /\ j = Len(Out) + 1

\* one TLC register per (case, function): <<furthest input cursor, output cursor there, accepted>>
\* the harness numbers the pairs: c.base + f  (base = number of functions of earlier cases)
Reg(a, b) == 10 + Cases[a].base + b
Total == IF Len(Cases) = 0 THEN 0 ELSE Cases[Len(Cases)].base + Len(Cases[Len(Cases)].funcs)
ASSUME \A n \in 1..Total : TLCSet(10 + n, <<0, 0, FALSE>>)

Record ==
  LET r == Reg(k, f)  cur == TLCGet(r) IN
  IF AtEnd THEN TLCSet(r, <<i, j, TRUE>>)
  ELSE IF ~cur[3] /\ cur[1] < i THEN TLCSet(r, <<i, j, FALSE>>) ELSE TRUE

Report(a, b) ==
  LET c == Cases[a]  fn == c.funcs[b]
      far == TLCGet(Reg(a, b))
      x == IF far[1] >= 1 /\ far[1] <= Len(fn.inops) THEN fn.inops[far[1]] ELSE "end-of-input"
      y == IF far[2] >= 1 /\ far[2] <= Len(fn.outops) THEN fn.outops[far[2]] ELSE "end-of-output"
  IN PrintT("REJECT " \o ToJson(<<c.id, "body-mismatch", fn.fi, far[1], far[2], x, y>>))

Post == \A a \in 1..Len(Cases) : \A b \in 1..Len(Cases[a].funcs) :
          TLCGet(Reg(a, b))[3] \/ Report(a, b)
=============================================================================
