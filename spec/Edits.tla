------------------------------- MODULE Edits -------------------------------
(***************************************************************************)
(* Well-formed edits of a Module through the public API, as transformers   *)
(* of the Module's observable state (C18, C02):                            *)
(*   src/module/functions/mod.rs  replace_imported_func,                   *)
(*                                replace_exported_func, add_local, delete *)
(*   src/module/{exports,imports,globals,memories,tables,data,elements}.rs *)
(*                                add*, delete                              *)
(* The state `st` is id-indexed (entry k of a space describes the item     *)
(* whose arena id has index k-1; live = FALSE is a tombstone), exactly the *)
(* snapshot the harness takes through the public API after every call, so  *)
(* the trace spec can demand  st' = <logged state>.                        *)
(*                                                                         *)
(* An edit is *well-formed* when it leaves no dangling reference; that is  *)
(* the guard of each delete action.  C02 quantifies over such edits.       *)
(***************************************************************************)
EXTENDS Naturals, Integers, Sequences, FiniteSets, TLC

VARIABLE st
evars == <<st>>

Ran(f) == {f[x] : x \in DOMAIN f}
NoExpr == [k |-> "none", v |-> "", r |-> -1]
ESpaces == {"func", "table", "memory", "global", "elem", "data"}
Fld(sp) == CASE sp = "func" -> "funcs" [] sp = "table" -> "tables" [] sp = "memory" -> "memories"
             [] sp = "global" -> "globals" [] sp = "elem" -> "elems" [] sp = "data" -> "data"

IsLive(s, sp, id) == id >= 0 /\ id < Len(s[Fld(sp)]) /\ s[Fld(sp)][id + 1].live
LiveIds(s, sp) == {id \in 0..(Len(s[Fld(sp)]) - 1) : s[Fld(sp)][id + 1].live}

ExprRef(e) == CASE e.k = "global" -> {<<"global", e.r>>} [] e.k = "func" -> {<<"func", e.r>>} [] OTHER -> {}

\* every reference held anywhere in the state, as <<space, id>>
AllRefs(s) ==
  {<<e.kind, e.target>> : e \in Ran(s.exports)}
  \cup {<<i.kind, i.target>> : i \in Ran(s.imports)}
  \cup (IF s.start >= 0 THEN {<<"func", s.start>>} ELSE {})
  \cup UNION {{<<r[1], r[2]>> : r \in Ran(s.funcs[k].refs)} : k \in {x \in DOMAIN s.funcs : s.funcs[x].live}}
  \cup UNION {ExprRef(s.globals[k].init) : k \in {x \in DOMAIN s.globals : s.globals[x].live}}
  \cup UNION {LET e == s.elems[k] IN
              (IF e.mode = "active" THEN {<<"table", e.table>>} \cup ExprRef(e.offset) ELSE {})
              \cup UNION {ExprRef(e.items[q]) : q \in DOMAIN e.items}
              : k \in {x \in DOMAIN s.elems : s.elems[x].live}}
  \cup UNION {LET d == s.data[k] IN IF d.mode = "active" THEN {<<"memory", d.mem>>} \cup ExprRef(d.offset) ELSE {}
              : k \in {x \in DOMAIN s.data : s.data[x].live}}

\* C02's premise and conclusion at the level of the Module: nothing refers to a tombstone
WF(s) == \A r \in AllRefs(s) : IsLive(s, r[1], r[2])

\* references to an entity other than through the import record that brings it in
RefsExceptImport(s, sp, id) ==
  (AllRefs([s EXCEPT !.imports = <<>>]) \cap {<<sp, id>>}) # {}

DeadFunc   == [live |-> FALSE, imported |-> FALSE, sig |-> "", refs |-> <<>>, name |-> ""]
DeadTM     == [live |-> FALSE, imported |-> FALSE, ty |-> ""]
DeadGlobal == [live |-> FALSE, imported |-> FALSE, ty |-> "", init |-> NoExpr]
DeadElem   == [live |-> FALSE, mode |-> "", table |-> -1, offset |-> NoExpr, ety |-> "", items |-> <<>>]
DeadData   == [live |-> FALSE, mode |-> "", mem |-> -1, offset |-> NoExpr, len |-> 0, digest |-> ""]
DeadOf(sp) == CASE sp = "func" -> DeadFunc [] sp \in {"table", "memory"} -> DeadTM [] sp = "global" -> DeadGlobal
                [] sp = "elem" -> DeadElem [] sp = "data" -> DeadData

WithoutImportOf(s, sp, id) == SelectSeq(s.imports, LAMBDA i : ~(i.kind = sp /\ i.target = id))

-----------------------------------------------------------------------------
(* C18: the two replacement edits.  `refs` = entity operands of the new body *)

FirstExportOf(s, f) == CHOOSE k \in DOMAIN s.exports :
                          /\ s.exports[k].kind = "func" /\ s.exports[k].target = f
                          /\ \A q \in DOMAIN s.exports : (s.exports[q].kind = "func" /\ s.exports[q].target = f) => k <= q

CanReplaceImported(s, f) == IsLive(s, "func", f) /\ s.funcs[f + 1].imported
\* keeps the identifier (so every caller, table entry and export now runs the new body), removes only that import
ReplaceImported(s, f, refs) ==
  [s EXCEPT !.funcs[f + 1] = [live |-> TRUE, imported |-> FALSE, sig |-> s.funcs[f + 1].sig, refs |-> refs, name |-> s.funcs[f + 1].name],
            !.imports = WithoutImportOf(s, "func", f)]

CanReplaceExported(s, f) == /\ IsLive(s, "func", f) /\ ~s.funcs[f + 1].imported
                            /\ \E e \in Ran(s.exports) : e.kind = "func" /\ e.target = f
\* a new function with the same signature; only that export is retargeted; the original stays for internal callers
ReplaceExported(s, f, refs) ==
  LET new == Len(s.funcs) IN
  \* (C13) the original keeps its debug name; the new function is a new, so far nameless, entity
  [s EXCEPT !.funcs = Append(@, [live |-> TRUE, imported |-> FALSE, sig |-> s.funcs[f + 1].sig, refs |-> refs, name |-> ""]),
            !.exports[FirstExportOf(s, f)].target = new]

-----------------------------------------------------------------------------
(* further well-formed edits (C02) *)

AddExport(s, name, kind, target) == [s EXCEPT !.exports = Append(@, [name |-> name, kind |-> kind, target |-> target])]
DeleteExport(s, k) == [s EXCEPT !.exports = SubSeq(@, 1, k - 1) \o SubSeq(@, k + 1, Len(@))]
AddFunc(s, sig, refs) == [s EXCEPT !.funcs = Append(@, [live |-> TRUE, imported |-> FALSE, sig |-> sig, refs |-> refs, name |-> ""])]
AddImportFunc(s, field, sig) ==
  [s EXCEPT !.funcs = Append(@, [live |-> TRUE, imported |-> TRUE, sig |-> sig, refs |-> <<>>, name |-> ""]),
            !.imports = Append(@, [module |-> "env", field |-> field, kind |-> "func", target |-> Len(s.funcs)])]
\* imports of the other kinds (Module::add_import_table / add_import_memory / add_import_global): a new entity of that
\* kind plus its import record; nothing else moves (indices are only assigned at emission, imports first)
AddImportTable(s, field, ety) ==
  [s EXCEPT !.tables = Append(@, [live |-> TRUE, imported |-> TRUE, ty |-> ety \o " min=1 max=none t64=false shared=false"]),
            !.imports = Append(@, [module |-> "env", field |-> field, kind |-> "table", target |-> Len(s.tables)])]
AddImportMemory(s, field) ==
  [s EXCEPT !.memories = Append(@, [live |-> TRUE, imported |-> TRUE, ty |-> "min=1 max=none m64=false shared=false pagelog2=none"]),
            !.imports = Append(@, [module |-> "env", field |-> field, kind |-> "memory", target |-> Len(s.memories)])]
AddImportGlobal(s, field) ==
  [s EXCEPT !.globals = Append(@, [live |-> TRUE, imported |-> TRUE, ty |-> "i32 mut=false shared=false", init |-> NoExpr]),
            !.imports = Append(@, [module |-> "env", field |-> field, kind |-> "global", target |-> Len(s.globals)])]
AddGlobal(s, mutable, value) ==
  [s EXCEPT !.globals = Append(@, [live |-> TRUE, imported |-> FALSE,
       ty |-> "i32 mut=" \o (IF mutable THEN "true" ELSE "false") \o " shared=false",
       init |-> [k |-> "const", v |-> "i32:" \o ToString(value), r |-> -1]])]
AddMemory(s, pages) ==
  [s EXCEPT !.memories = Append(@, [live |-> TRUE, imported |-> FALSE,
       ty |-> "min=" \o ToString(pages) \o " max=none m64=false shared=false pagelog2=none"])]
AddTable(s, min) ==
  [s EXCEPT !.tables = Append(@, [live |-> TRUE, imported |-> FALSE,
       ty |-> "funcref min=" \o ToString(min) \o " max=none t64=false shared=false"])]
AddPassiveData(s, digest) ==
  [s EXCEPT !.data = Append(@, [live |-> TRUE, mode |-> "passive", mem |-> -1, offset |-> NoExpr, len |-> 1, digest |-> digest])]
AddActiveData(s, mem, off, digest) ==
  [s EXCEPT !.data = Append(@, [live |-> TRUE, mode |-> "active", mem |-> mem, offset |-> off, len |-> 1, digest |-> digest])]
AddPassiveElem(s, funcs) ==
  [s EXCEPT !.elems = Append(@, [live |-> TRUE, mode |-> "passive", table |-> -1, offset |-> NoExpr, ety |-> "funcref",
                                 items |-> [q \in DOMAIN funcs |-> [k |-> "func", v |-> "", r |-> funcs[q]]]])]
SetStart(s, f) == [s EXCEPT !.start = f]

\* deletion is well-formed only when nothing else refers to the entity; an import record goes with its entity
\* A function that some body names through ref.func has to stay *declared* outside the code section (validation rule):
\* exported, or named by an element segment or by a global initialiser.  An edit that removes the last declaration of
\* such a function is not well formed.  rf = the functions named by ref.func in the bodies of the parsed module.
Declared(s, f) ==
  \/ \E e \in Ran(s.exports) : e.kind = "func" /\ e.target = f
  \/ \E k \in DOMAIN s.elems : s.elems[k].live /\ \E q \in DOMAIN s.elems[k].items : <<"func", f>> \in ExprRef(s.elems[k].items[q])
  \/ \E k \in DOMAIN s.globals : s.globals[k].live /\ <<"func", f>> \in ExprRef(s.globals[k].init)
RefFuncOK(s, rf) == \A f \in rf : IsLive(s, "func", f) => Declared(s, f)

CanDelete(s, sp, id) == IsLive(s, sp, id) /\ ~RefsExceptImport(s, sp, id)
Delete(s, sp, id) ==
  [s EXCEPT ![Fld(sp)][id + 1] = DeadOf(sp),
            !.imports = WithoutImportOf(s, sp, id)]

-----------------------------------------------------------------------------
=============================================================================
