SPECIFICATION BSpec
CONSTANTS
  MaxLen = 6
  MaxDepth = 3
INVARIANTS
  EmittedMatches
  EmittedBalanced
CHECK_DEADLOCK FALSE
