------------------------------ MODULE MC_NameMap ------------------------------
(***************************************************************************)
(* The catalog of input modules NameMap.tla is checked over and replayed   *)
(* from.  An entity: kind, imported?, sub-kind (segments: active / passive *)
(* / declared; the keeper function), the uid (= position) of the table or  *)
(* memory an active segment sits on, and whether the keeper function       *)
(* refers to it.  Imports come first within each kind, as in a binary.     *)
(* The name sections name every entity, some, none, and indices that do    *)
(* not exist.                                                              *)
(***************************************************************************)
EXTENDS NameMap

D(kind, imp, sub, host, root) == [kind |-> kind, imp |-> imp, sub |-> sub, host |-> host, root |-> root]
Keeper == D("func", FALSE, "keeper", 0, TRUE)

ShapeFuncs ==
  [ents |-> << D("func", TRUE, "", 0, TRUE), D("func", TRUE, "", 0, FALSE), D("func", FALSE, "", 0, TRUE),
               D("func", FALSE, "", 0, FALSE), Keeper >>,
   names |-> {<<"func", 0, "a">>, <<"func", 1, "b">>, <<"func", 2, "c">>, <<"func", 3, "d">>, <<"func", 7, "zz">>}]

ShapeTables ==
  [ents |-> << D("table", TRUE, "", 0, FALSE), D("table", FALSE, "", 0, TRUE), D("table", FALSE, "", 0, FALSE),
               D("elem", FALSE, "active", 1, FALSE), D("elem", FALSE, "active", 2, FALSE), D("elem", FALSE, "active", 3, FALSE),
               D("elem", FALSE, "passive", 0, TRUE), D("elem", FALSE, "passive", 0, FALSE), D("elem", FALSE, "declared", 0, FALSE),
               Keeper >>,
   names |-> {<<"table", 0, "t0">>, <<"table", 1, "t1">>, <<"table", 2, "t2">>,
              <<"elem", 0, "e0">>, <<"elem", 1, "e1">>, <<"elem", 2, "e2">>, <<"elem", 3, "e3">>, <<"elem", 4, "e4">>,
              <<"elem", 5, "e5">>, <<"elem", 9, "zz">>}]

\* passive segments first, active ones behind them; only some are named
ShapeElems ==
  [ents |-> << D("table", FALSE, "", 0, TRUE),
               D("elem", FALSE, "passive", 0, TRUE), D("elem", FALSE, "active", 1, FALSE), D("elem", FALSE, "passive", 0, TRUE),
               D("elem", FALSE, "declared", 0, FALSE), D("elem", FALSE, "active", 1, FALSE), Keeper >>,
   names |-> {<<"elem", 1, "act">>, <<"elem", 2, "p2">>, <<"elem", 4, "last">>}]

ShapeMems ==
  [ents |-> << D("memory", TRUE, "", 0, FALSE), D("memory", FALSE, "", 0, TRUE), D("memory", FALSE, "", 0, FALSE),
               D("data", FALSE, "active", 3, FALSE), D("data", FALSE, "passive", 0, TRUE), D("data", FALSE, "passive", 0, FALSE),
               D("data", FALSE, "active", 2, FALSE), Keeper >>,
   names |-> {<<"memory", 0, "m0">>, <<"memory", 1, "m1">>, <<"memory", 2, "m2">>,
              <<"data", 0, "d0">>, <<"data", 1, "d1">>, <<"data", 2, "d2">>, <<"data", 3, "d3">>}]

ShapeGlobals ==
  [ents |-> << D("global", TRUE, "", 0, TRUE), D("global", TRUE, "", 0, FALSE), D("global", FALSE, "", 0, TRUE),
               D("global", FALSE, "", 0, FALSE), D("global", FALSE, "", 0, TRUE), Keeper >>,
   names |-> {<<"global", 1, "g1">>, <<"global", 3, "g3">>, <<"global", 4, "g4">>}]

\* one of everything, nothing rooted but a passive data segment: the GC keeps the first memory for it
ShapeMixed ==
  [ents |-> << D("func", FALSE, "", 0, FALSE), D("table", FALSE, "", 0, FALSE), D("memory", FALSE, "", 0, FALSE),
               D("global", FALSE, "", 0, FALSE), D("elem", FALSE, "passive", 0, FALSE), D("data", FALSE, "passive", 0, TRUE),
               Keeper >>,
   names |-> {<<"func", 0, "f">>, <<"func", 1, "keep">>, <<"table", 0, "t">>, <<"memory", 0, "m">>, <<"global", 0, "g">>,
              <<"elem", 0, "e">>, <<"data", 0, "d">>}]

\* names for indices that do not exist only
ShapeSparse ==
  [ents |-> << D("func", TRUE, "", 0, TRUE), D("table", FALSE, "", 0, TRUE), D("global", FALSE, "", 0, FALSE), Keeper >>,
   names |-> {<<"func", 2, "x">>, <<"table", 1, "y">>, <<"global", 1, "z">>, <<"elem", 0, "w">>, <<"data", 0, "v">>, <<"memory", 0, "u">>}]

ShapesAll == {ShapeFuncs, ShapeTables, ShapeElems, ShapeMems, ShapeGlobals, ShapeMixed, ShapeSparse}
ShapesElem == {ShapeElems}
=============================================================================
