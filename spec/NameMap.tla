------------------------------- MODULE NameMap -------------------------------
(***************************************************************************)
(* The life of debug names (C13), as the code does it.                     *)
(*                                                                         *)
(* Parsing records, per index space, the identifier each input index got   *)
(* (IndicesToIds: imports first, then the section's entries, in order) and *)
(* the name section is resolved through that map: an entry <<kind, i, n>>  *)
(* sets the name field of the entity the map has at i; an index the map    *)
(* does not have is ignored.  Names then live in the entities: the API sets *)
(* and clears them, deleting an entity (by hand or by the GC pass) takes    *)
(* its name along.  Emission numbers the surviving entities afresh         *)
(* (imports first; local functions in an order of emission's choosing) and *)
(* writes <<kind, new index, name>> for every named survivor - or nothing  *)
(* when the name section is switched off.  Parsing the output again starts *)
(* the cycle over.                                                         *)
(*                                                                         *)
(* `want` is the requirement, kept apart from the mechanism: the name each *)
(* entity (identified by a uid that never changes) is supposed to carry -  *)
(* given by the TRUE input order at the first parse, changed only by the   *)
(* API.  The invariants compare mechanism and requirement.                 *)
(*                                                                         *)
(* The GC here is the part of passes/used.rs that matters for names:       *)
(* which tables, memories and segments survive when nothing but a keeper   *)
(* function refers to the rooted ones (active data is always a root, an    *)
(* active element segment is a root when its table is imported, declared   *)
(* segments are roots, a live table keeps its active segments and vice     *)
(* versa, and kept data with no kept memory keeps the first memory).       *)
(*                                                                         *)
(* Two switches describe plausible slips; each must produce a              *)
(* counterexample (vacuity guard, run by the driver):                      *)
(*   SkipActiveInIndex  active element segments are not entered in the     *)
(*                      parse-time index map;                              *)
(*   EmitBySlot         names are written under the arena slot of the      *)
(*                      entity instead of its emitted index.               *)
(***************************************************************************)
EXTENDS Naturals, Sequences, FiniteSets, TLC, Json, SequencesExt

CONSTANTS Shapes,             \* catalog of input modules (MC_NameMap)
          MaxOps,             \* API calls after the parse
          NewNames,           \* names the API may set
          AnyFuncOrder,       \* emission may order local functions in any way (else: arena order)
          SkipActiveInIndex, EmitBySlot

KindSeq == <<"func", "table", "memory", "global", "elem", "data">>
Kinds == {KindSeq[i] : i \in DOMAIN KindSeq}

VARIABLES on,        \* generate_name_section
          ents,      \* the arenas, flattened: sequence of entity records (slot order within a kind = order here)
          want,      \* uid -> the name the entity is supposed to carry ("" = none)
          out,       \* last emission: kind -> sequence of uids in index order
          outnames,  \* last emission: set of <<kind, index, name>>
          pc, nops, hist
vars == <<on, ents, want, out, outnames, pc, nops, hist>>

Positions(E) == [i \in 1..Len(E) |-> i]
Sel(E, T(_)) == SelectSeq(Positions(E), T)
UidsOf(E, sq) == [i \in DOMAIN sq |-> E[sq[i]].uid]
PosOf(E, u) == CHOOSE p \in DOMAIN E : E[p].uid = u
IndexIn(sq, x) == CHOOSE i \in DOMAIN sq : sq[i] = x
InSeq(sq, x) == \E i \in DOMAIN sq : sq[i] = x

\* the parse-time index map of one kind (positions), and the true input order
ParseMap(E, k) == Sel(E, LAMBDA p : E[p].kind = k /\ ~(SkipActiveInIndex /\ k = "elem" /\ E[p].sub = "active"))
InputOrder(E, k) == Sel(E, LAMBDA p : E[p].kind = k)

\* the name a name section (set of <<kind, index, name>>) gives position p through an index map
NameVia(map, E, names, p) ==
  LET hits == {t \in names : t[1] = E[p].kind /\ t[2] + 1 \in DOMAIN map[t[1]] /\ map[t[1]][t[2] + 1] = p}
  IN IF hits = {} THEN "" ELSE (CHOOSE t \in hits : TRUE)[3]

Fresh(s) == [p \in DOMAIN s.ents |->
               [uid |-> p, kind |-> s.ents[p].kind, imp |-> s.ents[p].imp, sub |-> s.ents[p].sub,
                host |-> s.ents[p].host, root |-> s.ents[p].root, name |-> "", live |-> TRUE]]

Init == /\ on \in BOOLEAN /\ ents = <<>> /\ want = <<>> /\ out = [k \in Kinds |-> <<>>] /\ outnames = {}
        /\ pc = "init" /\ nops = 0 /\ hist = <<>>

Parse(s) ==
  /\ pc = "init"
  /\ LET E0 == Fresh(s)
         map == [k \in Kinds |-> ParseMap(E0, k)]
         tru == [k \in Kinds |-> InputOrder(E0, k)]
     IN /\ ents' = [p \in DOMAIN E0 |-> [E0[p] EXCEPT !.name = NameVia(map, E0, s.names, p)]]
        /\ want' = [p \in DOMAIN E0 |-> NameVia(tru, E0, s.names, p)]
  /\ pc' = "ready"
  /\ hist' = <<[op |-> "parse", on |-> on, ents |-> s.ents, names |-> SetToSeq(s.names)]>>
  /\ UNCHANGED <<on, out, outnames, nops>>

LiveUids == {ents[p].uid : p \in {q \in DOMAIN ents : ents[q].live}}
Edit(o) == /\ pc \in {"ready", "emitted"} /\ nops < MaxOps /\ nops' = nops + 1 /\ hist' = Append(hist, o)

SetName(u, n) ==
  /\ Edit([op |-> "set", u |-> u, n |-> n]) /\ u \in LiveUids
  /\ ents' = [ents EXCEPT ![PosOf(ents, u)].name = n]
  /\ want' = [want EXCEPT ![u] = n]
  /\ pc' = "ready" /\ UNCHANGED <<on, out, outnames>>

\* what the API may delete without leaving a dangling reference: nothing the keeper names, no active segment (its
\* table / memory lists it), nothing a live segment sits on, not the keeper
Deletable(u) ==
  LET e == ents[PosOf(ents, u)] IN
  /\ e.live /\ ~e.root /\ e.sub \notin {"active", "keeper"}
  /\ \A p \in DOMAIN ents : ents[p].live => ents[p].host # u
Delete(u) ==
  /\ Edit([op |-> "delete", u |-> u]) /\ u \in LiveUids /\ Deletable(u)
  /\ ents' = [ents EXCEPT ![PosOf(ents, u)].live = FALSE]
  /\ pc' = "ready" /\ UNCHANGED <<on, want, out, outnames>>

\* ---- the GC pass (passes/used.rs + passes/gc.rs, for modules whose only code is the keeper) ----
Alive(E) == {p \in DOMAIN E : E[p].live}
HostPos(E, p) == PosOf(E, E[p].host)
GcRoots(E) ==
  {p \in Alive(E) : \/ E[p].root
                    \/ (E[p].kind = "data" /\ E[p].sub = "active")
                    \/ (E[p].kind = "elem" /\ E[p].sub = "active" /\ E[HostPos(E, p)].imp)
                    \/ (E[p].kind = "elem" /\ E[p].sub = "declared")}
GcStep(E, S) ==
  S \cup {HostPos(E, p) : p \in {q \in S : E[q].sub = "active"}}
    \cup {p \in Alive(E) : E[p].sub = "active" /\ HostPos(E, p) \in S}
RECURSIVE GcClose(_, _)
GcClose(E, S) == IF GcStep(E, S) = S THEN S ELSE GcClose(E, GcStep(E, S))
\* "if there are data segments kept, but no memories, then we try to add the first memory"
FirstMemory(E, S) ==
  LET mems == {p \in Alive(E) : E[p].kind = "memory"} IN
  IF (\E p \in S : E[p].kind = "data") /\ ~(\E p \in S : E[p].kind = "memory") /\ mems # {}
  THEN S \cup {CHOOSE p \in mems : \A q \in mems : p <= q} ELSE S
Used(E) == FirstMemory(E, GcClose(E, GcRoots(E)))

Gc ==
  /\ Edit([op |-> "gc"])
  /\ ents' = [p \in DOMAIN ents |-> [ents[p] EXCEPT !.live = (p \in Used(ents))]]
  /\ pc' = "ready" /\ UNCHANGED <<on, want, out, outnames>>

\* ---- emission ----
LiveOf(k, imp) == UidsOf(ents, Sel(ents, LAMBDA p : ents[p].live /\ ents[p].kind = k /\ ents[p].imp = imp))
SlotOf(u) == LET e == ents[PosOf(ents, u)] IN IndexIn(UidsOf(ents, InputOrder(ents, e.kind)), u)
Emit ==
  /\ Edit([op |-> "emit"])
  /\ \E locals \in (IF AnyFuncOrder THEN SetToSeqs(ToSet(LiveOf("func", FALSE))) ELSE {LiveOf("func", FALSE)}) :
       LET o == [k \in Kinds |-> LiveOf(k, TRUE) \o (IF k = "func" THEN locals ELSE LiveOf(k, FALSE))]
           idx(u, k) == IF EmitBySlot THEN SlotOf(u) - 1 ELSE IndexIn(o[k], u) - 1
       IN /\ out' = o
          /\ outnames' = IF on THEN {<<ents[p].kind, idx(ents[p].uid, ents[p].kind), ents[p].name>> :
                                        p \in {q \in DOMAIN ents : ents[q].live /\ ents[q].name # ""}}
                         ELSE {}
  /\ pc' = "emitted" /\ UNCHANGED <<on, ents, want>>

\* ---- the output parsed again: the arenas are rebuilt in index order, names resolved through the new index map ----
Reparse ==
  /\ pc = "emitted" /\ Edit([op |-> "reparse"])
  /\ LET order == out["func"] \o out["table"] \o out["memory"] \o out["global"] \o out["elem"] \o out["data"]
         E0 == [i \in DOMAIN order |-> [ents[PosOf(ents, order[i])] EXCEPT !.name = ""]]
         map == [k \in Kinds |-> ParseMap(E0, k)]
     IN ents' = [p \in DOMAIN E0 |-> [E0[p] EXCEPT !.name = NameVia(map, E0, outnames, p)]]
  \* an output written with the switch off carries no names: that is what was asked for
  /\ want' = IF on THEN want ELSE [u \in DOMAIN want |-> ""]
  /\ pc' = "ready" /\ UNCHANGED <<on, out, outnames>>

Next ==
  \/ \E s \in Shapes : Parse(s)
  \/ \E u \in LiveUids : (\E n \in NewNames \cup {""} : SetName(u, n)) \/ Delete(u)
  \/ Gc \/ Emit \/ Reparse
Spec == Init /\ [][Next]_vars

\* ------------------------------- properties -------------------------------
\* a name of a live entity is the one the entity is supposed to carry, at every point of the cycle
NamesFollowEntities == \A p \in DOMAIN ents : ents[p].live => ents[p].name = want[ents[p].uid]
\* the emitted name section says exactly: the index an entity was emitted at carries the name the entity is supposed to carry
EmittedNamesExact ==
  pc = "emitted" /\ on =>
    outnames = {<<ents[p].kind, IndexIn(out[ents[p].kind], ents[p].uid) - 1, want[ents[p].uid]>> :
                  p \in {q \in DOMAIN ents : ents[q].live /\ want[ents[q].uid] # ""}}
\* no name under an index nothing was emitted at, and at most one name per index
NoNameWithoutEntity == \A t \in outnames : t[2] < Len(out[t[1]])
OneNamePerIndex == \A s, t \in outnames : s[1] = t[1] /\ s[2] = t[2] => s = t
OffWritesNothing == ~on => outnames = {}
\* what the keeper names is never collected (only the API deletes, and never those)
RootsSurvive == \A p \in DOMAIN ents : ents[p].root => ents[p].live
\* imports come first in every emitted index space
ImportsFirst == \A k \in Kinds : \A i, j \in DOMAIN out[k] :
                  (ents[PosOf(ents, out[k][i])].imp /\ ~ents[PosOf(ents, out[k][j])].imp) => i < j

MCView == <<on, ents, want, out, outnames, pc, nops>>
\* enumeration for replay: one line per behaviour that ends in an emission
EmitCase == (pc = "emitted" /\ hist[Len(hist)].op = "emit") => PrintT("CASE " \o ToJson(hist))
=============================================================================
