------------------------------- MODULE Types -------------------------------
(***************************************************************************)
(* The type interner of a walrus Module and everything that names a type:  *)
(*   src/module/types.rs   ModuleTypes (add, add_entry_ty, find, delete,   *)
(*                         parse_types, emit: entry types are never        *)
(*                         written, the rest once each)                    *)
(*   src/arena_set.rs      ArenaSet::insert / remove (the de-duplication   *)
(*                         map next to the tombstone arena)                *)
(*   src/ty.rs             Type equality = (params, results, entry flag)   *)
(*   src/ir/mod.rs         InstrSeqType::new / existing (a block type is a *)
(*                         type id only when it has parameters or several  *)
(*                         results)                                        *)
(*   src/function_builder.rs  FunctionBuilder::new (signature + entry type)*)
(*   src/module/functions/mod.rs  parse_local_functions (one entry type    *)
(*                         per local function, keyed by its results)       *)
(*   src/passes/used.rs, gc.rs    a type is used by the signature of a     *)
(*                         live function, by the block type of one of its  *)
(*                         sequences (incl. the entry sequence) and by     *)
(*                         call_indirect; unused types are deleted         *)
(*                                                                         *)
(* A behaviour: the type section is parsed entry by entry, then functions  *)
(* (imported or local, each possibly naming one more type from its body),  *)
(* then API edits in any order -- build a function, delete one, export or  *)
(* unexport one, run the GC pass -- and finally emission.                  *)
(***************************************************************************)
EXTENDS Naturals, Integers, Sequences, FiniteSets, TLC, Json, SequencesExt

CONSTANTS Lists,      \* the value-type lists signatures are made of (a set of sequences of strings)
          MaxTypes, MaxFuncs, MaxEdits,
          EditOps     \* which API edits may occur (subset of {"build", "findadd", "nametype", "delete", "root", "gc"})

VARIABLES arena,    \* Seq of [p, r, entry, live]; id = position - 1
          dmap,     \* ArenaSet.already_in_arena: set of <<key, id>>, key = <<p, r, entry>>
          insigs,   \* the type section as read: Seq of <<p, r>>
          i2t,      \* parse-time map: type index -> id
          funcs,    \* Seq of [ty, ety, uses, imported, live, root]
          pc,       \* "types" | "funcs" | "edit" | "done" | "panic"
          nedits,
          clean,    \* TRUE right after a GC pass (no edit since)
          out,      \* emitted type section: Seq of ids
          hist      \* the operations performed (for replay on the real Module)
tvars == <<arena, dmap, insigs, i2t, funcs, pc, nedits, clean, out, hist>>

Ran(f) == {f[x] : x \in DOMAIN f}
Ids == 0..(Len(arena) - 1)
T(id) == arena[id + 1]
Live == {id \in Ids : T(id).live}
Key(t) == <<t.p, t.r, t.entry>>
Sig(id) == <<T(id).p, T(id).r>>

\* InstrSeqType: Simple for ()->() and ()->(t); a type id otherwise
Multi(p, r) == ~(Len(p) = 0 /\ Len(r) <= 1)

\* --- ArenaSet over a pair [arena, dmap] (so that several inserts compose inside one action) --------------
St == [arena |-> arena, dmap |-> dmap]
Insert(s, key) ==
  IF \E e \in s.dmap : e[1] = key
  THEN [s |-> s, id |-> (CHOOSE e \in s.dmap : e[1] = key)[2]]
  ELSE LET id == Len(s.arena) IN
       [s |-> [arena |-> Append(s.arena, [p |-> key[1], r |-> key[2], entry |-> key[3], live |-> TRUE]),
               dmap |-> s.dmap \cup {<<key, id>>}],
        id |-> id]
\* ArenaSet::remove: forget the key of the stored value, then tombstone it (on_delete clears params and results)
RemoveType(s, id) ==
  [arena |-> [s.arena EXCEPT ![id + 1] = [p |-> <<>>, r |-> <<>>, entry |-> @.entry, live |-> FALSE]],
   dmap |-> {e \in s.dmap : e[1] # Key(s.arena[id + 1])}]
RECURSIVE RemoveAll(_, _)
RemoveAll(s, ids) == IF ids = {} THEN s ELSE LET id == CHOOSE x \in ids : TRUE IN RemoveAll(RemoveType(s, id), ids \ {id})

\* ModuleTypes::find: a live, non-entry type with that signature
Find(s, p, r) == IF \E e \in s.dmap : e[1] = <<p, r, FALSE>> THEN (CHOOSE e \in s.dmap : e[1] = <<p, r, FALSE>>)[2] ELSE -1

Op(o, extra) == [op |-> o] @@ extra

-----------------------------------------------------------------------------
(* parse *)
ParseType(p, r) ==
  /\ pc = "types" /\ Len(i2t) < MaxTypes
  /\ LET x == Insert(St, <<p, r, FALSE>>) IN
     /\ arena' = x.s.arena /\ dmap' = x.s.dmap
     /\ i2t' = Append(i2t, x.id)
  /\ insigs' = Append(insigs, <<p, r>>)
  /\ hist' = Append(hist, Op("ptype", [p |-> p, r |-> r]))
  /\ UNCHANGED <<funcs, pc, nedits, clean, out>>

EndTypes == pc = "types" /\ i2t # <<>> /\ pc' = "funcs" /\ UNCHANGED <<arena, dmap, insigs, i2t, funcs, nedits, clean, out, hist>>

\* a function of type index ti; `use` = <<>> or <<kind, tj>>: its body has a block of type index tj (kind "block") or a
\* call_indirect of type index tj (kind "calli")
ParseFunc(ti, imported, use, root) ==
  /\ pc = "funcs" /\ Len(funcs) < MaxFuncs
  /\ ti \in DOMAIN i2t
  /\ (imported => use = <<>>)
  /\ \A q \in DOMAIN funcs : imported => funcs[q].imported      \* imports come first in the index space
  /\ LET ty == i2t[ti]
         x == IF imported THEN [s |-> St, id |-> -1] ELSE Insert(St, <<<<>>, T(ty).r, TRUE>>)       \* add_entry_ty(results)
         u == IF use = <<>> THEN <<>>
              ELSE LET tj == i2t[use[2]] IN
                   IF use[1] = "calli" THEN <<tj>>
                   ELSE IF Multi(T(tj).p, T(tj).r) THEN <<Find(x.s, T(tj).p, T(tj).r)>> ELSE <<>>   \* InstrSeqType::existing
     IN /\ arena' = x.s.arena /\ dmap' = x.s.dmap
        /\ funcs' = Append(funcs, [ty |-> ty, ety |-> x.id, uses |-> u, imported |-> imported, live |-> TRUE, root |-> root])
  /\ hist' = Append(hist, Op("pfunc", [ti |-> ti - 1, imported |-> imported, use |-> (IF use = <<>> THEN <<>> ELSE <<use[1], use[2] - 1>>), root |-> root]))
  /\ UNCHANGED <<insigs, i2t, pc, nedits, clean, out>>

EndFuncs == pc = "funcs" /\ pc' = "edit" /\ UNCHANGED <<arena, dmap, insigs, i2t, funcs, nedits, clean, out, hist>>

-----------------------------------------------------------------------------
(* API edits *)
Edit == pc = "edit" /\ nedits < MaxEdits /\ nedits' = nedits + 1

\* FunctionBuilder::new(types, p, r); optionally one block whose type is InstrSeqType::new(types, bp, br)
BuildFunc(p, r, blk, root) ==
  /\ Edit /\ Len(funcs) < MaxFuncs + MaxEdits
  /\ LET x1 == Insert(St, <<p, r, FALSE>>)
         x2 == Insert(x1.s, <<<<>>, r, TRUE>>)
         x3 == IF blk # <<>> /\ Multi(blk[1], blk[2]) THEN Insert(x2.s, <<blk[1], blk[2], FALSE>>) ELSE [s |-> x2.s, id |-> -1]
     IN /\ arena' = x3.s.arena /\ dmap' = x3.s.dmap
        /\ funcs' = Append(funcs, [ty |-> x1.id, ety |-> x2.id, uses |-> (IF x3.id >= 0 THEN <<x3.id>> ELSE <<>>), imported |-> FALSE, live |-> TRUE, root |-> root])
  /\ clean' = FALSE
  /\ hist' = Append(hist, Op("build", [p |-> p, r |-> r, blk |-> blk, root |-> root]))
  /\ UNCHANGED <<insigs, i2t, pc, out>>

\* ModuleTypes::find followed by ModuleTypes::add of the same signature: find reports exactly the type that add returns
\* (an entry type is not a function type anybody added), or nothing when add has to make a new one
FindAdd(p, r) ==
  /\ Edit
  /\ LET x == Insert(St, <<p, r, FALSE>>) IN arena' = x.s.arena /\ dmap' = x.s.dmap
  /\ clean' = FALSE
  /\ hist' = Append(hist, Op("findadd", [p |-> p, r |-> r, found |-> Find(St, p, r) >= 0]))
  /\ UNCHANGED <<insigs, i2t, funcs, pc, out>>

\* types.get_mut(id).name = Some(..) on a live function type: a debug name is no part of a type's identity - the interner,
\* the GC pass and the written section go on exactly as if nothing had happened
NameType(p, r) ==
  /\ Edit /\ \E id \in Live : Sig(id) = <<p, r>> /\ ~T(id).entry
  /\ hist' = Append(hist, Op("nametype", [p |-> p, r |-> r]))
  /\ UNCHANGED <<arena, dmap, insigs, i2t, funcs, pc, clean, out>>

DeleteFunc(f) ==
  /\ Edit /\ f \in DOMAIN funcs /\ funcs[f].live
  /\ funcs' = [funcs EXCEPT ![f].live = FALSE, ![f].root = FALSE]
  /\ clean' = FALSE
  /\ hist' = Append(hist, Op("delete", [f |-> f - 1]))
  /\ UNCHANGED <<arena, dmap, insigs, i2t, pc, out>>

SetRoot(f, b) ==
  /\ Edit /\ f \in DOMAIN funcs /\ funcs[f].live /\ funcs[f].root # b
  /\ funcs' = [funcs EXCEPT ![f].root = b]
  /\ clean' = FALSE
  /\ hist' = Append(hist, Op("root", [f |-> f - 1, b |-> b]))
  /\ UNCHANGED <<arena, dmap, insigs, i2t, pc, out>>

\* the types a function keeps alive
TypesOf(fn) == {fn.ty} \cup (IF fn.ety >= 0 THEN {fn.ety} ELSE {}) \cup Ran(fn.uses)
\* passes::gc::run restricted to functions and types: functions are live iff they are roots (no calls in this model)
Gc ==
  /\ Edit
  /\ LET kept == {q \in DOMAIN funcs : funcs[q].live /\ funcs[q].root}
         used == UNION {TypesOf(funcs[q]) : q \in kept}
         s2 == RemoveAll(St, Live \ used)
     IN /\ funcs' = [q \in DOMAIN funcs |-> IF q \in kept THEN funcs[q] ELSE [funcs[q] EXCEPT !.live = FALSE]]
        /\ arena' = s2.arena /\ dmap' = s2.dmap
  /\ clean' = TRUE
  /\ hist' = Append(hist, Op("gc", <<>>))
  /\ UNCHANGED <<insigs, i2t, pc, out>>

\* ModuleTypes::emit: the live non-entry types, once each (order is not part of any contract); a live function whose
\* signature, or a type named by its body, is not among them makes the lookup in IdsToIndices panic
Emit ==
  /\ pc = "edit"
  /\ LET written == {id \in Live : ~T(id).entry}
         needed == UNION {{funcs[q].ty} \cup Ran(funcs[q].uses) : q \in {x \in DOMAIN funcs : funcs[x].live}}
     IN IF needed \subseteq written
        THEN pc' = "done" /\ out' = SetToSeq(written)
        ELSE pc' = "panic" /\ out' = <<>>
  /\ hist' = Append(hist, Op("emit", <<>>))
  /\ UNCHANGED <<arena, dmap, insigs, i2t, funcs, nedits, clean>>

Init ==
  /\ arena = <<>> /\ dmap = {} /\ insigs = <<>> /\ i2t = <<>> /\ funcs = <<>> /\ pc = "types"
  /\ nedits = 0 /\ clean = FALSE /\ out = <<>> /\ hist = <<>>

Sigs == Lists \X Lists
Next ==
  \/ \E s \in Sigs : ParseType(s[1], s[2])
  \/ EndTypes
  \/ \E ti \in DOMAIN i2t, imp \in BOOLEAN, root \in BOOLEAN :
        \/ ParseFunc(ti, imp, <<>>, root)
        \/ \E kind \in {"block", "calli"}, tj \in DOMAIN i2t : ParseFunc(ti, imp, <<kind, tj>>, root)
  \/ EndFuncs
  \/ "build" \in EditOps /\ \E s \in Sigs, root \in BOOLEAN : BuildFunc(s[1], s[2], <<>>, root) \/ \E b \in Sigs : BuildFunc(s[1], s[2], <<b[1], b[2]>>, root)
  \/ \E f \in DOMAIN funcs : ("delete" \in EditOps /\ DeleteFunc(f)) \/ ("root" \in EditOps /\ \E b \in BOOLEAN : SetRoot(f, b))
  \/ \E s \in Sigs : ("findadd" \in EditOps /\ FindAdd(s[1], s[2])) \/ ("nametype" \in EditOps /\ NameType(s[1], s[2]))
  \/ "gc" \in EditOps /\ Gc
  \/ Emit
Spec == Init /\ [][Next]_tvars

-----------------------------------------------------------------------------
(* properties *)
\* C19 / C04 (types): a type index of the input denotes, while it lives, a type with the signature that index had
ParseMapAgrees == \A i \in DOMAIN i2t : T(i2t[i]).live => Sig(i2t[i]) = insigs[i] /\ ~T(i2t[i]).entry
\* C17 (types): the interner never holds two live types with equal (params, results, entry); the map is exact
DedupExact ==
  /\ \A a, b \in Live : Key(T(a)) = Key(T(b)) => a = b
  /\ dmap = {<<Key(T(id)), id>> : id \in Live}
\* C02 (premise kept by every action but DeleteFunc-free edits): what a live function names is live and of the right sort
FuncsTyped ==
  \A q \in DOMAIN funcs : funcs[q].live =>
     /\ T(funcs[q].ty).live /\ ~T(funcs[q].ty).entry
     /\ (funcs[q].ety >= 0 => T(funcs[q].ety).live /\ T(funcs[q].ety).entry /\ T(funcs[q].ety).p = <<>> /\ T(funcs[q].ety).r = T(funcs[q].ty).r)
     /\ \A u \in Ran(funcs[q].uses) : u >= 0 /\ T(u).live /\ ~T(u).entry
NoPanic == pc # "panic"
\* entry types exist only inside the IR
EntryNeverWritten == \A q \in DOMAIN out : ~T(out[q]).entry
WrittenOnce == \A a, b \in DOMAIN out : out[a] = out[b] => a = b
WrittenDistinct == \A a, b \in DOMAIN out : Sig(out[a]) = Sig(out[b]) => a = b
\* C07 (types): right after the GC pass nothing is written that no live function names
NoGarbageAfterGc ==
  (pc = "done" /\ clean) =>
     \A q \in DOMAIN out : \E f \in DOMAIN funcs : funcs[f].live /\ out[q] \in {funcs[f].ty} \cup Ran(funcs[f].uses)
\* C07: a second pass right after the first changes nothing
GcIdempotent == [][(clean /\ clean' /\ nedits' = nedits + 1 /\ pc' = pc) => (arena' = arena /\ dmap' = dmap /\ funcs' = funcs)]_tvars
\* C17: a type identifier is never recycled
NeverReused == [][Len(arena') >= Len(arena) /\ \A id \in Ids : arena'[id + 1].entry = arena[id + 1].entry /\ (arena'[id + 1].live => arena'[id + 1] = arena[id + 1])]_tvars

\* model checking ignores the operation log
MCView == <<arena, dmap, insigs, i2t, funcs, pc, nedits, clean, out>>
\* enumeration for replay: one line per complete behaviour
EmitCase == pc \in {"done", "panic"} => PrintT("CASE " \o ToJson(hist))
=============================================================================
