SPECIFICATION Spec
CONSTANTS
  MaxOps = 3
INVARIANTS
  EmitCase
CHECK_DEADLOCK FALSE
