SPECIFICATION TSpec
CONSTANTS
  Values = {}
  MaxOps = 100000000
  Dedup = FALSE
  CanDelete = FALSE
CONSTRAINT Record
INVARIANT TraceInvariants
POSTCONDITION Post
CHECK_DEADLOCK FALSE
