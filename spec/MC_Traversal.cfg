SPECIFICATION Spec
CONSTANTS
  MaxOps = 3
  UnitKinds = {"set32", "set64", "getp"}
  MaxPos = 3
INVARIANTS
  InOrderIsRecWalk
  PreOrderVisitsEachOnce
CHECK_DEADLOCK FALSE
