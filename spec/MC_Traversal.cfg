SPECIFICATION Spec
CONSTANTS
  MaxOps = 3
  UnitKinds = {"set32", "set64", "getp", "getq"}
  MaxPos = 3
  Sigs = {}
INVARIANTS
  InOrderIsRecWalk
  PreOrderVisitsEachOnce
CHECK_DEADLOCK FALSE
