SPECIFICATION Spec
CONSTANTS
  MaxOps = 3
INVARIANTS
  InOrderIsRecWalk
  PreOrderVisitsEachOnce
CHECK_DEADLOCK FALSE
