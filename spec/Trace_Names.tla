----------------------------- MODULE Trace_Names -----------------------------
(***************************************************************************)
(* C13 monitor.  One trace line = one round trip (optionally with the GC   *)
(* pass): the decoded name sections of input and output, the renumbering   *)
(* sigma, and per function the local correspondence observed by aligning   *)
(* the local operands of the surviving operators (unknown when the two     *)
(* operand sequences have different lengths).                              *)
(*   forward:  a name of an entity that is still emitted is attached to    *)
(*             the renumbered entity in the output;                        *)
(*   converse: every output name comes from an input name of an entity     *)
(*             that is mapped to it (no migration, nothing invented).      *)
(* Tolerated: names of locals that no surviving operator uses, label /     *)
(* field / tag subsections, and a merged type carrying either name.        *)
(***************************************************************************)
EXTENDS ModuleGraph, Json, IOUtils

Cases == ndJsonDeserialize(IOEnv.TRACEFILE)
VARIABLES k, verdict
vars == <<k, verdict>>

Plain == {"func", "table", "memory", "global", "elem", "data"}

TypeImg(c, i) == IF i >= 0 /\ i < Len(c.sigma["type"]) THEN c.sigma["type"][i + 1] ELSE -1

\* local correspondence of in-function f: a sequence of <<in local, out local>> pairs, or unknown
LmKnown(c, f) == f >= 0 /\ f < Len(c.lm) /\ c.lm[f + 1].known
LmImg(c, f, l) == LET ps == {p \in Ran(c.lm[f + 1].pairs) : p[1] = l} IN
                  IF ps = {} THEN -1 ELSE (CHOOSE p \in ps : TRUE)[2]

HasOut(c, kind, idx, sub, name) ==
  \E m \in Ran(c.out_names) : m.kind = kind /\ m.idx = idx /\ m.sub = sub /\ m.name = name

ForwardOK(c, n) ==
  CASE n.kind \in Plain ->
         LET j == Img(c.sigma, n.kind, n.idx) IN j < 0 \/ HasOut(c, n.kind, j, -1, n.name)
    [] n.kind = "module" -> HasOut(c, "module", -1, -1, n.name)
    [] n.kind = "type" ->
         LET j == TypeImg(c, n.idx) IN
         j < 0 \/ \E m \in Ran(c.out_names) : m.kind = "type" /\ m.idx = j /\
                    \E n2 \in Ran(c.in_names) : n2.kind = "type" /\ TypeImg(c, n2.idx) = j /\ n2.name = m.name
    [] n.kind = "local" ->
         LET f2 == Img(c.sigma, "func", n.idx) IN
         \/ f2 < 0 \/ ~LmKnown(c, n.idx)
         \/ LmImg(c, n.idx, n.sub) < 0                \* not used by a surviving operator: may be dropped
         \/ HasOut(c, "local", f2, LmImg(c, n.idx, n.sub), n.name)
    [] OTHER -> TRUE

ConverseOK(c, m) ==
  CASE m.kind \in Plain ->
         \E n \in Ran(c.in_names) : n.kind = m.kind /\ n.name = m.name /\ Img(c.sigma, n.kind, n.idx) = m.idx
    [] m.kind = "module" -> \E n \in Ran(c.in_names) : n.kind = "module" /\ n.name = m.name
    [] m.kind = "type" -> \E n \in Ran(c.in_names) : n.kind = "type" /\ n.name = m.name /\ TypeImg(c, n.idx) = m.idx
    [] m.kind = "local" ->
         \E n \in Ran(c.in_names) : n.kind = "local" /\ n.name = m.name /\ Img(c.sigma, "func", n.idx) = m.idx
                                     /\ (~LmKnown(c, n.idx) \/ LmImg(c, n.idx, n.sub) = m.sub
                                         \/ (n.sub < c.nparams[n.idx + 1] /\ n.sub = m.sub))
    [] OTHER -> FALSE    \* walrus emits no other subsection

\* with generate_synthetic_names_for_anonymous_items on, an entity the input leaves anonymous may come out with an invented
\* name: an output name is then only questioned when the input names something that is emitted in that very place
Anonymous(c, m) ==
  ~\E n \in Ran(c.in_names) :
      /\ n.kind = m.kind
      /\ CASE n.kind \in Plain -> Img(c.sigma, n.kind, n.idx) = m.idx
           [] n.kind = "type" -> TypeImg(c, n.idx) = m.idx
           [] n.kind = "local" -> Img(c.sigma, "func", n.idx) = m.idx /\ LmKnown(c, n.idx) /\ LmImg(c, n.idx, n.sub) = m.sub
           [] OTHER -> TRUE

Verdict(c) ==
  IF c.outcome # "ok" THEN <<"outcome", c.outcome>>
  ELSE IF ~c.out_names_ok THEN <<"output-name-section-malformed">>
  \* (with synthetic names on, an *empty* input name counts as no name: the parser says so for locals)
  ELSE IF \E n \in Ran(c.in_names) : ~ForwardOK(c, n) /\ ~(c.synth /\ n.name = "") THEN
       <<"name-lost-or-moved", CHOOSE n \in Ran(c.in_names) : ~ForwardOK(c, n) /\ ~(c.synth /\ n.name = ""), c.out_names>>
  ELSE IF \E m \in Ran(c.out_names) : ~ConverseOK(c, m) /\ ~(c.synth /\ Anonymous(c, m)) THEN
       <<"name-without-origin", CHOOSE m \in Ran(c.out_names) : ~ConverseOK(c, m) /\ ~(c.synth /\ Anonymous(c, m))>>
  ELSE <<"ok">>

Judge(c) == LET v == Verdict(c) IN
            IF v[1] = "ok" \/ PrintT("REJECT " \o ToJson(<<c.id>> \o v)) THEN v[1] ELSE v[1]

Init == k \in 1..Len(Cases) /\ verdict = "pending"
Next == verdict = "pending" /\ verdict' = Judge(Cases[k]) /\ UNCHANGED k
Spec == Init /\ [][Next]_vars
Accepted == verdict \in {"pending", "ok"}
=============================================================================
