SPECIFICATION Spec
CONSTANTS
  Shapes <- ShapesAll
  MaxOps = 3
  NewNames = {"x"}
  AnyFuncOrder = TRUE
  SkipActiveInIndex = FALSE
  EmitBySlot = FALSE
INVARIANTS
  NamesFollowEntities
  EmittedNamesExact
  NoNameWithoutEntity
  OneNamePerIndex
  OffWritesNothing
  RootsSurvive
  ImportsFirst
VIEW MCView
CHECK_DEADLOCK FALSE
