SPECIFICATION Spec
CONSTANTS
  Lists <- ListsTwo
  MaxTypes = 1
  MaxFuncs = 1
  MaxEdits = 4
  EditOps = {"findadd", "nametype", "delete", "gc"}
INVARIANTS
  EmitCase
CHECK_DEADLOCK FALSE
