--------------------------- MODULE ModuleGraph ---------------------------
(***************************************************************************)
(* Abstract wasm modules as index-explicit records (the harness's          *)
(* AbsModule projection), the reference edges between their entities, the  *)
(* renumbering relation Iso, and declarative reachability.                 *)
(*                                                                         *)
(* An AbsModule m has sequence-valued fields                               *)
(*   types imports funcs tables memories globals exports elems data        *)
(* whose k-th element (1-based) describes index k-1, plus start (-1 = none)*)
(* A renumbering s maps each space name to a sequence: in-index i (0-based)*)
(* is mapped to s[space][i+1]; -1 means "not emitted".                     *)
(***************************************************************************)
EXTENDS Naturals, Integers, Sequences, FiniteSets, TLC

Spaces == {"func", "table", "memory", "global", "elem", "data"}

Field(space) == CASE space = "func"   -> "funcs"
                  [] space = "table"  -> "tables"
                  [] space = "memory" -> "memories"
                  [] space = "global" -> "globals"
                  [] space = "elem"   -> "elems"
                  [] space = "data"   -> "data"
                  [] space = "type"   -> "types"

Count(m, space) == Len(m[Field(space)])
Ent(m, space, i) == m[Field(space)][i + 1]

\* image of in-index i of a space under renumbering s; -1 when dropped or out of range
Img(s, space, i) == IF i >= 0 /\ i < Len(s[space]) THEN s[space][i + 1] ELSE -1

Ran(f) == {f[x] : x \in DOMAIN f}

\* the set of kept in-indices of a space
Kept(s, space) == {i \in 0..(Len(s[space]) - 1) : s[space][i + 1] >= 0}

InjectiveOnKept(s, space) ==
  \A i, j \in Kept(s, space) : s[space][i + 1] = s[space][j + 1] => i = j

\* constant expressions correspond modulo the renumbering
ExprIso(s, e1, e2) ==
  /\ e1.k = e2.k
  /\ e1.v = e2.v
  /\ CASE e1.k = "global" -> Img(s, "global", e1.r) = e2.r /\ e2.r >= 0
       [] e1.k = "func"   -> Img(s, "func", e1.r) = e2.r /\ e2.r >= 0
       [] OTHER           -> e1.r = e2.r

ItemsIso(s, a, b) == Len(a) = Len(b) /\ \A k \in DOMAIN a : ExprIso(s, a[k], b[k])

-----------------------------------------------------------------------------
(* Per-entity correspondence: every attribute walrus must re-emit.          *)

FuncSame(m1, m2, s, i) ==
  LET j == Img(s, "func", i) IN
  /\ j >= 0 /\ j < Count(m2, "func")
  /\ Ent(m1, "func", i).sig = Ent(m2, "func", j).sig
  /\ Ent(m1, "func", i).imported = Ent(m2, "func", j).imported

TableSame(m1, m2, s, i) ==
  LET j == Img(s, "table", i) IN
  /\ j >= 0 /\ j < Count(m2, "table")
  /\ Ent(m1, "table", i).ty = Ent(m2, "table", j).ty
  /\ Ent(m1, "table", i).imported = Ent(m2, "table", j).imported
  /\ ExprIso(s, Ent(m1, "table", i).init, Ent(m2, "table", j).init)

MemorySame(m1, m2, s, i) ==
  LET j == Img(s, "memory", i) IN
  /\ j >= 0 /\ j < Count(m2, "memory")
  /\ Ent(m1, "memory", i).ty = Ent(m2, "memory", j).ty
  /\ Ent(m1, "memory", i).imported = Ent(m2, "memory", j).imported

GlobalSame(m1, m2, s, i) ==
  LET j == Img(s, "global", i) IN
  /\ j >= 0 /\ j < Count(m2, "global")
  /\ Ent(m1, "global", i).ty = Ent(m2, "global", j).ty
  /\ Ent(m1, "global", i).imported = Ent(m2, "global", j).imported
  /\ ExprIso(s, Ent(m1, "global", i).init, Ent(m2, "global", j).init)

ElemSame(m1, m2, s, i) ==
  LET j == Img(s, "elem", i)
      a == Ent(m1, "elem", i) IN
  /\ j >= 0 /\ j < Count(m2, "elem")
  /\ LET b == Ent(m2, "elem", j) IN
     /\ a.mode = b.mode
     /\ a.ety = b.ety
     /\ (a.mode = "active" => Img(s, "table", a.table) = b.table /\ b.table >= 0)
     /\ ExprIso(s, a.offset, b.offset)
     /\ ItemsIso(s, a.items, b.items)

DataSame(m1, m2, s, i) ==
  LET j == Img(s, "data", i)
      a == Ent(m1, "data", i) IN
  /\ j >= 0 /\ j < Count(m2, "data")
  /\ LET b == Ent(m2, "data", j) IN
     /\ a.mode = b.mode
     /\ (a.mode = "active" => Img(s, "memory", a.mem) = b.mem /\ b.mem >= 0)
     /\ ExprIso(s, a.offset, b.offset)
     /\ a.len = b.len /\ a.digest = b.digest

Same(m1, m2, s, space, i) ==
  CASE space = "func"   -> FuncSame(m1, m2, s, i)
    [] space = "table"  -> TableSame(m1, m2, s, i)
    [] space = "memory" -> MemorySame(m1, m2, s, i)
    [] space = "global" -> GlobalSame(m1, m2, s, i)
    [] space = "elem"   -> ElemSame(m1, m2, s, i)
    [] space = "data"   -> DataSame(m1, m2, s, i)

\* relative order of kept entities is preserved in a space (imports, segments)
OrderPreserved(s, space) ==
  \A i, j \in Kept(s, space) : i < j => s[space][i + 1] < s[space][j + 1]

\* Nothing added: every out entity is the image of a kept in entity
Onto(m2, s, space) == {s[space][i + 1] : i \in Kept(s, space)} = 0..(Count(m2, space) - 1)

\* the imports that survive, in order, as (module, field, kind, type, image of target)
ImportRow(s, imp) == <<imp.module, imp.field, imp.kind, imp.ty, Img(s, imp.kind, imp.target)>>
KeptImports(m1, s) == SelectSeq(m1.imports, LAMBDA imp : Img(s, imp.kind, imp.target) >= 0)
ImportsIso(m1, m2, s) ==
  LET a == KeptImports(m1, s) IN
  /\ Len(a) = Len(m2.imports)
  /\ \A k \in DOMAIN a : ImportRow(s, a[k]) = <<m2.imports[k].module, m2.imports[k].field, m2.imports[k].kind, m2.imports[k].ty, m2.imports[k].target>>

ExportRows(m, s) == {<<e.name, e.kind, Img(s, e.kind, e.target)>> : e \in Ran(m.exports)}
IdRows(m) == {<<e.name, e.kind, e.target>> : e \in Ran(m.exports)}
ExportsIso(m1, m2, s) ==
  /\ ExportRows(m1, s) = IdRows(m2)
  /\ Len(m1.exports) = Len(m2.exports)
  /\ \A e \in Ran(m1.exports) : Img(s, e.kind, e.target) >= 0

StartIso(m1, m2, s) == IF m1.start < 0 THEN m2.start < 0 ELSE m2.start = Img(s, "func", m1.start) /\ m2.start >= 0

\* type de-duplication and sorting are allowed; the set of signatures used is compared elsewhere
TypeSigs(m) == Ran(m.types)

-----------------------------------------------------------------------------
(* The relation "out is in restricted to the kept entities, renumbered by s" *)
(* With all entities kept this is C04; with Kept = Reach it is C06.          *)

\* the least element of a non-empty set of naturals
MinOf(S) == CHOOSE x \in S : \A y \in S : x <= y

\* first kept index of a space whose entity does not correspond, with both sides, for the report
BadEnt(m1, m2, s, sp) ==
  LET i == MinOf({x \in Kept(s, sp) : ~Same(m1, m2, s, sp, x)})
      j == Img(s, sp, i) IN
  <<sp, i, Ent(m1, sp, i), IF j >= 0 /\ j < Count(m2, sp) THEN Ent(m2, sp, j) ELSE "missing">>

BadImport(m1, m2, s) ==
  LET a == KeptImports(m1, s) IN
  IF Len(a) # Len(m2.imports) THEN <<"count", Len(a), Len(m2.imports)>>
  ELSE LET k == MinOf({x \in DOMAIN a : ImportRow(s, a[x]) # <<m2.imports[x].module, m2.imports[x].field, m2.imports[x].kind, m2.imports[x].ty, m2.imports[x].target>>})
       IN <<a[k].kind, ImportRow(s, a[k]), <<m2.imports[k].module, m2.imports[k].field, m2.imports[k].kind, m2.imports[k].ty, m2.imports[k].target>>>>

\* <<"ok">> or <<reason, detail...>>
IsoVerdict(m1, m2, s) ==
  IF \E sp \in Spaces : Len(s[sp]) # Count(m1, sp) THEN <<"sigma-domain">>
  ELSE IF \E sp \in Spaces : ~InjectiveOnKept(s, sp) THEN <<"sigma-not-injective", CHOOSE sp \in Spaces : ~InjectiveOnKept(s, sp)>>
  ELSE IF \E sp \in Spaces : ~Onto(m2, s, sp) THEN
       LET sp == CHOOSE x \in Spaces : ~Onto(m2, s, x) IN <<"entity-added-or-count-mismatch", sp, Cardinality(Kept(s, sp)), Count(m2, sp)>>
  ELSE IF ~ImportsIso(m1, m2, s) THEN <<"imports">> \o BadImport(m1, m2, s)
  ELSE IF \E sp \in Spaces : \E i \in Kept(s, sp) : ~Same(m1, m2, s, sp, i) THEN
       LET sp == CHOOSE x \in Spaces : \E i \in Kept(s, x) : ~Same(m1, m2, s, x, i) IN <<"entity">> \o BadEnt(m1, m2, s, sp)
  ELSE IF ~OrderPreserved(s, "elem") THEN <<"elem-order">>
  ELSE IF ~OrderPreserved(s, "data") THEN <<"data-order">>
  ELSE IF ~StartIso(m1, m2, s) THEN <<"start", m1.start, m2.start>>
  ELSE IF ~ExportsIso(m1, m2, s) THEN <<"exports", ExportRows(m1, s), IdRows(m2)>>
  ELSE <<"ok">>

IsoReason(m1, m2, s) == IsoVerdict(m1, m2, s)[1]
Iso(m1, m2, s) == IsoReason(m1, m2, s) = "ok"

AllKept(m1, s) == \A sp \in Spaces : Kept(s, sp) = 0..(Count(m1, sp) - 1)

-----------------------------------------------------------------------------
(* Reference edges and reachability.  Nodes are <<space, index>>.           *)
(* Function bodies contribute the entity operands of their (surviving)      *)
(* operators, summarised by the harness as f.refs (a sequence of            *)
(* <<space, index>> pairs, "type" operands excluded).                       *)

ExprRefs(e) == CASE e.k = "global" -> {<<"global", e.r>>}
                 [] e.k = "func"   -> {<<"func", e.r>>}
                 [] OTHER          -> {}

NodeRefs(m, n) ==
  LET sp == n[1]  i == n[2] IN
  CASE sp = "func"   -> {<<r[1], r[2]>> : r \in Ran(Ent(m, "func", i).refs)}
    [] sp = "table"  -> ExprRefs(Ent(m, "table", i).init)
    [] sp = "memory" -> {}
    [] sp = "global" -> ExprRefs(Ent(m, "global", i).init)
    [] sp = "elem"   -> LET e == Ent(m, "elem", i) IN
                        (IF e.mode = "active" THEN {<<"table", e.table>>} \cup ExprRefs(e.offset) ELSE {})
                        \cup UNION {ExprRefs(e.items[k]) : k \in DOMAIN e.items}
    [] sp = "data"   -> LET d == Ent(m, "data", i) IN
                        IF d.mode = "active" THEN {<<"memory", d.mem>>} \cup ExprRefs(d.offset) ELSE {}

\* a kept table keeps its active element segments; a kept memory its active data segments
BackLinks(m, n) ==
  CASE n[1] = "table"  -> {<<"elem", e.idx>> : e \in {x \in Ran(m.elems) : x.mode = "active" /\ x.table = n[2]}}
    [] n[1] = "memory" -> {<<"data", d.idx>> : d \in {x \in Ran(m.data) : x.mode = "active" /\ x.mem = n[2]}}
    [] OTHER           -> {}

ExportRoots(m) == {<<e.kind, e.target>> : e \in Ran(m.exports)}
StartRoots(m)  == IF m.start >= 0 THEN {<<"func", m.start>>} ELSE {}
ActiveData(m)  == {<<"data", d.idx>> : d \in {x \in Ran(m.data) : x.mode = "active"}}
DeclaredElem(m) == {<<"elem", e.idx>> : e \in {x \in Ran(m.elems) : x.mode = "declared"}}
ImpTableElem(m) == {<<"elem", e.idx>> : e \in {x \in Ran(m.elems) : x.mode = "active" /\ Ent(m, "table", x.table).imported}}

Roots(m, extra) == ExportRoots(m) \cup StartRoots(m) \cup ActiveData(m) \cup DeclaredElem(m) \cup ImpTableElem(m) \cup extra

RECURSIVE Closure(_, _)
Closure(m, S) ==
  LET S2 == S \cup UNION {NodeRefs(m, n) \cup BackLinks(m, n) : n \in S}
  IN IF S2 = S THEN S ELSE Closure(m, S2)

Reach(m, extra) == Closure(m, Roots(m, extra))

AllNodes(m) == UNION {{<<sp, i>> : i \in 0..(Count(m, sp) - 1)} : sp \in Spaces}

KeptNodes(s) == UNION {{<<sp, i>> : i \in Kept(s, sp)} : sp \in Spaces}
=============================================================================
