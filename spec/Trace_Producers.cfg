SPECIFICATION TSpec
CONSTANTS
  Inputs <- TraceInputs
  ValueNames = {"a", "b"}
  Versions = {"1", "2"}
  MaxOps = 100000
CONSTRAINT Record
POSTCONDITION Post
CHECK_DEADLOCK FALSE
