----------------------------- MODULE Producers -----------------------------
(***************************************************************************)
(* The `producers` custom section as walrus holds and edits it:            *)
(*   src/module/producers.rs   ModuleProducers { fields }, field() behind  *)
(*                             add_language / add_processed_by / add_sdk,  *)
(*                             clear, parse_producers_section, emit        *)
(*   src/module/mod.rs         Module::parse records walrus itself with    *)
(*                             add_processed_by("walrus", VERSION) after   *)
(*                             every successful parse; emit_wasm writes    *)
(*                             the section unless generation is off        *)
(*                                                                         *)
(* fields: Seq of [name, values], values: Seq of <<name, version>>.        *)
(* A behaviour: parse an input section (or none), then any sequence of API *)
(* edits and round trips (emit; parse) under a fixed switch.               *)
(***************************************************************************)
EXTENDS Naturals, Sequences, FiniteSets, TLC, Json

CONSTANTS Inputs,        \* the input sections explored (a set of field sequences; <<>> = no section)
          ValueNames, Versions, MaxOps

FieldNames == {"language", "processed-by", "sdk"}   \* what the API can name; inputs may carry others
Walrus == "walrus"
WalrusVersion == "W"                                 \* crate::VERSION, whatever it is

VARIABLES fields,    \* ModuleProducers.fields of the live Module
          input,     \* the section the first parse read
          generate,  \* generate_producers_section
          trips,     \* number of completed round trips
          nops, hist
pvars == <<fields, input, generate, trips, nops, hist>>

Ran(f) == {f[x] : x \in DOMAIN f}

\* ModuleProducers::field: the first field with that name gets the value (replacing the version of an equally named
\* value, else appended); without such a field a new one is appended
SetValue(vals, n, v) ==
  IF \E q \in DOMAIN vals : vals[q][1] = n
  THEN LET q == CHOOSE x \in DOMAIN vals : vals[x][1] = n /\ \A y \in DOMAIN vals : vals[y][1] = n => x <= y
       IN [vals EXCEPT ![q] = <<n, v>>]
  ELSE Append(vals, <<n, v>>)
Field(fs, fname, n, v) ==
  IF \E q \in DOMAIN fs : fs[q].name = fname
  THEN LET q == CHOOSE x \in DOMAIN fs : fs[x].name = fname /\ \A y \in DOMAIN fs : fs[y].name = fname => x <= y
       IN [fs EXCEPT ![q].values = SetValue(@, n, v)]
  ELSE Append(fs, [name |-> fname, values |-> <<<<n, v>>>>])

\* what Module::parse leaves behind for a section s
Parsed(s) == Field(s, "processed-by", Walrus, WalrusVersion)
\* what emit_wasm writes
Written(fs, gen) == IF gen THEN fs ELSE <<>>

Tick == nops < MaxOps /\ nops' = nops + 1
Add(fname, n, v) ==
  /\ Tick /\ fields' = Field(fields, fname, n, v)
  /\ hist' = Append(hist, [op |-> "add", field |-> fname, name |-> n, version |-> v])
  /\ UNCHANGED <<input, generate, trips>>
Clear ==
  /\ Tick /\ fields' = <<>>
  /\ hist' = Append(hist, [op |-> "clear"])
  /\ UNCHANGED <<input, generate, trips>>
\* emit the module and parse the result again with the same switch
RoundTrip ==
  /\ Tick /\ fields' = Parsed(Written(fields, generate)) /\ trips' = trips + 1
  /\ hist' = Append(hist, [op |-> "roundtrip"])
  /\ UNCHANGED <<input, generate>>

Init ==
  /\ input \in Inputs /\ generate \in BOOLEAN
  /\ fields = Parsed(input) /\ trips = 0 /\ nops = 0
  /\ hist = <<[op |-> "parse", section |-> input, generate |-> generate]>>
Next ==
  \/ \E f \in FieldNames, n \in ValueNames \cup {Walrus}, v \in Versions : Add(f, n, v)
  \/ Clear
  \/ RoundTrip
Spec == Init /\ [][Next]_pvars

-----------------------------------------------------------------------------
(* properties *)
Values(fs, fname) == UNION {Ran(fs[q].values) : q \in {x \in DOMAIN fs : fs[x].name = fname}}
WalrusCount(fs) == Cardinality({<<q, x>> \in (DOMAIN fs) \X (1..8) : fs[q].name = "processed-by" /\ x \in DOMAIN fs[q].values /\ fs[q].values[x][1] = Walrus})
\* C14: however often the module is round-tripped, walrus is recorded as a processing tool exactly once
WalrusOnce == (generate /\ \A e \in Ran(hist) : e.op # "clear" /\ (e.op = "add" => e.name # Walrus)) => WalrusCount(fields) = 1
\* C14: without edits, the input's fields are all still there, in order, with their other values untouched
NoEdits == \A e \in Ran(hist) : e.op \in {"parse", "roundtrip"}
InputPreserved ==
  (NoEdits /\ generate) =>
     /\ Len(fields) >= Len(input)
     /\ \A q \in DOMAIN input :
          /\ fields[q].name = input[q].name
          /\ SelectSeq(fields[q].values, LAMBDA x : x[1] # Walrus) = SelectSeq(input[q].values, LAMBDA x : x[1] # Walrus)
\* C08: a round trip of a round-tripped module changes nothing
RoundTripFixpoint == [][(hist[Len(hist)].op = "roundtrip" /\ trips' = trips + 1 /\ generate) => fields' = fields]_pvars
\* the API edit touches one value of one field
AddIsLocal ==
  [][\A f \in FieldNames, n \in ValueNames \cup {Walrus}, v \in Versions :
        (nops' = nops + 1 /\ hist' = Append(hist, [op |-> "add", field |-> f, name |-> n, version |-> v])) =>
           /\ <<n, v>> \in Values(fields', f)
           /\ \A g \in {fields[q].name : q \in DOMAIN fields} \cup FieldNames : g # f => Values(fields', g) = Values(fields, g)
           /\ {x \in Values(fields', f) : x[1] # n} = {x \in Values(fields, f) : x[1] # n}]_pvars
\* switched off: nothing is written, and a round trip then starts from nothing
OffWritesNothing == ~generate => Written(fields, generate) = <<>>

MCView == <<fields, input, generate, trips, nops, {e \in Ran(hist) : e.op \in {"clear", "add"}}>>
\* enumeration for replay
EmitCase == nops = MaxOps => PrintT("CASE " \o ToJson(hist))
=============================================================================
