----------------------------- MODULE Traversal -----------------------------
(***************************************************************************)
(* src/ir/traversals.rs: the two iterative traversals, transcribed with    *)
(* their explicit work stacks, over the instruction trees of Builder.tla   *)
(* (C16).  There is no recursion in either algorithm below: all state is   *)
(* the work stack and the event list, so call-stack depth does not depend  *)
(* on nesting depth.  The reference is the obvious recursive walk.         *)
(*                                                                         *)
(* Events:  <<"start", s>>  <<"instr", s, i>>  <<"end", s>>                *)
(* (instruction i of sequence s; the entity operands of an instruction are *)
(* reported by the generated Visit impl right after its "instr" event --   *)
(* checked on the implementation by Trace_Traversal.tla).                  *)
(***************************************************************************)
EXTENDS Builder

NodeAt(sq, i) == seqs[sq + 1][i + 1]
Pop(st) == SubSeq(st, 1, Len(st) - 1)

\* dfs_in_order: stack of (sequence, index of the next instruction to visit)
RECURSIVE InOrderLoop(_, _), InOrderScan(_, _, _, _)
InOrderLoop(stack, ev) ==
  IF stack = <<>> THEN ev
  ELSE LET top == stack[Len(stack)] IN
       InOrderScan(top[1], top[2], Pop(stack), IF top[2] = 0 THEN Append(ev, <<"start", top[1]>>) ELSE ev)
InOrderScan(sq, i, rest, ev) ==
  IF i >= Len(seqs[sq + 1]) THEN InOrderLoop(rest, Append(ev, <<"end", sq>>))
  ELSE LET n == NodeAt(sq, i)  ev2 == Append(ev, <<"instr", sq, i>>) IN
       CASE n.t \in {"block", "loop"} -> InOrderLoop(rest \o << <<sq, i + 1>>, <<n.a, 0>> >>, ev2)
         [] n.t = "ifelse"            -> InOrderLoop(rest \o << <<sq, i + 1>>, <<n.b, 0>>, <<n.a, 0>> >>, ev2)
         [] OTHER                     -> InOrderScan(sq, i + 1, rest, ev2)
DfsInOrder(start) == InOrderLoop(<< <<start, 0>> >>, <<>>)

\* dfs_pre_order_mut: stack of sequences; a sequence is visited completely when popped, children are pushed
RECURSIVE PreOrderLoop(_, _), PreOrderScan(_, _, _, _)
PreOrderLoop(stack, ev) ==
  IF stack = <<>> THEN ev
  ELSE PreOrderScan(stack[Len(stack)], 0, Pop(stack), Append(ev, <<"start", stack[Len(stack)]>>))
PreOrderScan(sq, i, stack, ev) ==
  IF i >= Len(seqs[sq + 1]) THEN PreOrderLoop(stack, Append(ev, <<"end", sq>>))
  ELSE LET n == NodeAt(sq, i)  ev2 == Append(ev, <<"instr", sq, i>>) IN
       CASE n.t \in {"block", "loop"} -> PreOrderScan(sq, i + 1, Append(stack, n.a), ev2)
         [] n.t = "ifelse"            -> PreOrderScan(sq, i + 1, stack \o <<n.b, n.a>>, ev2)
         [] OTHER                     -> PreOrderScan(sq, i + 1, stack, ev2)
DfsPreOrderMut(start) == PreOrderLoop(<<start>>, <<>>)

\* the reference: recursive walk in program order
RECURSIVE RecWalk(_), RecFrom(_, _)
RecFrom(sq, i) ==
  IF i >= Len(seqs[sq + 1]) THEN <<>>
  ELSE LET n == NodeAt(sq, i) IN
       <<<<"instr", sq, i>>>>
       \o (CASE n.t \in {"block", "loop"} -> RecWalk(n.a) [] n.t = "ifelse" -> RecWalk(n.a) \o RecWalk(n.b) [] OTHER -> <<>>)
       \o RecFrom(sq, i + 1)
RecWalk(sq) == <<<<"start", sq>>>> \o RecFrom(sq, 0) \o <<<<"end", sq>>>>

Ran(f) == {f[x] : x \in DOMAIN f}
Count(f, x) == Cardinality({q \in DOMAIN f : f[q] = x})

\* C16: the immutable traversal reports everything exactly once, in program order, properly nested
InOrderIsRecWalk == DfsInOrder(0) = RecWalk(0)
\* C16: the mutable traversal reports every reachable sequence and instruction exactly once
PreOrderVisitsEachOnce ==
  LET ev == DfsPreOrderMut(0)  ref == RecWalk(0) IN
  /\ Ran(ev) = Ran(ref)
  /\ \A x \in Ran(ev) : Count(ev, x) = 1
  /\ Len(ev) = Len(ref)
=============================================================================
