SPECIFICATION TSpec
CONSTANTS
  Values = {}
  MaxOps = 100000000
  Dedup = TRUE
  CanDelete = TRUE
CONSTRAINT Record
INVARIANT TraceInvariants
POSTCONDITION Post
CHECK_DEADLOCK FALSE
