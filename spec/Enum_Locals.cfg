SPECIFICATION Spec
CONSTANTS
  VTypes <- VTypes2
  MaxLocals = 3
  MaxParams = 2
  MaxUses = 3
INVARIANTS
  EmitCase
CHECK_DEADLOCK FALSE
