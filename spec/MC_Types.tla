----------------------------- MODULE MC_Types -----------------------------
(* Model-checking instance of Types.tla: three value-type lists, so that signatures cover ()->(), ()->(t) (simple
   block types) and parameter / multi-result signatures (block types that are type ids). *)
EXTENDS Types
ListsSmall == {<<>>, <<"i32">>, <<"i32", "f64">>}
ListsTwo == {<<>>, <<"i32", "f64">>}
=============================================================================
