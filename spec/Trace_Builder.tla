---------------------------- MODULE Trace_Builder ----------------------------
(***************************************************************************)
(* C15: one trace line = one build history replayed on the real            *)
(* FunctionBuilder (through instr_at / block_at / loop_at / if_else_at /   *)
(* dangling_instr_seq), finished, emitted, and decoded.  The trace spec    *)
(* re-executes the history with the actions of Builder.tla, computes the   *)
(* in-order flattening of the resulting tree and requires the emitted      *)
(* operator list to be exactly that, modulo an injective, type-preserving  *)
(* map on locals that pins the parameter (LocalOK of BodyOps.tla).         *)
(***************************************************************************)
EXTENDS Builder, BodyOps, IOUtils

Cases == ndJsonDeserialize(IOEnv.TRACEFILE)
VARIABLES k, l
tvars == <<bvars, k, l>>

H == Cases[k]
E == H.hist[l]

Replay ==
  /\ l <= Len(H.hist) /\ l' = l + 1 /\ UNCHANGED k
  /\ CASE E.op = "unit"     -> Unit(E.seq, E.pos, E.kind, E.v)
       [] E.op \in {"block", "loop"} -> NewBlock(E.seq, E.pos, E.op)
       [] E.op = "tblock"   -> NewTypedBlock(E.seq, E.pos, E.kind, E.v)
       [] E.op = "ifelse"   -> NewIfElse(E.seq, E.pos)
       [] E.op = "dangling" -> NewDangling
       [] E.op = "attach"   -> Attach(E.seq, E.pos, E.d, E.kind)
       [] E.op = "attachif" -> AttachIf(E.seq, E.pos, E.d, E.v)
       [] E.op = "brtable"  -> BrTable(E.seq, E.pos, E.d, E.v)
       [] E.op = "br"       -> Branch(E.seq, E.pos, E.d, FALSE)
       [] E.op = "brif"     -> Branch(E.seq, E.pos, E.d, TRUE)

\* the built module has two tables, two memories, one element and one data segment, emitted in the order they were added
NoSigma == [func |-> <<>>, table |-> <<0, 1>>, memory |-> <<0, 1>>, global |-> <<>>, elem |-> <<0>>, data |-> <<0>>]
Ctx == [inlocals |-> AbsLocals, outlocals |-> H.outlocals, nparams |-> 2]

RECURSIVE MatchFrom(_, _, _, _)
MatchFrom(exp, out, i, lm) ==
  IF i > Len(exp) THEN TRUE
  ELSE /\ SameOp(NoSigma, <<>>, <<>>, exp[i], out[i])
       /\ LocalOK(lm, Ctx, exp[i], out[i])
       /\ MatchFrom(exp, out, i + 1, ExtendLm(lm, exp[i], out[i]))

EmittedIsFlattening ==
  LET exp == Flatten IN H.outcome = "ok" /\ H.out_valid /\ Len(exp) = Len(H.outops) /\ MatchFrom(exp, H.outops, 1, <<>>)

\* the closing step: only taken when the emitted body is the flattening
Check == /\ l = Len(H.hist) + 1 /\ EmittedIsFlattening
         /\ l' = l + 1 /\ UNCHANGED <<bvars, k>>

TNext == Replay \/ Check
TInit == Init /\ k \in 1..Len(Cases) /\ l = 1
TSpec == TInit /\ [][TNext]_tvars

ASSUME \A n \in 1..Len(Cases) : TLCSet(10 + n, 0)
Record == IF TLCGet(10 + k) < l THEN TLCSet(10 + k, l) ELSE TRUE
Post == \A n \in 1..Len(Cases) :
          LET far == TLCGet(10 + n) IN
          \/ far = Len(Cases[n].hist) + 2
          \/ PrintT("REJECT " \o ToJson(<<Cases[n].id, IF far = Len(Cases[n].hist) + 1 THEN "emitted-body-is-not-the-flattening" ELSE "history-not-replayable",
                                         far, Cases[n].hist, [q \in DOMAIN Cases[n].outops |-> <<Cases[n].outops[q].o, Cases[n].outops[q].imm, Cases[n].outops[q].local, Cases[n].outops[q].labels>>], Cases[n].outcome>>))
=============================================================================
