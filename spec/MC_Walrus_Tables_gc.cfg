SPECIFICATION Spec
CONSTANTS
  Inputs <- FamTables
  PassSeqs <- Passes_gc
  LegacyElemTrace = FALSE
INVARIANTS
  NoPanic
  OutputIsIso
  NothingDroppedWithoutPass
  GcExact
  ParseMapAgrees
  EmitMapAgrees
  IndexSpacesDense
PROPERTIES
  SecondGcIsNoOp
  Terminates
CHECK_DEADLOCK FALSE
