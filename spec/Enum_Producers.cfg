SPECIFICATION Spec
CONSTANTS
  Inputs <- InputsSmall
  ValueNames = {"a"}
  Versions = {"1", "2"}
  MaxOps = 3
INVARIANTS
  EmitCase
CHECK_DEADLOCK FALSE
