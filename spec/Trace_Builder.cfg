SPECIFICATION TSpec
CONSTANTS
  MaxOps = 1000000
CONSTRAINT Record
POSTCONDITION Post
CHECK_DEADLOCK FALSE
