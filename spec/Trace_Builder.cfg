SPECIFICATION TSpec
CONSTANTS
  MaxOps = 1000000
  UnitKinds = {"set32", "set64", "getp", "getq", "tcopy", "mcopy", "tinit", "minit"}
  MaxPos = 3
  Sigs = {1, 2}
CONSTRAINT Record
POSTCONDITION Post
CHECK_DEADLOCK FALSE
