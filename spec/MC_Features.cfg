SPECIFICATION Spec
INVARIANT NoEscalation
CHECK_DEADLOCK FALSE
