----------------------------- MODULE Trace_Valid -----------------------------
(***************************************************************************)
(* C02 monitor for plain runs.  One trace line = parse ; [gc] ; emit of a  *)
(* module that the independent validator accepts, under one switch vector. *)
(* The pipeline must complete (no panic, no error) and the independent     *)
(* validator must accept the output under the same feature set.            *)
(***************************************************************************)
EXTENDS Naturals, Sequences, TLC, Json, IOUtils
Cases == ndJsonDeserialize(IOEnv.TRACEFILE)
VARIABLES k, verdict
vars == <<k, verdict>>
Verdict(c) ==
  IF ~c.in_valid THEN <<"ok">>
  ELSE IF c.outcome # "ok" THEN <<"outcome", c.outcome, c.pass, c.cfg>>
  ELSE IF ~c.out_valid THEN <<"output-invalid", c.out_error, c.decl_only_passive, c.pass>>
  ELSE <<"ok">>
Judge(c) == LET v == Verdict(c) IN
            IF v[1] = "ok" \/ PrintT("REJECT " \o ToJson(<<c.id>> \o v)) THEN v[1] ELSE v[1]
Init == k \in 1..Len(Cases) /\ verdict = "pending"
Next == verdict = "pending" /\ verdict' = Judge(Cases[k]) /\ UNCHANGED k
Spec == Init /\ [][Next]_vars
Accepted == verdict \in {"pending", "ok"}
=============================================================================
