----------------------------- MODULE MC_Walrus -----------------------------
(* Model-checking harness for Walrus.tla over the families of Families.tla *)
EXTENDS Walrus, Families

PassesAll == {<<>>, <<"gc">>, <<"gc", "gc">>}
Passes_emit == {<<>>}
Passes_gc == {<<"gc">>, <<"gc", "gc">>}
=============================================================================
