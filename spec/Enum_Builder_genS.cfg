SPECIFICATION Spec
CONSTANTS
  MaxOps = 5
  UnitKinds = {}
  MaxPos = 1
INVARIANTS
  EmitStructCase
CHECK_DEADLOCK FALSE
