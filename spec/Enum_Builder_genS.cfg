SPECIFICATION Spec
CONSTANTS
  MaxOps = 4
  UnitKinds = {}
  MaxPos = 1
INVARIANTS
  EmitStructCase
CHECK_DEADLOCK FALSE
