SPECIFICATION Spec
CONSTANTS
  MaxOps = 4
  UnitKinds = {}
  MaxPos = 1
  Sigs = {}
INVARIANTS
  EmitStructCase
CHECK_DEADLOCK FALSE
