SPECIFICATION Spec
CONSTANTS
  MaxOps = 5
  UnitKinds = {}
  MaxPos = 1
  Sigs = {}
INVARIANTS
  EmitStructCase
CHECK_DEADLOCK FALSE
