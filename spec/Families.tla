----------------------------- MODULE Families -----------------------------
(***************************************************************************)
(* Small-scope input families.  Each family is the *whole* product over    *)
(* one group of entity kinds / reference-edge kinds, so that every         *)
(* disjunct of Refs / Visit / NeededBy is exercised by some configuration  *)
(* (checked with -coverage).  The same sets are written out as ndjson      *)
(* (Enum_Families) and concretised into real wasm binaries by the harness, *)
(* so the implementation is driven over exactly the shapes the design      *)
(* model was checked on.                                                   *)
(***************************************************************************)
EXTENDS Naturals, Integers, Sequences, FiniteSets, TLC, FiniteSetsExt, SequencesExt

None  == [k |-> "none", v |-> "", r |-> -1]
CI32(n) == [k |-> "const", v |-> "i32:" \o ToString(n), r |-> -1]
GGet(g) == [k |-> "global", v |-> "", r |-> g]
RFunc(f) == [k |-> "func", v |-> "", r |-> f]
RNull(h) == [k |-> "null", v |-> h, r |-> -1]

TyTab(ety) == ety \o " min=4 max=none t64=false shared=false"
TyMem == "min=1 max=none m64=false shared=false pagelog2=none"
TyG(t, mut) == t \o " mut=" \o (IF mut THEN "true" ELSE "false") \o " shared=false"

F(i, imp, size, refs) == [idx |-> i, imported |-> imp, sig |-> "()->()", size |-> size, refs |-> refs]
Tb(i, imp, ety) == [idx |-> i, imported |-> imp, ty |-> TyTab(ety), init |-> None]
Mm(i, imp) == [idx |-> i, imported |-> imp, ty |-> TyMem]
Gl(i, imp, t, mut, init) == [idx |-> i, imported |-> imp, ty |-> TyG(t, mut), init |-> init]
El(i, mode, table, off, ety, form, items) == [idx |-> i, mode |-> mode, table |-> table, offset |-> off, ety |-> ety, form |-> form, items |-> items]
Dt(i, mode, mem, off) == [idx |-> i, mode |-> mode, mem |-> mem, offset |-> off, len |-> 1, digest |-> "d" \o ToString(i)]
Ex(name, kind, t) == [name |-> name, kind |-> kind, target |-> t]
Im(k, kind, ty, t) == [module |-> "env", field |-> "i" \o ToString(k), kind |-> kind, ty |-> ty, target |-> t]

Mod(imps, fs, ts, ms, gs, exps, st, els, ds) ==
  [imports |-> imps, funcs |-> fs, tables |-> ts, memories |-> ms, globals |-> gs,
   exports |-> exps, start |-> st, elems |-> els, data |-> ds]

\* sequences (in a canonical order) of the subsets of a set of export records
SeqsOfSubsets(S) == {SetToSeq(T) : T \in SUBSET S}
RefSeqs(S, n) == {SetToSeq(T) : T \in {X \in SUBSET S : Cardinality(X) <= n}}

-----------------------------------------------------------------------------
\* Family "calls": 1 imported + 2 local functions, arbitrary call edges (<= 2 per function),
\* both sizes (so the size sort reorders), every export subset, every start choice.
FamCalls ==
  {Mod(<<Im(0, "func", "()->()", 0)>>,
       <<F(0, TRUE, 0, <<>>), F(1, FALSE, s1, r1), F(2, FALSE, s2, r2)>>,
       <<>>, <<>>, <<>>, exps, st, <<>>, <<>>)
     : s1 \in {1, 2}, s2 \in {1, 2},
       r1 \in RefSeqs({<<"func", 0>>, <<"func", 1>>, <<"func", 2>>}, 2),
       r2 \in RefSeqs({<<"func", 0>>, <<"func", 1>>, <<"func", 2>>}, 2),
       exps \in SeqsOfSubsets({Ex("a", "func", 0), Ex("b", "func", 1), Ex("c", "func", 2)}),
       st \in {-1, 1, 2}}

\* Family "globals": imported + local globals, initialisers of every form, functions using them.
FamGlobals ==
  {Mod(<<Im(0, "global", TyG("i32", FALSE), 0), Im(1, "func", "()->()", 0)>>,
       <<F(0, TRUE, 0, <<>>), F(1, FALSE, 1, r1)>>,
       <<>>, <<>>,
       <<Gl(0, TRUE, "i32", FALSE, None), Gl(1, FALSE, "i32", TRUE, i1), Gl(2, FALSE, "funcref", FALSE, i2)>>,
       exps, -1, <<>>, <<>>)
     : r1 \in RefSeqs({<<"global", 0>>, <<"global", 1>>, <<"global", 2>>, <<"func", 0>>}, 2),
       i1 \in {CI32(7), GGet(0)},
       i2 \in {RNull("func"), RFunc(0), RFunc(1)},
       exps \in SeqsOfSubsets({Ex("f", "func", 1), Ex("g1", "global", 1), Ex("g2", "global", 2), Ex("g0", "global", 0)})}

\* Family "tables": imported or local tables, element segments of every mode and item form
\* (function indices, funcref expressions, externref expressions naming a global).
FamTables ==
  {Mod(IF timp THEN <<Im(0, "table", TyTab("funcref"), 0), Im(1, "global", TyG("externref", FALSE), 0)>>
               ELSE <<Im(0, "global", TyG("externref", FALSE), 0)>>,
       <<F(0, FALSE, 1, r0), F(1, FALSE, 2, <<>>)>>,
       <<Tb(0, timp, "funcref"), Tb(1, FALSE, "externref")>>, <<>>,
       <<Gl(0, TRUE, "externref", FALSE, None)>>,
       exps, -1,
       <<El(0, m0, IF m0 = "active" THEN 0 ELSE -1, IF m0 = "active" THEN CI32(0) ELSE None, "funcref", form0,
            IF form0 = "funcs" THEN <<RFunc(1)>> ELSE <<RFunc(1), RNull("func")>>),
         El(1, m1, IF m1 = "active" THEN 1 ELSE -1, IF m1 = "active" THEN CI32(1) ELSE None, "externref", "exprs", <<GGet(0), RNull("extern")>>)>>,
       <<>>)
     : timp \in BOOLEAN,
       m0 \in {"active", "passive", "declared"}, form0 \in {"funcs", "exprs"},
       m1 \in {"active", "passive"},
       r0 \in RefSeqs({<<"table", 0>>, <<"table", 1>>, <<"elem", 0>>, <<"elem", 1>>, <<"func", 1>>}, 2),
       exps \in SeqsOfSubsets({Ex("f", "func", 0), Ex("t0", "table", 0), Ex("t1", "table", 1)})}

\* Family "memories": imported/local memories, active and passive data, offsets const or global.get.
FamMemories ==
  {Mod(IF mimp THEN <<Im(0, "memory", TyMem, 0), Im(1, "global", TyG("i32", FALSE), 0)>>
               ELSE <<Im(0, "global", TyG("i32", FALSE), 0)>>,
       <<F(0, FALSE, 1, r0)>>,
       <<>>, <<Mm(0, mimp), Mm(1, FALSE)>>,
       <<Gl(0, TRUE, "i32", FALSE, None)>>,
       exps, -1, <<>>,
       <<Dt(0, m0, IF m0 = "active" THEN mem0 ELSE -1, IF m0 = "active" THEN off0 ELSE None),
         Dt(1, "passive", -1, None)>>)
     : mimp \in BOOLEAN, m0 \in {"active", "passive"}, mem0 \in {0, 1}, off0 \in {CI32(0), GGet(0)},
       r0 \in RefSeqs({<<"memory", 0>>, <<"memory", 1>>, <<"data", 0>>, <<"data", 1>>, <<"global", 0>>}, 2),
       exps \in SeqsOfSubsets({Ex("f", "func", 0), Ex("m0", "memory", 0), Ex("m1", "memory", 1)})}

AllFamilies == FamCalls \cup FamGlobals \cup FamTables \cup FamMemories

=============================================================================
