SPECIFICATION GSpec
CONSTANTS
  MaxEdits = 2
INVARIANTS
  EmitCase
  StillWF
CHECK_DEADLOCK FALSE
