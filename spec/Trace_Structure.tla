--------------------------- MODULE Trace_Structure ---------------------------
(***************************************************************************)
(* C04 monitor.  Each trace line is one observed round trip of the real    *)
(* implementation: the abstract input module, the abstract output module   *)
(* and the renumbering walrus reports (parse-time map composed with the    *)
(* emit-time map).  TLC judges  Iso(in, out, sigma)  with every entity     *)
(* kept.  One initial state per case; the verdict is computed in a Next    *)
(* step so that workers share the load.                                    *)
(***************************************************************************)
EXTENDS ModuleGraph, Json, IOUtils

Cases == ndJsonDeserialize(IOEnv.TRACEFILE)
VARIABLES k, verdict
vars == <<k, verdict>>

Verdict(c) ==
  IF c.outcome # "ok" THEN <<"outcome", c.outcome>>
  ELSE LET r == IsoVerdict(c.inm, c.outm, c.sigma) IN
       IF r[1] # "ok" THEN r
       ELSE IF ~AllKept(c.inm, c.sigma) THEN <<"entity-dropped">>
       ELSE IF TypeSigs(c.inm) # TypeSigs(c.outm) THEN <<"type-signatures", TypeSigs(c.inm), TypeSigs(c.outm)>>
       ELSE <<"ok">>

Judge(c) == LET v == Verdict(c) IN
            IF v[1] = "ok" \/ PrintT("REJECT " \o ToJson(<<c.id>> \o v)) THEN v[1] ELSE v[1]

Init == k \in 1..Len(Cases) /\ verdict = "pending"
Next == verdict = "pending" /\ verdict' = Judge(Cases[k]) /\ UNCHANGED k
Spec == Init /\ [][Next]_vars
Accepted == verdict \in {"pending", "ok"}
=============================================================================
