---------------------------- MODULE Trace_Config ----------------------------
(***************************************************************************)
(* C14 monitor, differential form.  One trace line = one input run under   *)
(* *every* vector of the boolean switches                                  *)
(*   names, producers, dwarf, xform (preserve_code_transform), stable,     *)
(*   synth (generate_synthetic_names_for_anonymous_items),                 *)
(* and some of them again with strict (strict_validate) off.               *)
(* No layout is assumed: for two vectors that differ in exactly one switch *)
(* the section inventories (sequences of <<id, name, digest>>) must differ *)
(* by exactly the section that switch governs and be identical otherwise.  *)
(* Plus the absolute rules (switched off => section absent), the producers*)
(* relation, and the callback count.                                       *)
(***************************************************************************)
EXTENDS Naturals, Sequences, FiniteSets, TLC, Json, IOUtils

Cases == ndJsonDeserialize(IOEnv.TRACEFILE)
VARIABLES k, verdict
vars == <<k, verdict>>

\* "late": preserve_code_transform was set after generate_dwarf (DWARF generation on, code transform not preserved)
FlagNames == {"names", "producers", "dwarf", "xform", "stable", "synth", "strict", "late"}
Ran(f) == {f[x] : x \in DOMAIN f}

Row(s) == <<s.id, s.name, s.digest>>
Rows(r) == [q \in DOMAIN r.sections |-> Row(r.sections[q])]
Without(r, P(_)) == LET keep == SelectSeq(r.sections, LAMBDA s : ~P(s)) IN [q \in DOMAIN keep |-> Row(keep[q])]
IsName(s) == s.kind = "name"
IsProducers(s) == s.kind = "producers"
IsDebug(s) == s.kind = "debug"
Never(s) == FALSE

OnlyDiffer(a, b, fl) == /\ a.flags[fl] /\ ~b.flags[fl]
                        /\ \A g \in FlagNames \ {fl} : a.flags[g] = b.flags[g]

\* producers: input fields preserved in order (values other than walrus untouched), walrus exactly once in processed-by
NonWalrus(vals) == SelectSeq(vals, LAMBDA v : v[1] # "walrus")
ProducersOK(inp, out) ==
  LET hasPB == \E q \in DOMAIN inp : inp[q].field = "processed-by" IN
  /\ Len(out) = Len(inp) + (IF hasPB THEN 0 ELSE 1)
  /\ \A q \in DOMAIN inp : out[q].field = inp[q].field /\ NonWalrus(out[q].values) = NonWalrus(inp[q].values)
  /\ Cardinality({q \in DOMAIN out : out[q].field = "processed-by"}) = 1
  /\ \A q \in DOMAIN out : out[q].field = "processed-by" =>
        Cardinality({x \in DOMAIN out[q].values : out[q].values[x][1] = "walrus"}) = 1
  /\ \A q \in DOMAIN out : out[q].field # "processed-by" => out[q].values = (IF q \in DOMAIN inp THEN inp[q].values ELSE <<>>)

\* decoded function / local names of a run, as a set of <<kind, idx, sub, name>>
NameSet(r) == Ran(r.names)
\* synthetic names: only the name section may differ; every name of the plain run is kept; every local function is named
SynthOK(a, b) ==
  /\ Without(a, IsName) = Without(b, IsName)
  /\ NameSet(b) \subseteq NameSet(a)
  /\ a.flags["names"] => \A q \in DOMAIN a.localfuncs : \E n \in NameSet(a) : n[1] = "func" /\ n[2] = a.localfuncs[q]
  /\ ~a.flags["names"] => Rows(a) = Rows(b)

RunVerdict(c, r) ==
  IF r.outcome = "parse-err" THEN (IF r.calls = 0 THEN <<"ok">> ELSE <<"on-parse-ran-on-failed-parse", r.flags, r.calls>>)
  ELSE IF r.outcome # "ok" THEN <<"outcome", r.flags, r.outcome>>
  ELSE IF r.calls # 1 THEN <<"on-parse-count", r.flags, r.calls>>
  ELSE IF ~r.flags["names"] /\ \E s \in Ran(r.sections) : IsName(s) THEN <<"name-section-despite-switch-off", r.flags>>
  ELSE IF ~r.flags["producers"] /\ \E s \in Ran(r.sections) : IsProducers(s) THEN <<"producers-section-despite-switch-off", r.flags>>
  ELSE IF ~r.flags["dwarf"] /\ \E s \in Ran(r.sections) : IsDebug(s) THEN <<"debug-sections-despite-switch-off", r.flags>>
  ELSE IF r.flags["dwarf"] /\ c.in_has_dwarf /\ ~\E s \in Ran(r.sections) : IsDebug(s) THEN <<"debug-sections-dropped-despite-switch-on", r.flags>>
  ELSE IF r.flags["producers"] /\ ~ProducersOK(c.in_producers, r.producers) THEN <<"producers-content", r.flags, c.in_producers, r.producers>>
  ELSE <<"ok">>

PairVerdict(a, b) ==
  IF a.outcome # "ok" \/ b.outcome # "ok" THEN <<"ok">>
  ELSE IF OnlyDiffer(a, b, "names") /\ Rows(b) # Without(a, IsName) THEN <<"names-switch-changes-more-than-its-section", a.flags>>
  ELSE IF OnlyDiffer(a, b, "producers") /\ Rows(b) # Without(a, IsProducers) THEN <<"producers-switch-changes-more-than-its-section", a.flags>>
  ELSE IF OnlyDiffer(a, b, "dwarf") /\ Rows(b) # Without(a, IsDebug) THEN <<"dwarf-switch-changes-more-than-its-sections", a.flags>>
  ELSE IF OnlyDiffer(a, b, "xform") /\ Rows(b) # Rows(a) THEN <<"preserve-code-transform-changes-the-binary", a.flags>>
  ELSE IF OnlyDiffer(a, b, "stable") /\ Rows(b) # Rows(a) THEN <<"only-stable-features-changes-the-binary", a.flags>>
  ELSE IF OnlyDiffer(a, b, "late") /\ Without(b, IsDebug) # Without(a, IsDebug) THEN <<"setter-order-changes-more-than-the-debug-sections", a.flags>>
  ELSE IF OnlyDiffer(a, b, "strict") /\ Rows(b) # Rows(a) THEN <<"strict-validate-changes-the-binary", a.flags>>
  ELSE IF OnlyDiffer(a, b, "synth") /\ ~SynthOK(a, b) THEN <<"synthetic-names-switch-does-more-or-less-than-naming-anonymous-items", a.flags>>
  ELSE <<"ok">>

Verdict(c) ==
  LET badRun == {q \in DOMAIN c.runs : RunVerdict(c, c.runs[q])[1] # "ok"}
      badPair == {p \in (DOMAIN c.runs) \X (DOMAIN c.runs) : PairVerdict(c.runs[p[1]], c.runs[p[2]])[1] # "ok"} IN
  IF badRun # {} THEN RunVerdict(c, c.runs[CHOOSE q \in badRun : \A x \in badRun : q <= x])
  ELSE IF badPair # {} THEN LET p == CHOOSE x \in badPair : TRUE IN PairVerdict(c.runs[p[1]], c.runs[p[2]])
  ELSE <<"ok">>

Judge(c) == LET v == Verdict(c) IN
            IF v[1] = "ok" \/ PrintT("REJECT " \o ToJson(<<c.id>> \o v)) THEN v[1] ELSE v[1]

Init == k \in 1..Len(Cases) /\ verdict = "pending"
Next == verdict = "pending" /\ verdict' = Judge(Cases[k]) /\ UNCHANGED k
Spec == Init /\ [][Next]_vars
Accepted == verdict \in {"pending", "ok"}
=============================================================================
