SPECIFICATION Spec
CONSTANTS
  VTypes <- VTypes3
  MaxLocals = 4
  MaxParams = 2
  MaxUses = 3
INVARIANTS
  AllUsesMapped
  ParamsPinned
  MapInjective
  MapIsFunction
  TypesPreserved
  NoUnusedDeclared
VIEW MCView
CHECK_DEADLOCK FALSE
