SPECIFICATION TSpec
CONSTRAINT Record
INVARIANT TraceInvariants
POSTCONDITION Post
CHECK_DEADLOCK FALSE
