SPECIFICATION Spec
CONSTANTS
  MaxPayloads = 3
INVARIANTS
  InterpretOnlyValidated
  BodiesAfterWholeBinary
  OnParseOnlyOnSuccess
PROPERTIES
  Total
CHECK_DEADLOCK FALSE
