SPECIFICATION Spec
CONSTANTS
  Inputs <- FamTables
  PassSeqs <- Passes_emit
  LegacyElemTrace = FALSE
INVARIANTS
  NoPanic
  OutputIsIso
  NothingDroppedWithoutPass
  GcExact
  ParseMapAgrees
  EmitMapAgrees
  IndexSpacesDense
PROPERTIES
  SecondGcIsNoOp
  Terminates
CHECK_DEADLOCK FALSE
