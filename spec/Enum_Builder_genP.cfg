SPECIFICATION Spec
CONSTANTS
  MaxOps = 2
  UnitKinds = {"getp", "tcopy", "mcopy", "tinit", "minit"}
  MaxPos = 4
  Sigs = {}
INVARIANTS
  EmitCase
CHECK_DEADLOCK FALSE
