SPECIFICATION Spec
CONSTANTS
  MaxOps = 9
INVARIANTS
  EmitCase
CHECK_DEADLOCK FALSE
