SPECIFICATION Spec
CONSTANTS
  MaxOps = 9
  UnitKinds = {"set32", "set64", "getp", "getq", "tcopy", "mcopy", "tinit", "minit"}
  MaxPos = 3
  Sigs = {1, 2}
INVARIANTS
  EmitCase
CHECK_DEADLOCK FALSE
