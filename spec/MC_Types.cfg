SPECIFICATION Spec
CONSTANTS
  Lists <- ListsTwo
  MaxTypes = 2
  MaxFuncs = 2
  MaxEdits = 2
  EditOps = {"build", "findadd", "nametype", "delete", "root", "gc"}
INVARIANTS
  ParseMapAgrees
  DedupExact
  FuncsTyped
  NoPanic
  EntryNeverWritten
  WrittenOnce
  WrittenDistinct
  NoGarbageAfterGc
PROPERTIES
  GcIdempotent
  NeverReused
VIEW MCView
CHECK_DEADLOCK FALSE
