----------------------------- MODULE Trace_Xform -----------------------------
(***************************************************************************)
(* C11 monitor.  One trace line = one parse ; [edit | gc] ; emit with      *)
(* preserve_code_transform on, the CodeTransform exactly as handed to a    *)
(* custom section's apply_code_transform, and the layouts of the input and *)
(* output code sections decoded independently (absolute offset and name of *)
(* every operator, entry range of every function).                         *)
(*                                                                         *)
(* No alignment is assumed.  Per kept function f the pairs whose input     *)
(* offset lies in f must form a strictly increasing, name-preserving map   *)
(* from input operator starts onto *all* output operator starts of the     *)
(* function f is emitted as, except operators that were inserted (by an    *)
(* edit, or the `else` walrus adds to an if without else).  Together with  *)
(* C03 (the output is the input after elision, in order) this forces every *)
(* pair to join the two occurrences of the same instruction.               *)
(***************************************************************************)
EXTENDS Naturals, Integers, Sequences, FiniteSets, TLC, Json, IOUtils

Cases == ndJsonDeserialize(IOEnv.TRACEFILE)
VARIABLES k, verdict
vars == <<k, verdict>>
Ran(f) == {f[x] : x \in DOMAIN f}

\* a pair is <<position of the input operator starting at loc (0: none), position of the output operator starting at off (0: none), loc, off>>;
\* the pairs of a function are listed in the order walrus hands them out (sorted by input location)
Inserted(f) == {q \in DOMAIN f.outops : f.outops[q][3]}

FuncVerdict(c, f) ==
  LET P == f.pairs IN
  IF \E q \in DOMAIN P : P[q][1] = 0 THEN <<"pair-input-offset-is-not-an-instruction-start", f.fi, P[CHOOSE q \in DOMAIN P : P[q][1] = 0]>>
  ELSE IF \E q \in DOMAIN P : P[q][2] = 0 THEN <<"pair-output-offset-is-not-an-instruction-start", f.fi, P[CHOOSE x \in DOMAIN P : P[x][2] = 0]>>
  ELSE IF \E q \in DOMAIN P : f.inops[P[q][1]][2] # f.outops[P[q][2]][2] THEN
       LET q == CHOOSE x \in DOMAIN P : f.inops[P[x][1]][2] # f.outops[P[x][2]][2] IN
       <<"pair-joins-different-instructions", f.inops[P[q][1]][2], f.outops[P[q][2]][2], f.fi, P[q]>>
  ELSE IF \E q \in 1..(Len(P) - 1) : P[q][1] >= P[q + 1][1] \/ P[q][2] >= P[q + 1][2] THEN <<"pairs-not-strictly-increasing", f.fi>>
  ELSE IF {P[q][2] : q \in DOMAIN P} # (DOMAIN f.outops) \ Inserted(f) THEN
       <<"output-instruction-without-pair-or-inserted-instruction-with-pair", f.fi,
         ((DOMAIN f.outops) \ Inserted(f)) \ {P[q][2] : q \in DOMAIN P}, {P[q][2] : q \in DOMAIN P} \cap Inserted(f)>>
  ELSE <<"ok">>

Verdict(c) ==
  IF c.outcome # "ok" THEN <<"outcome", c.outcome>>
  ELSE IF ~c.captured THEN <<"code-transform-not-delivered">>
  \* (a module without local functions has no code section; nothing is measured from its start then)
  ELSE IF c.nfuncs_out > 0 /\ c.code_section_start # c.out_code_at THEN <<"code-section-start", c.code_section_start, c.out_code_at, c.nfuncs_out>>
  ELSE IF Ran(c.ranges) # Ran(c.out_entries) \/ Len(c.ranges) # Len(c.out_entries) THEN <<"function-ranges", c.ranges, c.out_entries>>
  ELSE IF c.stray_pairs # 0 THEN <<"pair-for-code-that-was-not-emitted", c.stray_pairs>>
  ELSE LET bad == {q \in DOMAIN c.funcs : FuncVerdict(c, c.funcs[q])[1] # "ok"} IN
       IF bad = {} THEN <<"ok">> ELSE FuncVerdict(c, c.funcs[CHOOSE q \in bad : \A x \in bad : q <= x])

Judge(c) == LET v == Verdict(c) IN
            IF v[1] = "ok" \/ PrintT("REJECT " \o ToJson(<<c.id>> \o v)) THEN v[1] ELSE v[1]

Init == k \in 1..Len(Cases) /\ verdict = "pending"
Next == verdict = "pending" /\ verdict' = Judge(Cases[k]) /\ UNCHANGED k
Spec == Init /\ [][Next]_vars
Accepted == verdict \in {"pending", "ok"}
=============================================================================
