--------------------------- MODULE Enum_Families ---------------------------
(* Writes one family as ndjson (one abstract module per line) for the harness to concretise. *)
EXTENDS Families, Json, IOUtils
Which == IOEnv.FAMILY
Chosen == CASE Which = "calls" -> FamCalls [] Which = "globals" -> FamGlobals
            [] Which = "tables" -> FamTables [] Which = "memories" -> FamMemories
VARIABLE dumped
Init == dumped = ndJsonSerialize(IOEnv.OUTFILE, SetToSeq(Chosen))
Next == UNCHANGED dumped
Spec == Init /\ [][Next]_dumped
=============================================================================
