//! Replay of TLC-generated behaviours of Types.tla on a real Module: the type section and functions of the history's
//! parse prefix become a wasm binary, the API edits are performed through the public API, and after every step the
//! observable facts are logged: the signatures `module.types.iter()` yields, the signature of every function of the
//! history, and (on emit) the type section that was written.

use crate::absmod;
use crate::run;
use serde_json::{json, Value as Json};
use std::panic::{catch_unwind, AssertUnwindSafe};
use walrus::ir::InstrSeqType;
use walrus::*;

fn vts(v: &Json) -> Vec<ValType> {
    v.as_array().map(|a| a.iter().map(|t| if t == "f64" { ValType::F64 } else { ValType::I32 }).collect()).unwrap_or_default()
}
fn we_vts(v: &[ValType]) -> Vec<wasm_encoder::ValType> {
    v.iter().map(|t| if *t == ValType::F64 { wasm_encoder::ValType::F64 } else { wasm_encoder::ValType::I32 }).collect()
}
fn sig_str(p: &[ValType], r: &[ValType]) -> String {
    let f = |x: &[ValType]| x.iter().map(|t| if *t == ValType::F64 { "f64" } else { "i32" }).collect::<Vec<_>>().join(",");
    format!("({})->({})", f(p), f(r))
}
fn push_we(f: &mut wasm_encoder::Function, t: &ValType) {
    use wasm_encoder::Instruction as I;
    if *t == ValType::F64 {
        f.instruction(&I::F64Const(1.5));
    } else {
        f.instruction(&I::I32Const(1));
    }
}

/// the wasm binary of the parse prefix (ptype / pfunc operations)
pub fn binary_of(hist: &[Json]) -> Vec<u8> {
    use wasm_encoder as we;
    use wasm_encoder::Instruction as I;
    let types: Vec<(Vec<ValType>, Vec<ValType>)> = hist.iter().filter(|e| e["op"] == "ptype").map(|e| (vts(&e["p"]), vts(&e["r"]))).collect();
    let funcs: Vec<&Json> = hist.iter().filter(|e| e["op"] == "pfunc").collect();
    let mut m = we::Module::new();
    let mut ts = we::TypeSection::new();
    for (p, r) in &types {
        ts.function(we_vts(p), we_vts(r));
    }
    m.section(&ts);
    let nimp = funcs.iter().filter(|f| f["imported"] == true).count();
    if nimp > 0 {
        let mut is = we::ImportSection::new();
        for (k, f) in funcs.iter().enumerate().filter(|(_, f)| f["imported"] == true) {
            is.import("env", &format!("f{}", k), we::EntityType::Function(f["ti"].as_u64().unwrap() as u32));
        }
        m.section(&is);
    }
    let locals: Vec<(usize, &Json)> = funcs.iter().enumerate().filter(|(_, f)| f["imported"] != true).map(|(k, f)| (k, *f)).collect();
    if !locals.is_empty() {
        let mut fs = we::FunctionSection::new();
        for (_, f) in &locals {
            fs.function(f["ti"].as_u64().unwrap() as u32);
        }
        m.section(&fs);
    }
    if funcs.iter().any(|f| f["use"].as_array().map(|u| !u.is_empty() && u[0] == "calli").unwrap_or(false)) {
        let mut tb = we::TableSection::new();
        tb.table(we::TableType { element_type: we::RefType::FUNCREF, table64: false, minimum: 1, maximum: None, shared: false });
        m.section(&tb);
    }
    let roots: Vec<usize> = funcs.iter().enumerate().filter(|(_, f)| f["root"] == true).map(|(k, _)| k).collect();
    if !roots.is_empty() {
        let mut es = we::ExportSection::new();
        for k in roots {
            es.export(&format!("r{}", k), we::ExportKind::Func, k as u32);
        }
        m.section(&es);
    }
    if !locals.is_empty() {
        let mut cs = we::CodeSection::new();
        for (_, f) in &locals {
            let (_, r) = &types[f["ti"].as_u64().unwrap() as usize];
            let mut body = we::Function::new([]);
            if let Some(u) = f["use"].as_array().filter(|u| !u.is_empty()) {
                let tj = u[1].as_u64().unwrap() as u32;
                let (bp, br) = &types[tj as usize];
                for t in bp {
                    push_we(&mut body, t);
                }
                if u[0] == "calli" {
                    body.instruction(&I::I32Const(0));
                    body.instruction(&I::CallIndirect { type_index: tj, table_index: 0 });
                } else {
                    // always through the type index, whatever the arity: walrus decides the form of the block type itself
                    body.instruction(&I::Block(we::BlockType::FunctionType(tj)));
                    for _ in bp {
                        body.instruction(&I::Drop);
                    }
                    for t in br {
                        push_we(&mut body, t);
                    }
                    body.instruction(&I::End);
                }
                for _ in br {
                    body.instruction(&I::Drop);
                }
            }
            for t in r {
                push_we(&mut body, t);
            }
            body.instruction(&I::End);
            cs.function(&body);
        }
        m.section(&cs);
    }
    m.finish()
}

fn observe(m: &Module, funcs: &[Option<FunctionId>]) -> Json {
    // a panic while looking at the module (an id that resolves to nothing) is an observation too
    match catch_unwind(AssertUnwindSafe(|| observe_inner(m, funcs))) {
        Ok(j) => j,
        Err(p) => json!({"skip": false, "types": [format!("<panic:{}>", run::short(&run::panic_msg(p)))], "functy": []}),
    }
}

fn observe_inner(m: &Module, funcs: &[Option<FunctionId>]) -> Json {
    let mut tys: Vec<String> = m.types.iter().map(|t| sig_str(t.params(), t.results())).collect();
    tys.sort();
    let functy: Vec<String> = funcs
        .iter()
        .map(|f| match f {
            Some(id) if m.funcs.iter().any(|g| g.id() == *id) => {
                let t = m.types.get(m.funcs.get(*id).ty());
                sig_str(t.params(), t.results())
            }
            _ => "dead".to_string(),
        })
        .collect();
    json!({"skip": false, "types": tys, "functy": functy})
}

pub fn replay(id: &str, hist: &[Json]) -> Json {
    match catch_unwind(AssertUnwindSafe(|| replay_inner(id, hist))) {
        Ok(j) => j,
        Err(p) => json!({"id": id, "source": format!("types:{}", id), "outcome": format!("panic:{}", run::short(&run::panic_msg(p))), "in_valid": true, "events": []}),
    }
}

fn replay_inner(id: &str, hist: &[Json]) -> Json {
    let bytes = binary_of(hist);
    let in_valid = absmod::validate(&bytes).is_ok();
    let cfg = run::Cfg { probe: false, ..Default::default() };
    let parsed = match run::parse(&bytes, &cfg) {
        Ok(p) => p,
        Err(e) => return json!({"id": id, "source": format!("types:{}", id), "outcome": format!("parse-{}", e), "in_valid": in_valid, "events": []}),
    };
    let mut m = parsed.module;
    // spec function k (parse order = wasm index order: imports first) -> FunctionId
    let nparsed = hist.iter().filter(|e| e["op"] == "pfunc").count();
    let mut funcs: Vec<Option<FunctionId>> = (0..nparsed).map(|k| parsed.maps.func.get(k).and_then(|aid| m.funcs.iter().map(|f| f.id()).find(|i| i.index() as i32 == *aid))).collect();
    let mut events = vec![];
    let mut seen_parse_obs = false;
    for e in hist {
        let op = e["op"].as_str().unwrap();
        if op == "ptype" || op == "pfunc" {
            // the parse prefix is observed once, after its last operation
            events.push(json!({"op": op, "e": e, "outcome": "ok", "out_valid": true, "written": [], "obs": {"skip": true, "types": [], "functy": []}}));
            continue;
        }
        if !seen_parse_obs {
            seen_parse_obs = true;
            if let Some(last) = events.last_mut() {
                last["obs"] = observe(&m, &funcs);
            }
        }
        let r = catch_unwind(AssertUnwindSafe(|| -> Json {
            match op {
                "build" => {
                    let (p, r) = (vts(&e["p"]), vts(&e["r"]));
                    let args: Vec<LocalId> = p.iter().map(|t| m.locals.add(*t)).collect();
                    let mut b = FunctionBuilder::new(&mut m.types, &p, &r);
                    let blk = e["blk"].as_array().filter(|b| !b.is_empty()).map(|b| (vts(&b[0]), vts(&b[1])));
                    let push = |s: &mut InstrSeqBuilder, t: &ValType| {
                        if *t == ValType::F64 {
                            s.f64_const(1.5);
                        } else {
                            s.i32_const(1);
                        }
                    };
                    if let Some((bp, br)) = &blk {
                        // every other built function asks for a type that is already there first (`existing` must hand back
                        // what `new` would: never an entry type, which is not written to the type section)
                        let ty = match if funcs.len() % 2 == 0 { InstrSeqType::existing(&m.types, bp, br) } else { None } {
                            Some(t) => t,
                            None => InstrSeqType::new(&mut m.types, bp, br),
                        };
                        let mut body = b.func_body();
                        for t in bp {
                            push(&mut body, t);
                        }
                        body.block(ty, |s| {
                            for _ in bp {
                                s.drop();
                            }
                            for t in br {
                                push(s, t);
                            }
                        });
                        for _ in br {
                            body.drop();
                        }
                    }
                    {
                        let mut body = b.func_body();
                        for t in &r {
                            push(&mut body, t);
                        }
                    }
                    let f = b.finish(args, &mut m.funcs);
                    if e["root"] == true {
                        m.exports.add(&format!("b{}", funcs.len()), f);
                    }
                    funcs.push(Some(f));
                    json!({"outcome": "ok", "out_valid": true, "written": []})
                }
                "findadd" => {
                    let (p, r) = (vts(&e["p"]), vts(&e["r"]));
                    let before: Vec<TypeId> = m.types.iter().map(|t| t.id()).collect();
                    let found = m.types.find(&p, &r);
                    let added = m.types.add(&p, &r);
                    // find reports the type add returns, or nothing when add makes a new one
                    let agree = match found {
                        Some(x) => x == added,
                        None => !before.contains(&added),
                    };
                    json!({"outcome": "ok", "out_valid": true, "written": [], "agree": agree, "found": found.is_some()})
                }
                "nametype" => {
                    let (p, r) = (vts(&e["p"]), vts(&e["r"]));
                    match m.types.find(&p, &r) {
                        Some(id) => {
                            m.types.get_mut(id).name = Some("named".to_string());
                            json!({"outcome": "ok", "out_valid": true, "written": []})
                        }
                        None => json!({"outcome": "type-not-found", "out_valid": false, "written": []}),
                    }
                }
                "delete" => {
                    let k = e["f"].as_u64().unwrap() as usize;
                    if let Some(f) = funcs[k] {
                        let ex: Vec<ExportId> = m.exports.iter().filter(|x| matches!(x.item, ExportItem::Function(g) if g == f)).map(|x| x.id()).collect();
                        for x in ex {
                            m.exports.delete(x);
                        }
                        if let Some(imp) = m.imports.get_imported_func(f).map(|i| i.id()) {
                            m.imports.delete(imp);
                        }
                        m.funcs.delete(f);
                    }
                    json!({"outcome": "ok", "out_valid": true, "written": []})
                }
                "root" => {
                    let k = e["f"].as_u64().unwrap() as usize;
                    if let Some(f) = funcs[k] {
                        if e["b"] == true {
                            m.exports.add(&format!("x{}", k), f);
                        } else {
                            let ex: Vec<ExportId> = m.exports.iter().filter(|x| matches!(x.item, ExportItem::Function(g) if g == f)).map(|x| x.id()).collect();
                            for x in ex {
                                m.exports.delete(x);
                            }
                        }
                    }
                    json!({"outcome": "ok", "out_valid": true, "written": []})
                }
                "gc" => {
                    walrus::passes::gc::run(&mut m);
                    json!({"outcome": "ok", "out_valid": true, "written": []})
                }
                "emit" => {
                    let out = m.emit_wasm();
                    let valid = absmod::validate(&out).is_ok();
                    let am = absmod::project(&out).unwrap_or_default();
                    let mut written: Vec<String> = am.types.clone();
                    written.sort();
                    json!({"outcome": "ok", "out_valid": valid, "written": written})
                }
                _ => json!({"outcome": "unknown-op", "out_valid": false, "written": []}),
            }
        }));
        let mut ev = match r {
            Ok(j) => j,
            Err(p) => json!({"outcome": format!("panic:{}", run::short(&run::panic_msg(p))), "out_valid": false, "written": []}),
        };
        ev["op"] = json!(op);
        ev["e"] = e.clone();
        ev["obs"] = observe(&m, &funcs);
        events.push(ev);
    }
    json!({"id": id, "source": format!("types:{}", id), "outcome": "ok", "in_valid": in_valid, "events": events})
}
