//! The operator table: every wasmparser operator of walrus's feature set, instantiated with boundary
//! immediates, with operand and result types *discovered by probing the independent validator*
//! (so the generator cannot silently skip an operator, and nothing here is hand-typed).

use rayon::prelude::*;
use std::collections::{BTreeMap, BTreeSet, HashMap};
use std::panic::{catch_unwind, AssertUnwindSafe};
use std::sync::OnceLock;
use wasm_encoder as we;
use wasm_encoder::reencode::Reencode;
use wasmparser::{self as wp, Operator};

use crate::absmod::{project_op, walrus_features, OpCx};

#[derive(Clone, Copy, PartialEq, Eq, Hash, Debug, PartialOrd, Ord)]
pub enum T {
    I32,
    I64,
    F32,
    F64,
    V128,
    FuncRef,
    ExternRef,
}
pub const TS: [T; 7] = [T::I32, T::I64, T::F32, T::F64, T::V128, T::FuncRef, T::ExternRef];
impl T {
    pub fn we(self) -> we::ValType {
        match self {
            T::I32 => we::ValType::I32,
            T::I64 => we::ValType::I64,
            T::F32 => we::ValType::F32,
            T::F64 => we::ValType::F64,
            T::V128 => we::ValType::V128,
            T::FuncRef => we::ValType::Ref(we::RefType::FUNCREF),
            T::ExternRef => we::ValType::Ref(we::RefType::EXTERNREF),
        }
    }
    pub fn name(self) -> &'static str {
        match self {
            T::I32 => "i32",
            T::I64 => "i64",
            T::F32 => "f32",
            T::F64 => "f64",
            T::V128 => "v128",
            T::FuncRef => "funcref",
            T::ExternRef => "externref",
        }
    }
    pub fn is_ref(self) -> bool {
        matches!(self, T::FuncRef | T::ExternRef)
    }
    pub fn is_num(self) -> bool {
        !self.is_ref()
    }
    pub fn idx(self) -> usize {
        TS.iter().position(|t| *t == self).unwrap()
    }
}
pub fn func_heap() -> we::HeapType {
    we::HeapType::Abstract { shared: false, ty: we::AbstractHeapType::Func }
}
pub fn extern_heap() -> we::HeapType {
    we::HeapType::Abstract { shared: false, ty: we::AbstractHeapType::Extern }
}
pub fn zero_of(t: T) -> we::Instruction<'static> {
    use we::Instruction as I;
    match t {
        T::I32 => I::I32Const(0),
        T::I64 => I::I64Const(0),
        T::F32 => I::F32Const(0.0),
        T::F64 => I::F64Const(0.0),
        T::V128 => I::V128Const(0),
        T::FuncRef => I::RefNull(func_heap()),
        T::ExternRef => I::RefNull(extern_heap()),
    }
}

// ---- boundary immediates ---------------------------------------------------------------------

trait Gen: Sized {
    fn gen(field: &str) -> Vec<Self>;
}
impl Gen for u32 {
    fn gen(field: &str) -> Vec<u32> {
        match field {
            "relative_depth" => vec![0],
            "local_index" => (0..7).collect(),
            "global_index" => (0..7).collect(),
            "mem" | "src_mem" | "dst_mem" => vec![0, 1, 2],
            "table_index" | "table" | "src_table" | "dst_table" => vec![0, 1, 2],
            "function_index" => vec![0, 1],
            "type_index" => vec![0],
            "data_index" | "array_data_index" => vec![0, 1],
            "elem_index" | "array_elem_index" => vec![0, 1],
            _ => vec![0],
        }
    }
}
impl Gen for u8 {
    fn gen(_: &str) -> Vec<u8> {
        (0..=16).collect()
    }
}
impl Gen for i32 {
    fn gen(_: &str) -> Vec<i32> {
        vec![0, 1, -1, i32::MIN, i32::MAX, 0x40, -0x41, 63, 64, -64, -65, 8191, 8192]
    }
}
impl Gen for i64 {
    fn gen(_: &str) -> Vec<i64> {
        vec![0, 1, -1, i64::MIN, i64::MAX, 1 << 32, -(1 << 32) - 1, 63, 64, -64, -65]
    }
}
fn read_one(bytes: &[u8]) -> Operator<'static> {
    // immediates of these operators own no borrowed data
    let mut r = wp::BinaryReader::new(bytes, 0, wp::WasmFeatures::all());
    let op = r.read_operator().unwrap();
    unsafe { std::mem::transmute::<Operator<'_>, Operator<'static>>(op) }
}
pub fn ieee32(b: u32) -> wp::Ieee32 {
    let mut v = vec![0x43];
    v.extend_from_slice(&b.to_le_bytes());
    match read_one(&v) {
        Operator::F32Const { value } => value,
        _ => unreachable!(),
    }
}
pub fn ieee64(b: u64) -> wp::Ieee64 {
    let mut v = vec![0x44];
    v.extend_from_slice(&b.to_le_bytes());
    match read_one(&v) {
        Operator::F64Const { value } => value,
        _ => unreachable!(),
    }
}
pub fn v128(b: [u8; 16]) -> wp::V128 {
    let mut v = vec![0xfd, 0x0c];
    v.extend_from_slice(&b);
    match read_one(&v) {
        Operator::V128Const { value } => value,
        _ => unreachable!(),
    }
}
impl Gen for wp::Ieee32 {
    fn gen(_: &str) -> Vec<Self> {
        [0u32, 0x8000_0000, 0x7f80_0000, 0xff80_0000, 0x7fc0_0000, 0x7fa0_0001, 0xffc1_2345, 0x3f80_0000, 0x0000_0001].iter().map(|b| ieee32(*b)).collect()
    }
}
impl Gen for wp::Ieee64 {
    fn gen(_: &str) -> Vec<Self> {
        [0u64, 1 << 63, 0x7ff0_0000_0000_0000, 0xfff0_0000_0000_0000, 0x7ff8_0000_0000_0000, 0x7ff4_0000_0000_0001, 0xfff8_1234_5678_9abc, 0x3ff0_0000_0000_0000, 1].iter().map(|b| ieee64(*b)).collect()
    }
}
impl Gen for wp::V128 {
    fn gen(_: &str) -> Vec<Self> {
        vec![v128([0; 16]), v128([0xff; 16]), v128([1, 2, 3, 4, 5, 6, 7, 8, 9, 10, 11, 12, 13, 14, 15, 0x80]), v128([0, 0, 0xc0, 0x7f, 1, 0, 0xa0, 0x7f, 0, 0, 0, 0x80, 0xff, 0xff, 0xff, 0xff])]
    }
}
impl Gen for [u8; 16] {
    fn gen(_: &str) -> Vec<Self> {
        vec![[0; 16], [31; 16], [0, 1, 2, 3, 4, 5, 6, 7, 8, 9, 10, 11, 12, 13, 14, 15], [31, 30, 29, 28, 27, 26, 25, 24, 23, 22, 21, 20, 19, 18, 17, 16], [0, 16, 1, 17, 2, 18, 3, 19, 4, 20, 5, 21, 6, 22, 7, 23]]
    }
}
impl Gen for wp::MemArg {
    fn gen(_: &str) -> Vec<Self> {
        let mut v = vec![];
        for memory in [0u32, 1, 2] {
            for align in 0u8..=4 {
                for offset in [0u64, 1, 127, 128, 0xffff_ffff, 0x1_0000_0000, 0x1_0000_0001, u64::MAX >> 1] {
                    if memory != 1 && offset > 0xffff_ffff {
                        continue;
                    }
                    if memory == 2 && ![0u64, 128].contains(&offset) {
                        continue;
                    }
                    v.push(wp::MemArg { align, max_align: align, offset, memory });
                }
            }
        }
        v
    }
}
impl Gen for wp::BlockType {
    fn gen(_: &str) -> Vec<Self> {
        vec![wp::BlockType::Empty]
    }
}
impl Gen for wp::ValType {
    fn gen(_: &str) -> Vec<Self> {
        vec![wp::ValType::I32, wp::ValType::I64, wp::ValType::F32, wp::ValType::F64, wp::ValType::V128, wp::ValType::FUNCREF, wp::ValType::EXTERNREF]
    }
}
impl Gen for wp::HeapType {
    fn gen(_: &str) -> Vec<Self> {
        vec![wp::HeapType::Abstract { shared: false, ty: wp::AbstractHeapType::Func }, wp::HeapType::Abstract { shared: false, ty: wp::AbstractHeapType::Extern }]
    }
}
impl Gen for wp::RefType {
    fn gen(_: &str) -> Vec<Self> {
        vec![wp::RefType::FUNCREF]
    }
}
impl Gen for wp::Ordering {
    fn gen(_: &str) -> Vec<Self> {
        vec![wp::Ordering::SeqCst]
    }
}
impl<'a> Gen for wp::BrTable<'a> {
    fn gen(_: &str) -> Vec<Self> {
        vec![]
    }
}
impl Gen for wp::TryTable {
    fn gen(_: &str) -> Vec<Self> {
        vec![]
    }
}

macro_rules! enumerate {
    ($( @$proposal:ident $op:ident $({ $($arg:ident: $argty:ty),* })? => $visit:ident)*) => {
        fn all_ops<'a>() -> Vec<(&'static str, &'static str, Operator<'a>)> {
            let mut out = vec![];
            $( enumerate!(one out $proposal $op $({ $($arg: $argty),* })?); )*
            out
        }
        pub fn all_op_names() -> Vec<(&'static str, &'static str)> {
            vec![ $( (stringify!($proposal), stringify!($op)), )* ]
        }
    };
    (one $out:ident $proposal:ident $op:ident) => { $out.push((stringify!($proposal), stringify!($op), Operator::$op)); };
    (one $out:ident $proposal:ident $op:ident { $a:ident: $at:ty }) => { for $a in <$at as Gen>::gen(stringify!($a)) { $out.push((stringify!($proposal), stringify!($op), Operator::$op { $a })); } };
    (one $out:ident $proposal:ident $op:ident { $a:ident: $at:ty, $b:ident: $bt:ty }) => { for $a in <$at as Gen>::gen(stringify!($a)) { for $b in <$bt as Gen>::gen(stringify!($b)) { $out.push((stringify!($proposal), stringify!($op), Operator::$op { $a: $a.clone(), $b })); } } };
    (one $out:ident $proposal:ident $op:ident { $a:ident: $at:ty, $b:ident: $bt:ty, $c:ident: $ct:ty }) => { for $a in <$at as Gen>::gen(stringify!($a)) { for $b in <$bt as Gen>::gen(stringify!($b)) { for $c in <$ct as Gen>::gen(stringify!($c)) { $out.push((stringify!($proposal), stringify!($op), Operator::$op { $a: $a.clone(), $b: $b.clone(), $c })); } } } };
}
wp::for_each_operator!(enumerate);

pub const SUPPORTED_PROPOSALS: [&str; 9] = ["mvp", "sign_extension", "saturating_float_to_int", "bulk_memory", "reference_types", "simd", "relaxed_simd", "threads", "tail_call"];
/// operators that need hand-written templates (structured control, label or local operands)
pub const STRUCTURED: [&str; 6] = ["Block", "Loop", "If", "Else", "End", "BrTable"];

// ---- the probe module ------------------------------------------------------------------------
// func 0 (probe) and 1: type ()->() ; table 0 funcref, 1 externref, 2 funcref ; memory 0 i32 shared, 1 i64 shared, 2 i32 shared ;
// (two entities of the same kind and type, so that operators with two operands of one kind can name different ones)
// globals 0..6 one mutable global per type ; elem 0 passive funcref funcs, 1 passive externref exprs ;
// data 0, 1 passive ; locals 0..6 of the probe function one per type.

pub fn probe_module(body: &dyn Fn(&mut we::Function)) -> Vec<u8> {
    use we::*;
    let mut m = Module::new();
    let mut types = TypeSection::new();
    types.function([], []);
    m.section(&types);
    let mut funcs = FunctionSection::new();
    funcs.function(0);
    funcs.function(0);
    m.section(&funcs);
    let mut tables = TableSection::new();
    tables.table(TableType { element_type: RefType::FUNCREF, table64: false, minimum: 4, maximum: None, shared: false });
    tables.table(TableType { element_type: RefType::EXTERNREF, table64: false, minimum: 4, maximum: None, shared: false });
    tables.table(TableType { element_type: RefType::FUNCREF, table64: false, minimum: 4, maximum: None, shared: false });
    m.section(&tables);
    let mut mems = MemorySection::new();
    mems.memory(MemoryType { minimum: 1, maximum: Some(2), memory64: false, shared: true, page_size_log2: None });
    mems.memory(MemoryType { minimum: 1, maximum: Some(2), memory64: true, shared: true, page_size_log2: None });
    mems.memory(MemoryType { minimum: 1, maximum: Some(2), memory64: false, shared: true, page_size_log2: None });
    m.section(&mems);
    let mut globals = GlobalSection::new();
    for t in TS {
        let init = match t {
            T::I32 => ConstExpr::i32_const(0),
            T::I64 => ConstExpr::i64_const(0),
            T::F32 => ConstExpr::f32_const(0.0),
            T::F64 => ConstExpr::f64_const(0.0),
            T::V128 => ConstExpr::v128_const(0),
            T::FuncRef => ConstExpr::ref_null(func_heap()),
            T::ExternRef => ConstExpr::ref_null(extern_heap()),
        };
        globals.global(GlobalType { val_type: t.we(), mutable: true, shared: false }, &init);
    }
    m.section(&globals);
    let mut exports = ExportSection::new();
    exports.export("f", ExportKind::Func, 0);
    exports.export("g", ExportKind::Func, 1);
    m.section(&exports);
    let mut elems = ElementSection::new();
    elems.passive(Elements::Functions(&[1]));
    elems.passive(Elements::Expressions(RefType::EXTERNREF, &[]));
    m.section(&elems);
    m.section(&DataCountSection { count: 2 });
    let mut code = CodeSection::new();
    let mut f = Function::new(TS.iter().map(|t| (1u32, t.we())));
    body(&mut f);
    code.function(&f);
    let mut g = Function::new([]);
    g.instruction(&Instruction::End);
    code.function(&g);
    m.section(&code);
    let mut data = DataSection::new();
    data.passive([1u8, 2]);
    data.passive([3u8]);
    m.section(&data);
    m.finish()
}

/// what an entity operand of a probed operator stands for
#[derive(Clone, Copy, PartialEq, Eq, Hash, Debug, PartialOrd, Ord)]
pub enum RefClass {
    FuncVoid,
    TypeVoid,
    TableFunc,
    TableExtern,
    Mem32,
    Mem64,
    Global(T),
    Data,
    ElemFunc,
    ElemExtern,
}

#[derive(Clone, Debug)]
pub struct OpInst {
    pub name: &'static str,
    pub proposal: &'static str,
    pub op: Operator<'static>,
    pub inputs: Vec<T>,
    pub outputs: Vec<T>,
    /// (class, index in the probe module) of each entity operand, in projection order
    pub refs: Vec<(RefClass, u32)>,
    pub has_local: bool,
    /// terminators (br/return/unreachable/return_call*) leave the stack polymorphic
    pub terminator: bool,
}

fn classify(space: &str, idx: u32) -> RefClass {
    match (space, idx) {
        ("func", _) => RefClass::FuncVoid,
        ("type", _) => RefClass::TypeVoid,
        ("table", 1) => RefClass::TableExtern,
        ("table", _) => RefClass::TableFunc,
        ("memory", 1) => RefClass::Mem64,
        ("memory", _) => RefClass::Mem32,
        ("global", k) => RefClass::Global(TS[k as usize % 7]),
        ("data", _) => RefClass::Data,
        ("elem", 0) => RefClass::ElemFunc,
        ("elem", _) => RefClass::ElemExtern,
        _ => unreachable!(),
    }
}

pub fn reencode_plain(op: &Operator<'static>) -> Option<we::Instruction<'static>> {
    catch_unwind(AssertUnwindSafe(|| we::reencode::RoundtripReencoder.instruction(op.clone()).ok())).ok().flatten()
}

fn validates(inputs: &[T], ins: &we::Instruction<'static>, tail: &[we::Instruction<'static>]) -> bool {
    let w = match catch_unwind(AssertUnwindSafe(|| {
        probe_module(&|f| {
            for t in inputs {
                f.instruction(&zero_of(*t));
            }
            f.instruction(ins);
            for i in tail {
                f.instruction(i);
            }
            f.instruction(&we::Instruction::End);
        })
    })) {
        Ok(w) => w,
        Err(_) => return false,
    };
    wp::Validator::new_with_features(walrus_features(false)).validate_all(&w).is_ok()
}

fn candidate_typings() -> Vec<Vec<T>> {
    let mut c: Vec<Vec<T>> = vec![vec![]];
    for a in TS {
        c.push(vec![a]);
    }
    for a in TS {
        for b in TS {
            c.push(vec![a, b]);
        }
    }
    for a in TS {
        for b in TS {
            for d in TS {
                c.push(vec![a, b, d]);
            }
        }
    }
    c
}

pub struct OpTable {
    pub insts: Vec<OpInst>,
    pub names_all: BTreeSet<&'static str>,
    pub names_ok: BTreeSet<&'static str>,
    pub candidates: usize,
    pub by_output: HashMap<Option<T>, Vec<usize>>,
}

fn build() -> OpTable {
    let prev = std::panic::take_hook();
    std::panic::set_hook(Box::new(|_| {}));
    let ops: Vec<(&'static str, &'static str, Operator<'static>)> = all_ops::<'static>().into_iter().filter(|(p, n, _)| SUPPORTED_PROPOSALS.contains(p) && !STRUCTURED.contains(n)).collect();
    let candidates = ops.len();
    let names_all: BTreeSet<&'static str> = ops.iter().map(|x| x.1).collect();
    let cands = candidate_typings();
    let cx = OpCx { types: &[(vec![], vec![])] };
    // phase 1: discover one typing per (name, memory-64-ness) key
    let mut keys: BTreeMap<String, Vec<Operator<'static>>> = BTreeMap::new();
    let key_of = |name: &str, op: &Operator<'static>| {
        let a = project_op(op, &cx);
        // operand typing depends on the operator, on which memory/table/global it names, and on a value type immediate
        let refs: Vec<String> = a.refs.iter().filter(|(s, _)| s == "memory" || s == "table" || s == "global" || s == "elem").map(|(s, i)| format!("{}{}", s, i)).collect();
        let tyimm = if a.imm.contains("ty=") || a.imm.contains("hty=") { a.imm.clone() } else { String::new() };
        format!("{}|{}|{}|{}", name, refs.join(","), tyimm, a.local)
    };
    for (_, name, op) in &ops {
        keys.entry(key_of(name, op)).or_default().push(op.clone());
    }
    let unreachable = [we::Instruction::Unreachable];
    let sigs: HashMap<String, Vec<T>> = keys
        .par_iter()
        .filter_map(|(k, ops)| {
            // the alignment immediate of atomics must be exact: try each instance of the key until one types
            let mut seen = BTreeSet::new();
            for op in ops {
                let a = project_op(op, &cx);
                let align: String = a.imm.split(' ').filter(|x| x.starts_with("align=")).collect();
                if !seen.insert(align) {
                    continue;
                }
                let Some(ins) = reencode_plain(op) else { continue };
                for sig in &cands {
                    if validates(sig, &ins, &unreachable) {
                        return Some((k.clone(), sig.clone()));
                    }
                }
            }
            None
        })
        .collect();
    // phase 2: every instance, with its result type
    let insts: Vec<OpInst> = ops
        .par_iter()
        .filter_map(|(proposal, name, op)| {
            let ins = reencode_plain(op)?;
            let sig = sigs.get(&key_of(name, op))?;
            if !validates(sig, &ins, &unreachable) {
                return None;
            }
            let a = project_op(op, &cx);
            let mut outputs = None;
            let mut terminator = false;
            if validates(sig, &ins, &[]) {
                outputs = Some(vec![]);
                // a terminator also validates with anything after it
                if validates(sig, &ins, &[we::Instruction::I32Add, we::Instruction::Drop]) {
                    terminator = true;
                }
            } else {
                for t in TS {
                    if validates(sig, &ins, &[we::Instruction::LocalSet(t.idx() as u32)]) {
                        outputs = Some(vec![t]);
                        break;
                    }
                }
            }
            let outputs = outputs?;
            Some(OpInst {
                name,
                proposal,
                op: op.clone(),
                inputs: sig.clone(),
                outputs,
                refs: a.refs.iter().map(|(s, i)| (classify(s, *i), *i)).collect(),
                has_local: a.local >= 0,
                terminator,
            })
        })
        .collect();
    std::panic::set_hook(prev);
    let names_ok = insts.iter().map(|i| i.name).collect();
    let mut by_output: HashMap<Option<T>, Vec<usize>> = HashMap::new();
    for (k, i) in insts.iter().enumerate() {
        if i.has_local || i.terminator || matches!(i.name, "Br" | "BrIf") {
            continue;
        }
        by_output.entry(i.outputs.first().copied()).or_default().push(k);
    }
    OpTable { insts, names_all, names_ok, candidates, by_output }
}

static TABLE: OnceLock<OpTable> = OnceLock::new();
pub fn table() -> &'static OpTable {
    TABLE.get_or_init(build)
}

/// Re-targets the entity operands of a probed operator into another module.  Each operand is drawn
/// independently from the candidates of its class, so two operands of one kind may name different entities.
pub struct Remap {
    pub func: Vec<u32>,
    pub ty: u32,
    pub table_func: Vec<u32>,
    pub table_extern: Vec<u32>,
    pub mem32: Vec<u32>,
    pub mem64: Vec<u32>,
    pub global: [Vec<u32>; 7],
    pub data: Vec<u32>,
    pub elem_func: Vec<u32>,
    pub elem_extern: Vec<u32>,
    pub state: u64,
}
impl Remap {
    fn pick(&mut self, v: &[u32]) -> u32 {
        if v.is_empty() {
            return 0;
        }
        self.state = self.state.wrapping_mul(6364136223846793005).wrapping_add(1442695040888963407);
        v[((self.state >> 33) as usize) % v.len()]
    }
}
impl Reencode for Remap {
    type Error = std::convert::Infallible;
    fn function_index(&mut self, _i: u32) -> u32 {
        let v = self.func.clone();
        self.pick(&v)
    }
    fn type_index(&mut self, _i: u32) -> u32 {
        self.ty
    }
    fn table_index(&mut self, i: u32) -> u32 {
        let v = if i == 1 { self.table_extern.clone() } else { self.table_func.clone() };
        self.pick(&v)
    }
    fn memory_index(&mut self, i: u32) -> u32 {
        let v = if i == 1 { self.mem64.clone() } else { self.mem32.clone() };
        self.pick(&v)
    }
    fn global_index(&mut self, i: u32) -> u32 {
        let v = self.global[i as usize % 7].clone();
        self.pick(&v)
    }
    fn data_index(&mut self, _i: u32) -> u32 {
        let v = self.data.clone();
        self.pick(&v)
    }
    fn element_index(&mut self, i: u32) -> u32 {
        let v = if i == 1 { self.elem_extern.clone() } else { self.elem_func.clone() };
        self.pick(&v)
    }
}
