//! C10: synthesize well-formed DWARF for a wasm module (gimli::write), and read line rows and
//! subprograms back from a binary (gimli::read).  Addresses are code-section relative: measured from
//! the first byte of the code section's contents (its function count).

use crate::absmod::{self, AbsModule};
use gimli::write as gw;
use gimli::{Encoding, Format, LineEncoding, LittleEndian};
use serde_json::{json, Value as Json};

pub const LINE_STRIDE: u64 = 100_000;

#[derive(Clone, Copy, Debug)]
pub struct DwarfOpts {
    pub version: u16,
    /// one line sequence spanning all functions instead of one per function
    pub spanning: bool,
    /// a richer DIE tree: base types between the subprograms, every other subprogram inside a namespace, parameters,
    /// a lexical block (with its own low_pc / high_pc) and a variable inside each subprogram
    pub nested: bool,
}

/// Append synthesized .debug_* sections: one subprogram per local function (low_pc = start of the function's
/// code-section entry, high_pc = its length), one line row per instruction (line = function * LINE_STRIDE + k).
pub fn attach(bytes: &[u8], o: DwarfOpts) -> Option<Vec<u8>> {
    let m = absmod::project(bytes).ok()?;
    if m.code_at < 0 {
        return None;
    }
    let code = m.code_at as u64;
    let encoding = Encoding { format: Format::Dwarf32, version: o.version, address_size: 4 };
    let mut dwarf = gw::DwarfUnit::new(encoding);
    // all names of one line program share one string form: inline (any version), or a reference into .debug_str /
    // .debug_line_str (version 5); which one depends on the module so that all three occur
    let form = if o.version >= 5 { bytes.len() % 3 } else { 0 };
    let mut mk = |dwarf: &mut gw::DwarfUnit, t: &[u8]| match form {
        1 => gw::LineString::StringRef(dwarf.strings.add(t)),
        2 => gw::LineString::LineStringRef(dwarf.line_strings.add(t)),
        _ => gw::LineString::String(t.to_vec()),
    };
    let comp_dir = mk(&mut dwarf, b"/src");
    let comp_file = mk(&mut dwarf, b"main.c");
    let mut program = gw::LineProgram::new(encoding, LineEncoding::default(), comp_dir, comp_file.clone(), None);
    let dir = program.default_directory();
    let file1 = program.add_file(mk(&mut dwarf, b"a.c"), dir, None);
    let file2 = program.add_file(mk(&mut dwarf, b"b.c"), dir, None);
    let locals: Vec<&absmod::AbsFunc> = m.funcs.iter().filter(|f| !f.imported).collect();
    if locals.is_empty() {
        return None;
    }
    let emit_rows = |program: &mut gw::LineProgram, f: &absmod::AbsFunc, base: u64| {
        for (k, op) in f.ops.iter().enumerate() {
            let row = program.row();
            row.address_offset = op.at as u64 - code - base;
            row.file = if f.idx % 2 == 0 { file1 } else { file2 };
            row.line = f.idx as u64 * LINE_STRIDE + k as u64 + 1;
            row.column = (k as u64 % 50) + 1;
            row.is_statement = k % 3 != 0;
            program.generate_row();
        }
    };
    if o.spanning {
        let first = locals[0];
        let base = first.entry_at as u64 - code;
        program.begin_sequence(Some(gw::Address::Constant(base)));
        for f in &locals {
            emit_rows(&mut program, f, base);
        }
        let last = locals[locals.len() - 1];
        program.end_sequence(last.end_at as u64 - code - base);
    } else {
        for f in &locals {
            let base = f.entry_at as u64 - code;
            program.begin_sequence(Some(gw::Address::Constant(base)));
            emit_rows(&mut program, f, base);
            program.end_sequence(f.end_at as u64 - code - base);
        }
    }
    dwarf.unit.line_program = program;
    let root = dwarf.unit.root();
    {
        let e = dwarf.unit.get_mut(root);
        e.set(gimli::DW_AT_name, gw::AttributeValue::String(b"main.c".to_vec()));
        e.set(gimli::DW_AT_low_pc, gw::AttributeValue::Address(gw::Address::Constant(0)));
    }
    let ns = if o.nested {
        let id = dwarf.unit.add(root, gimli::DW_TAG_namespace);
        dwarf.unit.get_mut(id).set(gimli::DW_AT_name, gw::AttributeValue::String(b"ns".to_vec()));
        Some(id)
    } else {
        None
    };
    for (k, f) in locals.iter().enumerate() {
        if o.nested && k % 2 == 1 {
            let t = dwarf.unit.add(root, gimli::DW_TAG_base_type);
            let e = dwarf.unit.get_mut(t);
            e.set(gimli::DW_AT_name, gw::AttributeValue::String(format!("t{}", k).into_bytes()));
            e.set(gimli::DW_AT_byte_size, gw::AttributeValue::Udata(4));
        }
        let parent = match ns {
            Some(n) if k % 2 == 0 => n,
            _ => root,
        };
        let id = dwarf.unit.add(parent, gimli::DW_TAG_subprogram);
        let e = dwarf.unit.get_mut(id);
        e.set(gimli::DW_AT_name, gw::AttributeValue::String(format!("f{}", f.idx).into_bytes()));
        e.set(gimli::DW_AT_low_pc, gw::AttributeValue::Address(gw::Address::Constant(f.entry_at as u64 - code)));
        e.set(gimli::DW_AT_high_pc, gw::AttributeValue::Udata((f.end_at - f.entry_at) as u64));
        if o.nested {
            let p = dwarf.unit.add(id, gimli::DW_TAG_formal_parameter);
            dwarf.unit.get_mut(p).set(gimli::DW_AT_name, gw::AttributeValue::String(b"p".to_vec()));
            if let (Some(first), Some(last)) = (f.ops.first(), f.ops.last()) {
                // from the first instruction to the start of the last one (the function's final `end`)
                let b = dwarf.unit.add(id, gimli::DW_TAG_lexical_block);
                let e = dwarf.unit.get_mut(b);
                e.set(gimli::DW_AT_low_pc, gw::AttributeValue::Address(gw::Address::Constant(first.at as u64 - code)));
                e.set(gimli::DW_AT_high_pc, gw::AttributeValue::Udata((last.at - first.at) as u64));
                let v = dwarf.unit.add(b, gimli::DW_TAG_variable);
                dwarf.unit.get_mut(v).set(gimli::DW_AT_name, gw::AttributeValue::String(b"v".to_vec()));
            }
        }
    }
    let mut sections = gw::Sections::new(gw::EndianVec::new(LittleEndian));
    dwarf.write(&mut sections).ok()?;
    let mut out = bytes.to_vec();
    let mut ok = true;
    sections
        .for_each(|id, data| -> Result<(), ()> {
            if !data.slice().is_empty() {
                let mut module_tail = wasm_encoder::Module::new();
                let _ = &mut module_tail;
                let sec = wasm_encoder::CustomSection { name: id.name().into(), data: data.slice().into() };
                let mut buf = vec![];
                wasm_encoder::Section::append_to(&sec, &mut buf);
                out.extend_from_slice(&buf);
            }
            Ok(())
        })
        .unwrap_or_else(|_| ok = false);
    if ok {
        Some(out)
    } else {
        None
    }
}

/// DWARF 5 numbers files from 0 (the primary source file); gimli::write never emits a row naming file 0, so one
/// `DW_LNS_set_file` operand of the synthesized program is patched to 0 -- accepted only if the patched program reads
/// back with the same rows at the same addresses and some row now names file 0.
pub fn patch_row_to_file0(bytes: &[u8]) -> Option<Vec<u8>> {
    let (rows0, _) = read_back(bytes).ok()?;
    // locate the .debug_line payload
    let mut at = None;
    for p in wasmparser::Parser::new(0).parse_all(bytes) {
        if let Ok(wasmparser::Payload::CustomSection(c)) = p {
            if c.name() == ".debug_line" {
                at = Some(c.data_offset()..c.data_offset() + c.data().len());
            }
        }
    }
    let range = at?;
    for p in range.start..range.end.saturating_sub(1) {
        if bytes[p] == 0x04 && (bytes[p + 1] == 1 || bytes[p + 1] == 2) {
            let mut b = bytes.to_vec();
            b[p + 1] = 0;
            if let Ok((rows, _)) = read_back(&b) {
                let same = rows.len() == rows0.len() && rows.iter().zip(rows0.iter()).all(|(x, y)| x["addr"] == y["addr"] && x["line"] == y["line"]);
                if same && rows.iter().any(|r| r["fidx"] == 0) {
                    return Some(b);
                }
            }
        }
    }
    None
}

/// a compile unit with a name and nothing else (for modules without code)
pub fn attach_minimal(bytes: &[u8], version: u16) -> Vec<u8> {
    let encoding = Encoding { format: Format::Dwarf32, version, address_size: 4 };
    let mut dwarf = gw::DwarfUnit::new(encoding);
    let root = dwarf.unit.root();
    dwarf.unit.get_mut(root).set(gimli::DW_AT_name, gw::AttributeValue::String(b"nocode.c".to_vec()));
    let mut sections = gw::Sections::new(gw::EndianVec::new(LittleEndian));
    let mut out = bytes.to_vec();
    if dwarf.write(&mut sections).is_ok() {
        let _ = sections.for_each(|id, data| -> Result<(), ()> {
            if !data.slice().is_empty() {
                let sec = wasm_encoder::CustomSection { name: id.name().into(), data: data.slice().into() };
                wasm_encoder::Section::append_to(&sec, &mut out);
            }
            Ok(())
        });
    }
    out
}

/// line rows and subprograms found in a binary's .debug_* sections
pub fn read_back(bytes: &[u8]) -> Result<(Vec<Json>, Vec<Json>), String> {
    let mut secs: std::collections::HashMap<String, Vec<u8>> = Default::default();
    for p in wasmparser::Parser::new(0).parse_all(bytes) {
        if let Ok(wasmparser::Payload::CustomSection(c)) = p {
            if c.name().starts_with(".debug") {
                secs.insert(c.name().to_string(), c.data().to_vec());
            }
        }
    }
    let load = |id: gimli::SectionId| -> Result<Vec<u8>, gimli::Error> { Ok(secs.get(id.name()).cloned().unwrap_or_default()) };
    let owned = gimli::read::Dwarf::load(load).map_err(|e| e.to_string())?;
    let dwarf = owned.borrow(|s| gimli::EndianSlice::new(s.as_slice(), LittleEndian));
    let mut rows = vec![];
    let mut subs = vec![];
    let mut units = dwarf.units();
    while let Some(h) = units.next().map_err(|e| e.to_string())? {
        let unit = dwarf.unit(h).map_err(|e| e.to_string())?;
        if let Some(lp) = unit.line_program.clone() {
            let mut r = lp.rows();
            while let Some((h, row)) = r.next_row().map_err(|e| e.to_string())? {
                // the file a row names, by name (its index is the line program's own business)
                let fname = match row.file(h) {
                    Some(f) => dwarf.attr_string(&unit, f.path_name()).map(|s| String::from_utf8_lossy(s.slice()).to_string()).unwrap_or_else(|_| "?".into()),
                    None => format!("<no file {}>", row.file_index()),
                };
                rows.push(json!({"addr": row.address().to_string(), "line": row.line().map(|l| l.get()).unwrap_or(0), "col": match row.column() { gimli::ColumnType::LeftEdge => 0, gimli::ColumnType::Column(c) => c.get() },
                                 "file": fname, "fidx": row.file_index(), "stmt": row.is_stmt(), "end": row.end_sequence()}));
            }
        }
        let mut entries = unit.entries();
        while let Some((_, e)) = entries.next_dfs().map_err(|e| e.to_string())? {
            if e.tag() != gimli::DW_TAG_subprogram {
                continue;
            }
            let name = match e.attr_value(gimli::DW_AT_name).map_err(|e| e.to_string())? {
                Some(v) => dwarf.attr_string(&unit, v).map(|s| String::from_utf8_lossy(s.slice()).to_string()).unwrap_or_default(),
                None => String::new(),
            };
            let low = match e.attr_value(gimli::DW_AT_low_pc).map_err(|e| e.to_string())? {
                Some(gimli::AttributeValue::Addr(a)) => a as i64,
                _ => -1,
            };
            let high = match e.attr_value(gimli::DW_AT_high_pc).map_err(|e| e.to_string())? {
                Some(gimli::AttributeValue::Udata(a)) => a as i64,
                Some(gimli::AttributeValue::Addr(a)) => a as i64 - low,
                _ => -1,
            };
            subs.push(json!({"name": name, "low": low.to_string(), "len": high.to_string()}));
        }
    }
    Ok((rows, subs))
}

/// code-section relative layout of the local functions of a binary
pub fn layout(m: &AbsModule) -> Vec<Json> {
    let code = m.code_at.max(0) as u32;
    m.funcs
        .iter()
        .filter(|f| !f.imported)
        .map(|f| json!({"idx": f.idx, "entry": f.entry_at - code, "end": f.end_at - code, "ops": f.ops.iter().map(|o| o.at - code).collect::<Vec<_>>()}))
        .collect()
}
