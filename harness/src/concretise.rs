//! Concretiser: abstract modules printed by TLC (Families.tla) -> real wasm binaries.

use crate::gen::*;
use crate::optable::T;
use serde_json::Value;
use wasm_encoder as we;
use wasm_encoder::Instruction as I;

fn kvs(s: &str) -> std::collections::HashMap<String, String> {
    s.split(' ').filter_map(|p| p.split_once('=').map(|(k, v)| (k.to_string(), v.to_string()))).collect()
}
fn ty_of(s: &str) -> T {
    match s {
        "i32" => T::I32,
        "i64" => T::I64,
        "f32" => T::F32,
        "f64" => T::F64,
        "v128" => T::V128,
        "funcref" => T::FuncRef,
        _ => T::ExternRef,
    }
}
fn opt_u64(s: &str) -> Option<u64> {
    if s == "none" {
        None
    } else {
        s.parse().ok()
    }
}
pub fn parse_sig(s: &str) -> Sig {
    // "(a,b)->(c)"
    let (p, r) = s.split_once("->").unwrap();
    let f = |x: &str| -> Vec<T> { x.trim_matches(|c| c == '(' || c == ')').split(',').filter(|t| !t.is_empty()).map(ty_of).collect() };
    Sig { params: f(p), results: f(r) }
}
fn expr(v: &Value) -> Option<Expr> {
    let k = v["k"].as_str().unwrap();
    let r = v["r"].as_i64().unwrap_or(-1);
    let val = v["v"].as_str().unwrap_or("");
    Some(match k {
        "none" => return None,
        "global" => Expr::Global(r as u32),
        "func" => Expr::Func(r as u32),
        "null" => Expr::Null(if val == "func" { T::FuncRef } else { T::ExternRef }),
        _ => {
            let (t, x) = val.split_once(':').unwrap();
            match t {
                "i32" => Expr::I32(x.parse().unwrap()),
                "i64" => Expr::I64(x.parse().unwrap()),
                "f32" => Expr::F32(u32::from_str_radix(x, 16).unwrap()),
                "f64" => Expr::F64(u64::from_str_radix(x, 16).unwrap()),
                _ => Expr::V128(u128::from_str_radix(x, 16).unwrap()),
            }
        }
    })
}

pub fn concretise(m: &Value) -> Desc {
    let mut d = Desc::default();
    let arr = |k: &str| m[k].as_array().cloned().unwrap_or_default();
    for f in arr("funcs") {
        let s = parse_sig(f["sig"].as_str().unwrap());
        let ty = d.intern(s);
        d.funcs.push(FuncD { ty, imported: f["imported"].as_bool().unwrap() });
    }
    for t in arr("tables") {
        let s = t["ty"].as_str().unwrap();
        let kv = kvs(s);
        d.tables.push(TableD { ety: ty_of(s.split(' ').next().unwrap()), min: kv["min"].parse().unwrap(), max: opt_u64(&kv["max"]), t64: kv["t64"] == "true", imported: t["imported"].as_bool().unwrap() });
    }
    for t in arr("memories") {
        let kv = kvs(t["ty"].as_str().unwrap());
        d.mems.push(MemD { min: kv["min"].parse().unwrap(), max: opt_u64(&kv["max"]), m64: kv["m64"] == "true", shared: kv["shared"] == "true", imported: t["imported"].as_bool().unwrap() });
    }
    for g in arr("globals") {
        let s = g["ty"].as_str().unwrap();
        let kv = kvs(s);
        d.globals.push(GlobalD { ty: ty_of(s.split(' ').next().unwrap()), mutable: kv["mut"] == "true", imported: g["imported"].as_bool().unwrap(), init: expr(&g["init"]) });
    }
    for i in arr("imports") {
        let t = i["target"].as_u64().unwrap() as u32;
        let kind = match i["kind"].as_str().unwrap() {
            "func" => ImpKind::Func(t),
            "table" => ImpKind::Table(t),
            "memory" => ImpKind::Mem(t),
            _ => ImpKind::Global(t),
        };
        d.imports.push(Imp { module: i["module"].as_str().unwrap().into(), field: i["field"].as_str().unwrap().into(), kind });
    }
    for e in arr("exports") {
        let kind = match e["kind"].as_str().unwrap() {
            "func" => we::ExportKind::Func,
            "table" => we::ExportKind::Table,
            "memory" => we::ExportKind::Memory,
            _ => we::ExportKind::Global,
        };
        d.exports.push(ExportD { name: e["name"].as_str().unwrap().into(), kind, idx: e["target"].as_u64().unwrap() as u32 });
    }
    let st = m["start"].as_i64().unwrap_or(-1);
    if st >= 0 {
        d.start = Some(st as u32);
    }
    for e in arr("elems") {
        let mode = match e["mode"].as_str().unwrap() {
            "passive" => ElemMode::Passive,
            "declared" => ElemMode::Declared,
            _ => ElemMode::Active { table: e["table"].as_u64().unwrap() as u32, offset: expr(&e["offset"]).unwrap(), explicit_table: false },
        };
        let items: Vec<Expr> = e["items"].as_array().unwrap().iter().map(|x| expr(x).unwrap()).collect();
        d.elems.push(ElemD { mode, ety: ty_of(e["ety"].as_str().unwrap()), funcs_form: e["form"].as_str().unwrap() == "funcs", items });
    }
    for x in arr("data") {
        let mode = match x["mode"].as_str().unwrap() {
            "passive" => DataMode::Passive,
            _ => DataMode::Active { mem: x["mem"].as_u64().unwrap() as u32, offset: expr(&x["offset"]).unwrap() },
        };
        let idx = x["idx"].as_u64().unwrap_or(0) as u8;
        d.data.push(DataD { mode, bytes: vec![idx.wrapping_add(1); x["len"].as_u64().unwrap_or(1) as usize] });
    }
    // bodies: one operator group per reference, padded to 10 * size instructions
    let mut uses_data = false;
    for f in arr("funcs") {
        if f["imported"].as_bool().unwrap() {
            continue;
        }
        let mut ins: Vec<I<'static>> = vec![];
        for r in f["refs"].as_array().cloned().unwrap_or_default() {
            let sp = r[0].as_str().unwrap().to_string();
            let i = r[1].as_u64().unwrap() as u32;
            match sp.as_str() {
                "func" => ins.push(I::Call(i)),
                "global" => {
                    ins.push(I::GlobalGet(i));
                    ins.push(I::Drop);
                }
                "table" => {
                    ins.push(I::TableSize(i));
                    ins.push(I::Drop);
                }
                "memory" => {
                    ins.push(I::MemorySize(i));
                    ins.push(I::Drop);
                }
                "data" => {
                    uses_data = true;
                    ins.push(I::DataDrop(i));
                }
                "elem" => ins.push(I::ElemDrop(i)),
                _ => {}
            }
        }
        let want = 10 * f["size"].as_u64().unwrap_or(1) as usize;
        while ins.len() + 2 <= want {
            ins.push(I::I32Const(ins.len() as i32));
            ins.push(I::Drop);
        }
        if ins.len() < want {
            // odd remainder: replace the last pair by a triple
            ins.pop();
            ins.push(I::I32Eqz);
            ins.push(I::Drop);
        }
        ins.push(I::End);
        d.bodies.push(BodyD { locals: vec![], instrs: ins });
    }
    d.datacount = uses_data || d.data.iter().any(|x| matches!(x.mode, DataMode::Passive));
    d
}
