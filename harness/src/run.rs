//! Actuator: drive the real walrus (public API only) and record what it did.
//!
//! A panic in the code under test is data, not a harness failure.

use serde::{Deserialize, Serialize};
use std::borrow::Cow;
use std::panic::{catch_unwind, AssertUnwindSafe};
use std::sync::{Arc, Mutex};
use walrus::{CustomSection, IdsToIndices, Module, ModuleConfig};

#[derive(Serialize, Deserialize, Clone, Debug, PartialEq)]
pub struct Cfg {
    pub names: bool,
    pub producers: bool,
    pub dwarf: bool,
    pub xform: bool,
    pub stable: bool,
    pub synth: bool,
    /// install an identity `on_instr_loc` callback (locations = absolute input offsets, what the default does too)
    pub instr_loc: bool,
    /// install the probe custom section (captures the emit-time index map and the code transform)
    pub probe: bool,
}
impl Default for Cfg {
    fn default() -> Self {
        Cfg { names: true, producers: true, dwarf: false, xform: false, stable: false, synth: false, instr_loc: false, probe: true }
    }
}
impl Cfg {
    pub fn to_config(&self) -> ModuleConfig {
        let mut c = ModuleConfig::new();
        c.generate_name_section(self.names);
        c.generate_producers_section(self.producers);
        c.preserve_code_transform(self.xform);
        c.generate_dwarf(self.dwarf);
        c.only_stable_features(self.stable);
        c.generate_synthetic_names_for_anonymous_items(self.synth);
        if self.instr_loc {
            c.on_instr_loc(|pos| walrus::InstrLocId::new(*pos as u32));
        }
        c
    }
}

pub const SPACES: [&str; 7] = ["func", "type", "table", "memory", "global", "elem", "data"];

/// index -> arena id (as usize) per space, captured inside on_parse
#[derive(Serialize, Clone, Debug, Default)]
pub struct ParseMaps {
    pub func: Vec<i32>,
    pub ty: Vec<i32>,
    pub table: Vec<i32>,
    pub memory: Vec<i32>,
    pub global: Vec<i32>,
    pub elem: Vec<i32>,
    pub data: Vec<i32>,
    /// per function index: local index -> local arena id
    pub locals: Vec<Vec<i32>>,
    pub calls: u32,
}

/// arena id -> emitted index (or -1) per space, captured inside CustomSection::data
#[derive(Serialize, Clone, Debug, Default)]
pub struct EmitMaps {
    pub func: Vec<(i32, i32)>,
    pub ty: Vec<(i32, i32)>,
    pub table: Vec<(i32, i32)>,
    pub memory: Vec<(i32, i32)>,
    pub global: Vec<(i32, i32)>,
    pub elem: Vec<(i32, i32)>,
    pub data: Vec<(i32, i32)>,
    pub captured: bool,
}

#[derive(Serialize, Clone, Debug, Default)]
pub struct Xform {
    pub captured: bool,
    pub instruction_map: Vec<(u32, u32)>,
    pub code_section_start: i64,
    /// (function arena id, start, end)
    pub function_ranges: Vec<(i32, u32, u32)>,
}

#[derive(Debug, Default)]
struct ProbeShared {
    live: LiveIds,
    emit: EmitMaps,
    xform: Xform,
}
#[derive(Debug, Default, Clone)]
struct LiveIds {
    func: Vec<walrus::FunctionId>,
    ty: Vec<walrus::TypeId>,
    table: Vec<walrus::TableId>,
    memory: Vec<walrus::MemoryId>,
    global: Vec<walrus::GlobalId>,
    elem: Vec<walrus::ElementId>,
    data: Vec<walrus::DataId>,
}

pub const PROBE_NAME: &str = "wv.probe";

#[derive(Debug)]
struct Probe {
    shared: Arc<Mutex<ProbeShared>>,
}
impl CustomSection for Probe {
    fn name(&self) -> &str {
        PROBE_NAME
    }
    fn data(&self, ids: &IdsToIndices) -> Cow<[u8]> {
        let mut sh = self.shared.lock().unwrap();
        let live = sh.live.clone();
        macro_rules! q {
            ($field:ident, $get:ident) => {
                sh.emit.$field = live
                    .$field
                    .iter()
                    .map(|id| {
                        let r = catch_unwind(AssertUnwindSafe(|| ids.$get(*id)));
                        (id.index() as i32, r.map(|x| x as i32).unwrap_or(-1))
                    })
                    .collect();
            };
        }
        q!(func, get_func_index);
        q!(ty, get_type_index);
        q!(table, get_table_index);
        q!(memory, get_memory_index);
        q!(global, get_global_index);
        q!(elem, get_element_index);
        q!(data, get_data_index);
        sh.emit.captured = true;
        Cow::Borrowed(&[])
    }
    fn apply_code_transform(&mut self, t: &walrus::CodeTransform) {
        let mut sh = self.shared.lock().unwrap();
        sh.xform = Xform {
            captured: true,
            instruction_map: t.instruction_map.iter().map(|(l, o)| (l.data(), *o as u32)).collect(),
            code_section_start: t.code_section_start as i64,
            function_ranges: t.function_ranges.iter().map(|(id, r)| (id.index() as i32, r.start as u32, r.end as u32)).collect(),
        };
    }
}

/// message and location of the most recent panic (caught or not)
pub static LAST_PANIC: Mutex<String> = Mutex::new(String::new());

pub fn silence_panics() {
    std::panic::set_hook(Box::new(|info| {
        let msg = if let Some(s) = info.payload().downcast_ref::<&str>() {
            s.to_string()
        } else if let Some(s) = info.payload().downcast_ref::<String>() {
            s.clone()
        } else {
            "panic".to_string()
        };
        let loc = info.location().map(|l| format!("{}:{}", l.file(), l.line())).unwrap_or_default();
        if let Ok(mut g) = LAST_PANIC.lock() {
            *g = format!("{} at {}", short(&msg), loc);
        }
    }));
}

pub fn panic_msg(e: Box<dyn std::any::Any + Send>) -> String {
    if let Some(s) = e.downcast_ref::<&str>() {
        s.to_string()
    } else if let Some(s) = e.downcast_ref::<String>() {
        s.clone()
    } else {
        "panic".to_string()
    }
}

/// first line / 160 chars of a message, newlines removed
pub fn short(s: &str) -> String {
    let t: String = s.replace('\n', " | ");
    t.chars().take(200).collect()
}

pub struct Parsed {
    pub module: Module,
    pub maps: ParseMaps,
}

/// Outcome of Module parse: Ok(parsed) | Err("err:<msg>") | Err("panic:<msg>")
pub fn parse(bytes: &[u8], cfg: &Cfg) -> Result<Parsed, String> {
    let maps = Arc::new(Mutex::new(ParseMaps::default()));
    let maps2 = maps.clone();
    let n_hint = bytes.len();
    let mut config = cfg.to_config();
    config.on_parse(move |m, ids| {
        let mut pm = maps2.lock().unwrap();
        pm.calls += 1;
        macro_rules! cap {
            ($field:ident, $get:ident) => {
                let mut i = 0u32;
                pm.$field.clear();
                while let Ok(id) = ids.$get(i) {
                    pm.$field.push(id.index() as i32);
                    i += 1;
                    if i as usize > n_hint {
                        break;
                    }
                }
            };
        }
        cap!(func, get_func);
        cap!(ty, get_type);
        cap!(table, get_table);
        cap!(memory, get_memory);
        cap!(global, get_global);
        cap!(elem, get_element);
        cap!(data, get_data);
        pm.locals.clear();
        let mut fi = 0u32;
        while let Ok(fid) = ids.get_func(fi) {
            let mut v = vec![];
            let mut li = 0u32;
            while let Ok(l) = ids.get_local(fid, li) {
                v.push(l.index() as i32);
                li += 1;
                if li > 200_000 {
                    break;
                }
            }
            pm.locals.push(v);
            fi += 1;
        }
        let _ = m;
        Ok(())
    });
    let r = catch_unwind(AssertUnwindSafe(|| config.parse(bytes)));
    match r {
        Ok(Ok(module)) => {
            let maps = maps.lock().unwrap().clone();
            Ok(Parsed { module, maps })
        }
        Ok(Err(e)) => Err(format!("err:{}", short(&format!("{:#}", e)))),
        Err(p) => Err(format!("panic:{}", short(&panic_msg(p)))),
    }
}

pub struct Emitted {
    pub bytes: Vec<u8>,
    pub emit: EmitMaps,
    pub xform: Xform,
}

/// Emit with an (optional) probe section installed for the duration of the call.
pub fn emit(module: &mut Module, probe: bool) -> Result<Emitted, String> {
    let shared = Arc::new(Mutex::new(ProbeShared::default()));
    let mut pid = None;
    if probe {
        {
            let mut sh = shared.lock().unwrap();
            sh.live.func = module.funcs.iter().map(|f| f.id()).collect();
            sh.live.ty = module.types.iter().map(|f| f.id()).collect();
            sh.live.table = module.tables.iter().map(|f| f.id()).collect();
            sh.live.memory = module.memories.iter().map(|f| f.id()).collect();
            sh.live.global = module.globals.iter().map(|f| f.id()).collect();
            sh.live.elem = module.elements.iter().map(|f| f.id()).collect();
            sh.live.data = module.data.iter().map(|f| f.id()).collect();
        }
        pid = Some(module.customs.add(Probe { shared: shared.clone() }));
    }
    let r = catch_unwind(AssertUnwindSafe(|| module.emit_wasm()));
    if let Some(pid) = pid {
        // emit_wasm may have moved the custom sections away; ignore a failed delete
        let _ = catch_unwind(AssertUnwindSafe(|| module.customs.delete(pid)));
    }
    match r {
        Ok(bytes) => {
            let sh = shared.lock().unwrap();
            Ok(Emitted { bytes, emit: sh.emit.clone(), xform: sh.xform.clone() })
        }
        Err(p) => Err(format!("panic:{}", short(&panic_msg(p)))),
    }
}

pub fn gc(module: &mut Module) -> Result<(), String> {
    catch_unwind(AssertUnwindSafe(|| walrus::passes::gc::run(module))).map_err(|p| format!("panic:{}", short(&panic_msg(p))))
}

/// in-index -> out-index per space (-1 when the entity is not emitted)
#[derive(Serialize, Clone, Debug, Default)]
pub struct Sigma {
    pub func: Vec<i32>,
    #[serde(rename = "type")]
    pub ty: Vec<i32>,
    pub table: Vec<i32>,
    pub memory: Vec<i32>,
    pub global: Vec<i32>,
    pub elem: Vec<i32>,
    pub data: Vec<i32>,
}

pub fn sigma(p: &ParseMaps, e: &EmitMaps) -> Sigma {
    fn comp(i2id: &[i32], id2idx: &[(i32, i32)]) -> Vec<i32> {
        i2id.iter().map(|id| id2idx.iter().find(|(i, _)| i == id).map(|(_, x)| *x).unwrap_or(-1)).collect()
    }
    Sigma {
        func: comp(&p.func, &e.func),
        ty: comp(&p.ty, &e.ty),
        table: comp(&p.table, &e.table),
        memory: comp(&p.memory, &e.memory),
        global: comp(&p.global, &e.global),
        elem: comp(&p.elem, &e.elem),
        data: comp(&p.data, &e.data),
    }
}

/// One complete run: parse, optional GC passes, emit.
pub struct Rt {
    pub outcome: String,
    pub out: Vec<u8>,
    pub maps: ParseMaps,
    pub emit: EmitMaps,
    pub xform: Xform,
    pub sigma: Sigma,
    pub module: Option<Module>,
}

pub fn roundtrip(bytes: &[u8], cfg: &Cfg, gc_runs: u32) -> Rt {
    let mut rt = Rt { outcome: String::new(), out: vec![], maps: Default::default(), emit: Default::default(), xform: Default::default(), sigma: Default::default(), module: None };
    let parsed = match parse(bytes, cfg) {
        Ok(p) => p,
        Err(e) => {
            rt.outcome = format!("parse-{}", e);
            return rt;
        }
    };
    let mut module = parsed.module;
    rt.maps = parsed.maps;
    for _ in 0..gc_runs {
        if let Err(e) = gc(&mut module) {
            rt.outcome = format!("gc-{}", e);
            return rt;
        }
    }
    match emit(&mut module, cfg.probe) {
        Ok(e) => {
            rt.out = e.bytes;
            rt.emit = e.emit;
            rt.xform = e.xform;
            rt.sigma = sigma(&rt.maps, &rt.emit);
            rt.outcome = "ok".into();
        }
        Err(e) => rt.outcome = format!("emit-{}", e),
    }
    rt.module = Some(module);
    rt
}

/// A typed custom section that roots arbitrary entities for the GC pass (C06/C07 "custom-section roots").
#[derive(Debug, Default)]
pub struct RootsSection {
    pub funcs: Vec<walrus::FunctionId>,
    pub tables: Vec<walrus::TableId>,
    pub memories: Vec<walrus::MemoryId>,
    pub globals: Vec<walrus::GlobalId>,
}
impl CustomSection for RootsSection {
    fn name(&self) -> &str {
        "wv.roots"
    }
    fn data(&self, _: &IdsToIndices) -> Cow<[u8]> {
        Cow::Borrowed(&[])
    }
    fn add_gc_roots(&self, roots: &mut walrus::passes::Roots) {
        for f in &self.funcs {
            roots.push_func(*f);
        }
        for t in &self.tables {
            roots.push_table(*t);
        }
        for m in &self.memories {
            roots.push_memory(*m);
        }
        for g in &self.globals {
            roots.push_global(*g);
        }
    }
}

/// parse ; [root some entities through a custom section] ; gc x n ; emit
/// `extra` lists (space, in-index) pairs to root.
pub fn gc_roundtrip(bytes: &[u8], cfg: &Cfg, gc_runs: u32, extra: &[(String, u32)]) -> Rt {
    let mut rt = Rt { outcome: String::new(), out: vec![], maps: Default::default(), emit: Default::default(), xform: Default::default(), sigma: Default::default(), module: None };
    let parsed = match parse(bytes, cfg) {
        Ok(p) => p,
        Err(e) => {
            rt.outcome = format!("parse-{}", e);
            return rt;
        }
    };
    let mut module = parsed.module;
    rt.maps = parsed.maps;
    if !extra.is_empty() {
        let mut rs = RootsSection::default();
        for (sp, i) in extra {
            let i = *i as usize;
            match sp.as_str() {
                "func" => rs.funcs.extend(module.funcs.iter().map(|f| f.id()).filter(|id| Some(&(id.index() as i32)) == rt.maps.func.get(i))),
                "table" => rs.tables.extend(module.tables.iter().map(|f| f.id()).filter(|id| Some(&(id.index() as i32)) == rt.maps.table.get(i))),
                "memory" => rs.memories.extend(module.memories.iter().map(|f| f.id()).filter(|id| Some(&(id.index() as i32)) == rt.maps.memory.get(i))),
                "global" => rs.globals.extend(module.globals.iter().map(|f| f.id()).filter(|id| Some(&(id.index() as i32)) == rt.maps.global.get(i))),
                _ => {}
            }
        }
        module.customs.add(rs);
    }
    for _ in 0..gc_runs {
        if let Err(e) = gc(&mut module) {
            rt.outcome = format!("gc-{}", e);
            return rt;
        }
    }
    match emit(&mut module, cfg.probe) {
        Ok(e) => {
            rt.out = e.bytes;
            rt.emit = e.emit;
            rt.xform = e.xform;
            rt.sigma = sigma(&rt.maps, &rt.emit);
            rt.outcome = "ok".into();
        }
        Err(e) => rt.outcome = format!("emit-{}", e),
    }
    rt.module = Some(module);
    rt
}
