//! C16: callback logs of recording visitors versus an independent recursive walk of the IR tree.

use serde_json::{json, Value as Json};
use std::collections::HashMap;
use walrus::ir::*;
use walrus::*;

/// entity operands of one instruction, extracted by matching on the variants (not through Visit)
pub fn operands(i: &Instr) -> Vec<(String, usize)> {
    let mut v: Vec<(String, usize)> = vec![];
    let mut p = |k: &str, n: usize| v.push((k.to_string(), n));
    match i {
        Instr::Block(x) => p("seq", x.seq.index()),
        Instr::Loop(x) => p("seq", x.seq.index()),
        Instr::IfElse(x) => {
            p("seq", x.consequent.index());
            p("seq", x.alternative.index());
        }
        Instr::Call(x) => p("func", x.func.index()),
        Instr::CallIndirect(x) => {
            p("type", x.ty.index());
            p("table", x.table.index());
        }
        Instr::LocalGet(x) => p("local", x.local.index()),
        Instr::LocalSet(x) => p("local", x.local.index()),
        Instr::LocalTee(x) => p("local", x.local.index()),
        Instr::GlobalGet(x) => p("global", x.global.index()),
        Instr::GlobalSet(x) => p("global", x.global.index()),
        Instr::MemorySize(x) => p("memory", x.memory.index()),
        Instr::MemoryGrow(x) => p("memory", x.memory.index()),
        Instr::MemoryInit(x) => {
            p("memory", x.memory.index());
            p("data", x.data.index());
        }
        Instr::DataDrop(x) => p("data", x.data.index()),
        Instr::MemoryCopy(x) => {
            p("memory", x.src.index());
            p("memory", x.dst.index());
        }
        Instr::MemoryFill(x) => p("memory", x.memory.index()),
        Instr::Load(x) => p("memory", x.memory.index()),
        Instr::Store(x) => p("memory", x.memory.index()),
        Instr::AtomicRmw(x) => p("memory", x.memory.index()),
        Instr::Cmpxchg(x) => p("memory", x.memory.index()),
        Instr::AtomicNotify(x) => p("memory", x.memory.index()),
        Instr::AtomicWait(x) => p("memory", x.memory.index()),
        Instr::LoadSimd(x) => p("memory", x.memory.index()),
        Instr::TableGet(x) => p("table", x.table.index()),
        Instr::TableSet(x) => p("table", x.table.index()),
        Instr::TableGrow(x) => p("table", x.table.index()),
        Instr::TableSize(x) => p("table", x.table.index()),
        Instr::TableFill(x) => p("table", x.table.index()),
        Instr::RefFunc(x) => p("func", x.func.index()),
        Instr::TableInit(x) => {
            p("table", x.table.index());
            p("elem", x.elem.index());
        }
        Instr::ElemDrop(x) => p("elem", x.elem.index()),
        Instr::TableCopy(x) => {
            p("table", x.src.index());
            p("table", x.dst.index());
        }
        Instr::ReturnCall(x) => p("func", x.func.index()),
        Instr::ReturnCallIndirect(x) => {
            p("type", x.ty.index());
            p("table", x.table.index());
        }
        _ => {}
    }
    v.sort();
    v
}

fn kind_name(i: &Instr) -> String {
    let d = format!("{:?}", i);
    d.split(|c: char| !c.is_alphanumeric()).next().unwrap_or("").to_string()
}

/// the tree, by plain recursion over LocalFunction::block (depth-limited callers only)
pub fn tree_of(f: &LocalFunction) -> Json {
    let mut seqs: HashMap<usize, Json> = HashMap::new();
    // the type id a sequence's own (multi-value) block type names, read off the field
    let mut tys: HashMap<usize, i64> = HashMap::new();
    let mut todo = vec![f.entry_block()];
    while let Some(s) = todo.pop() {
        if seqs.contains_key(&s.index()) {
            continue;
        }
        tys.insert(s.index(), match f.block(s).ty {
            InstrSeqType::MultiValue(t) => t.index() as i64,
            InstrSeqType::Simple(_) => -1,
        });
        let mut items = vec![];
        for (ins, _loc) in f.block(s).instrs.iter() {
            let kids: Vec<usize> = match ins {
                Instr::Block(b) => {
                    todo.push(b.seq);
                    vec![b.seq.index()]
                }
                Instr::Loop(b) => {
                    todo.push(b.seq);
                    vec![b.seq.index()]
                }
                Instr::IfElse(b) => {
                    todo.push(b.consequent);
                    todo.push(b.alternative);
                    vec![b.consequent.index(), b.alternative.index()]
                }
                _ => vec![],
            };
            items.push(json!({"k": kind_name(ins), "ops": operands(ins), "kids": kids}));
        }
        seqs.insert(s.index(), json!(items));
    }
    // sequences as an id-indexed array (missing ids = not part of this function's tree)
    let max = seqs.keys().copied().max().unwrap_or(0);
    let arr: Vec<Json> = (0..=max).map(|k| seqs.get(&k).cloned().unwrap_or(json!([]))).collect();
    let tyarr: Vec<i64> = (0..=max).map(|k| tys.get(&k).copied().unwrap_or(-1)).collect();
    json!({"entry": f.entry_block().index(), "seqs": arr, "tys": tyarr})
}

#[derive(Default)]
pub struct Log {
    /// items: start / instr (with the operand callbacks that followed it) / end
    pub items: Vec<Json>,
}
impl Log {
    fn id(&mut self, kind: &str, n: usize) {
        if let Some(last) = self.items.last_mut() {
            last["ops"].as_array_mut().unwrap().push(json!([kind, n]));
        }
    }
    fn finish(mut self) -> Vec<Json> {
        for it in self.items.iter_mut() {
            let mut v: Vec<(String, u64)> = it["ops"].as_array().unwrap().iter().map(|x| (x[0].as_str().unwrap().to_string(), x[1].as_u64().unwrap())).collect();
            v.sort();
            it["ops"] = json!(v);
        }
        self.items
    }
}

macro_rules! id_hooks {
    ($($m:ident, $t:ty, $k:expr;)*) => { $( fn $m(&mut self, x: &$t) { self.log.id($k, x.index()); } )* };
}
macro_rules! id_hooks_mut {
    ($($m:ident, $t:ty, $k:expr;)*) => { $( fn $m(&mut self, x: &mut $t) { self.log.id($k, x.index()); } )* };
}

/// immutable recording visitor: sequence / instruction events and every id hook; per-instruction hooks at their defaults
#[derive(Default)]
pub struct Rec {
    pub log: Log,
}
impl<'a> Visitor<'a> for Rec {
    fn start_instr_seq(&mut self, s: &'a InstrSeq) {
        self.log.items.push(json!({"t": "start", "seq": s.id().index(), "k": "", "ops": []}));
    }
    fn end_instr_seq(&mut self, s: &'a InstrSeq) {
        self.log.items.push(json!({"t": "end", "seq": s.id().index(), "k": "", "ops": []}));
    }
    fn visit_instr(&mut self, i: &'a Instr, _l: &'a InstrLocId) {
        self.log.items.push(json!({"t": "instr", "seq": -1, "k": kind_name(i), "ops": []}));
    }
    id_hooks! {
        visit_instr_seq_id, InstrSeqId, "seq";
        visit_local_id, LocalId, "local";
        visit_memory_id, MemoryId, "memory";
        visit_table_id, TableId, "table";
        visit_global_id, GlobalId, "global";
        visit_function_id, FunctionId, "func";
        visit_data_id, DataId, "data";
        visit_type_id, TypeId, "type";
        visit_element_id, ElementId, "elem";
    }
}

/// mutable recording visitor, per-instruction hooks at their defaults
#[derive(Default)]
pub struct RecMut {
    pub log: Log,
}
impl VisitorMut for RecMut {
    fn start_instr_seq_mut(&mut self, s: &mut InstrSeq) {
        self.log.items.push(json!({"t": "start", "seq": s.id().index(), "k": "", "ops": []}));
    }
    fn end_instr_seq_mut(&mut self, s: &mut InstrSeq) {
        self.log.items.push(json!({"t": "end", "seq": s.id().index(), "k": "", "ops": []}));
    }
    fn visit_instr_mut(&mut self, i: &mut Instr, _l: &mut InstrLocId) {
        self.log.items.push(json!({"t": "instr", "seq": -1, "k": kind_name(i), "ops": []}));
    }
    id_hooks_mut! {
        visit_instr_seq_id_mut, InstrSeqId, "seq";
        visit_local_id_mut, LocalId, "local";
        visit_memory_id_mut, MemoryId, "memory";
        visit_table_id_mut, TableId, "table";
        visit_global_id_mut, GlobalId, "global";
        visit_function_id_mut, FunctionId, "func";
        visit_data_id_mut, DataId, "data";
        visit_type_id_mut, TypeId, "type";
        visit_element_id_mut, ElementId, "elem";
    }
}

/// mutable recording visitor that also overrides some per-instruction hooks (without re-visiting)
#[derive(Default)]
pub struct RecMutOverride {
    pub inner: RecMut,
}
impl VisitorMut for RecMutOverride {
    fn start_instr_seq_mut(&mut self, s: &mut InstrSeq) {
        self.inner.start_instr_seq_mut(s)
    }
    fn end_instr_seq_mut(&mut self, s: &mut InstrSeq) {
        self.inner.end_instr_seq_mut(s)
    }
    fn visit_instr_mut(&mut self, i: &mut Instr, l: &mut InstrLocId) {
        self.inner.visit_instr_mut(i, l)
    }
    fn visit_call_mut(&mut self, _i: &mut Call) {}
    fn visit_local_get_mut(&mut self, _i: &mut LocalGet) {}
    fn visit_local_set_mut(&mut self, _i: &mut LocalSet) {}
    fn visit_global_get_mut(&mut self, _i: &mut GlobalGet) {}
    fn visit_block_mut(&mut self, _i: &mut Block) {}
    fn visit_if_else_mut(&mut self, _i: &mut IfElse) {}
    fn visit_load_mut(&mut self, _i: &mut Load) {}
    fn visit_instr_seq_id_mut(&mut self, x: &mut InstrSeqId) {
        self.inner.log.id("seq", x.index());
    }
    fn visit_local_id_mut(&mut self, x: &mut LocalId) {
        self.inner.log.id("local", x.index());
    }
    fn visit_memory_id_mut(&mut self, x: &mut MemoryId) {
        self.inner.log.id("memory", x.index());
    }
    fn visit_table_id_mut(&mut self, x: &mut TableId) {
        self.inner.log.id("table", x.index());
    }
    fn visit_global_id_mut(&mut self, x: &mut GlobalId) {
        self.inner.log.id("global", x.index());
    }
    fn visit_function_id_mut(&mut self, x: &mut FunctionId) {
        self.inner.log.id("func", x.index());
    }
    fn visit_data_id_mut(&mut self, x: &mut DataId) {
        self.inner.log.id("data", x.index());
    }
    fn visit_type_id_mut(&mut self, x: &mut TypeId) {
        self.inner.log.id("type", x.index());
    }
    fn visit_element_id_mut(&mut self, x: &mut ElementId) {
        self.inner.log.id("elem", x.index());
    }
}

/// mutable recording visitor that *rewrites the tree it is walking*: the first `block` it is shown is retargeted to another
/// sequence; the traversal has to go on in the tree as the visitor left it (the reference walk is taken afterwards)
pub struct RecMutRewrite {
    pub inner: RecMut,
    pub target: InstrSeqId,
    pub done: bool,
}
impl VisitorMut for RecMutRewrite {
    fn start_instr_seq_mut(&mut self, s: &mut InstrSeq) {
        self.inner.start_instr_seq_mut(s)
    }
    fn end_instr_seq_mut(&mut self, s: &mut InstrSeq) {
        self.inner.end_instr_seq_mut(s)
    }
    fn visit_instr_mut(&mut self, i: &mut Instr, l: &mut InstrLocId) {
        if !self.done {
            if let Instr::Block(b) = i {
                b.seq = self.target;
                self.done = true;
            }
        }
        self.inner.visit_instr_mut(i, l)
    }
    fn visit_instr_seq_id_mut(&mut self, x: &mut InstrSeqId) {
        self.inner.log.id("seq", x.index());
    }
    fn visit_local_id_mut(&mut self, x: &mut LocalId) {
        self.inner.log.id("local", x.index());
    }
    fn visit_memory_id_mut(&mut self, x: &mut MemoryId) {
        self.inner.log.id("memory", x.index());
    }
    fn visit_table_id_mut(&mut self, x: &mut TableId) {
        self.inner.log.id("table", x.index());
    }
    fn visit_global_id_mut(&mut self, x: &mut GlobalId) {
        self.inner.log.id("global", x.index());
    }
    fn visit_function_id_mut(&mut self, x: &mut FunctionId) {
        self.inner.log.id("func", x.index());
    }
    fn visit_data_id_mut(&mut self, x: &mut DataId) {
        self.inner.log.id("data", x.index());
    }
    fn visit_type_id_mut(&mut self, x: &mut TypeId) {
        self.inner.log.id("type", x.index());
    }
    fn visit_element_id_mut(&mut self, x: &mut ElementId) {
        self.inner.log.id("elem", x.index());
    }
}

/// immutable recording visitor that also overrides some per-instruction hooks (without re-visiting): the id hooks of
/// those instructions' operands must fire all the same
#[derive(Default)]
pub struct RecOverride {
    pub inner: Rec,
}
impl<'a> Visitor<'a> for RecOverride {
    fn start_instr_seq(&mut self, s: &'a InstrSeq) {
        self.inner.start_instr_seq(s)
    }
    fn end_instr_seq(&mut self, s: &'a InstrSeq) {
        self.inner.end_instr_seq(s)
    }
    fn visit_instr(&mut self, i: &'a Instr, l: &'a InstrLocId) {
        self.inner.visit_instr(i, l)
    }
    fn visit_call(&mut self, _i: &Call) {}
    fn visit_local_get(&mut self, _i: &LocalGet) {}
    fn visit_local_tee(&mut self, _i: &LocalTee) {}
    fn visit_global_set(&mut self, _i: &GlobalSet) {}
    fn visit_loop(&mut self, _i: &Loop) {}
    fn visit_if_else(&mut self, _i: &IfElse) {}
    fn visit_store(&mut self, _i: &Store) {}
    fn visit_call_indirect(&mut self, _i: &CallIndirect) {}
    fn visit_br(&mut self, _i: &Br) {}
    fn visit_instr_seq_id(&mut self, x: &InstrSeqId) {
        self.inner.log.id("seq", x.index());
    }
    fn visit_local_id(&mut self, x: &LocalId) {
        self.inner.log.id("local", x.index());
    }
    fn visit_memory_id(&mut self, x: &MemoryId) {
        self.inner.log.id("memory", x.index());
    }
    fn visit_table_id(&mut self, x: &TableId) {
        self.inner.log.id("table", x.index());
    }
    fn visit_global_id(&mut self, x: &GlobalId) {
        self.inner.log.id("global", x.index());
    }
    fn visit_function_id(&mut self, x: &FunctionId) {
        self.inner.log.id("func", x.index());
    }
    fn visit_data_id(&mut self, x: &DataId) {
        self.inner.log.id("data", x.index());
    }
    fn visit_type_id(&mut self, x: &TypeId) {
        self.inner.log.id("type", x.index());
    }
    fn visit_element_id(&mut self, x: &ElementId) {
        self.inner.log.id("elem", x.index());
    }
}

/// all traversal cases of one module: one line per (local function, traversal flavour)
pub fn cases_of(id: &str, source: &str, m: &mut Module) -> Vec<Json> {
    let mut out = vec![];
    let fids: Vec<FunctionId> = m.funcs.iter_local().map(|(id, _)| id).collect();
    for fid in fids {
        let tree = {
            let lf = m.funcs.get(fid).kind.unwrap_local();
            tree_of(lf)
        };
        let n_instrs: usize = tree["seqs"].as_array().unwrap().iter().map(|s| s.as_array().unwrap().len()).sum();
        if n_instrs > 400 {
            continue; // keep trace lines small; big bodies are covered by the depth test
        }
        let base = format!("{}#f{}", id, fid.index());
        {
            let lf = m.funcs.get(fid).kind.unwrap_local();
            let mut v = Rec::default();
            dfs_in_order(&mut v, lf, lf.entry_block());
            out.push(json!({"id": format!("{}~in_order", base), "source": source, "flavour": "in_order", "tree": tree, "log": v.log.finish()}));
        }
        {
            let lf = m.funcs.get(fid).kind.unwrap_local();
            let mut v = RecOverride::default();
            dfs_in_order(&mut v, lf, lf.entry_block());
            out.push(json!({"id": format!("{}~in_order_overridden", base), "source": source, "flavour": "in_order", "tree": tree, "log": v.inner.log.finish()}));
        }
        {
            let lf = m.funcs.get_mut(fid).kind.unwrap_local_mut();
            let e = lf.entry_block();
            let mut v = RecMut::default();
            dfs_pre_order_mut(&mut v, lf, e);
            out.push(json!({"id": format!("{}~pre_order_mut", base), "source": source, "flavour": "pre_order_mut", "tree": tree, "log": v.log.finish()}));
        }
        {
            let lf = m.funcs.get_mut(fid).kind.unwrap_local_mut();
            let e = lf.entry_block();
            let mut v = RecMutOverride::default();
            dfs_pre_order_mut(&mut v, lf, e);
            out.push(json!({"id": format!("{}~pre_order_mut_overridden", base), "source": source, "flavour": "pre_order_mut_overridden", "tree": tree, "log": v.inner.log.finish()}));
        }
        // the traversals take the sequence to start from: a nested one reports its own sub-tree only
        let entry = tree["entry"].as_u64().unwrap() as usize;
        let nested: Vec<usize> = tree["seqs"].as_array().unwrap().iter().flat_map(|s| s.as_array().unwrap().iter().flat_map(|i| i["kids"].as_array().unwrap().iter().map(|k| k.as_u64().unwrap() as usize))).filter(|k| *k != entry).collect();
        for &start in nested.iter().take(1).chain(nested.iter().rev().take(1)) {
            let mut sub = tree.clone();
            sub["entry"] = json!(start);
            let sid = {
                let lf = m.funcs.get(fid).kind.unwrap_local();
                let mut found = None;
                let mut todo = vec![lf.entry_block()];
                while let Some(q) = todo.pop() {
                    if q.index() == start {
                        found = Some(q);
                        break;
                    }
                    for (ins, _) in lf.block(q).instrs.iter() {
                        match ins {
                            Instr::Block(b) => todo.push(b.seq),
                            Instr::Loop(b) => todo.push(b.seq),
                            Instr::IfElse(b) => {
                                todo.push(b.consequent);
                                todo.push(b.alternative);
                            }
                            _ => {}
                        }
                    }
                }
                found
            };
            let Some(sid) = sid else { continue };
            {
                let lf = m.funcs.get(fid).kind.unwrap_local();
                let mut v = Rec::default();
                dfs_in_order(&mut v, lf, sid);
                out.push(json!({"id": format!("{}~in_order@{}", base, start), "source": source, "flavour": "in_order", "tree": sub, "log": v.log.finish()}));
            }
            {
                let lf = m.funcs.get_mut(fid).kind.unwrap_local_mut();
                let mut v = RecMut::default();
                dfs_pre_order_mut(&mut v, lf, sid);
                out.push(json!({"id": format!("{}~pre_order_mut@{}", base, start), "source": source, "flavour": "pre_order_mut", "tree": sub, "log": v.log.finish()}));
            }
        }
        // last (it changes the function): a visitor that retargets the first block it is shown to a fresh sequence; the log is
        // judged against the tree as it is after the traversal
        {
            let lf = m.funcs.get_mut(fid).kind.unwrap_local_mut();
            let target = {
                let mut b = lf.builder_mut().dangling_instr_seq(InstrSeqType::Simple(None));
                b.i32_const(7).drop();
                b.id()
            };
            let e = lf.entry_block();
            let mut v = RecMutRewrite { inner: RecMut::default(), target, done: false };
            dfs_pre_order_mut(&mut v, lf, e);
            if v.done {
                let after = tree_of(lf);
                out.push(json!({"id": format!("{}~pre_order_mut_rewriting", base), "source": source, "flavour": "pre_order_mut", "tree": after, "log": v.inner.log.finish()}));
            }
        }
    }
    out
}

/// call-stack independence, observed: nesting depth `depth` parsed, traversed, GC'd and emitted on a small stack
pub fn deep_nesting(depth: usize, stack_kib: usize) -> Json {
    use wasm_encoder as we;
    let mut f = we::Function::new([]);
    for k in 0..depth {
        if k % 3 == 2 {
            f.instruction(&we::Instruction::I32Const(1));
            f.instruction(&we::Instruction::If(we::BlockType::Empty));
        } else if k % 3 == 1 {
            f.instruction(&we::Instruction::Loop(we::BlockType::Empty));
        } else {
            f.instruction(&we::Instruction::Block(we::BlockType::Empty));
        }
    }
    for _ in 0..depth {
        f.instruction(&we::Instruction::End);
    }
    f.instruction(&we::Instruction::End);
    let mut m = we::Module::new();
    let mut t = we::TypeSection::new();
    t.function([], []);
    m.section(&t);
    let mut fs = we::FunctionSection::new();
    fs.function(0);
    m.section(&fs);
    let mut ex = we::ExportSection::new();
    ex.export("f", we::ExportKind::Func, 0);
    m.section(&ex);
    let mut c = we::CodeSection::new();
    c.function(&f);
    m.section(&c);
    let bytes = m.finish();
    let handle = std::thread::Builder::new().stack_size(stack_kib * 1024).spawn(move || {
        let mut module = Module::from_buffer(&bytes).map_err(|e| format!("parse: {:#}", e))?;
        let fid = module.funcs.iter_local().next().unwrap().0;
        let (mut starts, mut instrs) = (0usize, 0usize);
        {
            struct Cnt<'a>(&'a mut usize, &'a mut usize);
            impl<'i, 'a> Visitor<'i> for Cnt<'a> {
                fn start_instr_seq(&mut self, _: &'i InstrSeq) {
                    *self.0 += 1;
                }
                fn visit_instr(&mut self, _: &'i Instr, _: &'i InstrLocId) {
                    *self.1 += 1;
                }
            }
            let lf = module.funcs.get(fid).kind.unwrap_local();
            dfs_in_order(&mut Cnt(&mut starts, &mut instrs), lf, lf.entry_block());
        }
        let mut mstarts = 0usize;
        {
            struct CntM<'a>(&'a mut usize);
            impl<'a> VisitorMut for CntM<'a> {
                fn start_instr_seq_mut(&mut self, _: &mut InstrSeq) {
                    *self.0 += 1;
                }
            }
            let lf = module.funcs.get_mut(fid).kind.unwrap_local_mut();
            let e = lf.entry_block();
            dfs_pre_order_mut(&mut CntM(&mut mstarts), lf, e);
        }
        walrus::passes::gc::run(&mut module);
        let out = module.emit_wasm();
        Ok::<_, String>((starts, instrs, mstarts, out.len()))
    });
    match handle {
        Ok(h) => match h.join() {
            Ok(Ok((s, i, ms, n))) => json!({"depth": depth, "stack_kib": stack_kib, "outcome": "ok", "starts": s, "instrs": i, "mut_starts": ms, "out_len": n}),
            Ok(Err(e)) => json!({"depth": depth, "stack_kib": stack_kib, "outcome": e}),
            Err(_) => json!({"depth": depth, "stack_kib": stack_kib, "outcome": "panic"}),
        },
        Err(e) => json!({"depth": depth, "outcome": format!("spawn: {}", e)}),
    }
}
