//! Sensor: wasm bytes -> AbsModule (abstract, index-explicit description of a binary).
//!
//! Uses wasmparser only; nothing here links a walrus code path.  Every number that may
//! exceed 2^31-1 is rendered as a string (TLC integers are 32 bit).

use serde::Serialize;
use wasmparser as wp;
use wasmparser::{Operator, Parser, Payload};

pub fn fnv(bytes: &[u8]) -> String {
    let mut h: u64 = 0xcbf29ce484222325;
    for b in bytes {
        h ^= *b as u64;
        h = h.wrapping_mul(0x100000001b3);
    }
    format!("{:016x}", h)
}

#[derive(Serialize, Clone, Debug, Default, PartialEq)]
pub struct AbsOp {
    /// operator name (wasmparser variant name)
    pub o: String,
    /// all non-entity immediates, rendered bit-exactly
    pub imm: String,
    /// entity operands: (space, index)
    pub refs: Vec<(String, u32)>,
    /// local operand (or -1)
    pub local: i32,
    /// branch labels (relative depths)
    pub labels: Vec<u32>,
    /// resolved block type "(params)->(results)" or ""
    pub bt: String,
    /// type index named by the block type, or -1
    pub bt_type: i32,
    /// absolute offset of the first byte of the operator in the binary
    pub at: u32,
    /// size in bytes
    pub len: u32,
}

#[derive(Serialize, Clone, Debug, Default)]
pub struct AbsFunc {
    pub idx: u32,
    pub imported: bool,
    pub ty: u32,
    pub sig: String,
    pub nparams: u32,
    /// types of all locals (params first)
    pub locals: Vec<String>,
    pub ops: Vec<AbsOp>,
    /// entity operands ("type" excluded) of all operators / of the operators that are not syntactically dead
    pub refs: Vec<(String, u32)>,
    pub live_refs: Vec<(String, u32)>,
    /// absolute offset of the entry (its size LEB), of the body (locals decl), of the first op, and of the end
    pub entry_at: u32,
    pub body_at: u32,
    pub end_at: u32,
}

#[derive(Serialize, Clone, Debug, Default, PartialEq)]
pub struct AbsExpr {
    /// "const" | "global" | "func" | "null" | "other"
    pub k: String,
    /// rendered value / type
    pub v: String,
    /// referenced index or -1
    pub r: i32,
}

#[derive(Serialize, Clone, Debug, Default)]
pub struct AbsImport {
    pub idx: u32,
    pub module: String,
    pub field: String,
    pub kind: String,
    /// complete type description
    pub ty: String,
    /// index in the kind's index space
    pub target: u32,
}

#[derive(Serialize, Clone, Debug, Default)]
pub struct AbsTable {
    pub idx: u32,
    pub imported: bool,
    pub ty: String,
    pub init: AbsExpr,
}
#[derive(Serialize, Clone, Debug, Default)]
pub struct AbsMemory {
    pub idx: u32,
    pub imported: bool,
    pub ty: String,
}
#[derive(Serialize, Clone, Debug, Default)]
pub struct AbsGlobal {
    pub idx: u32,
    pub imported: bool,
    pub ty: String,
    pub init: AbsExpr,
}
#[derive(Serialize, Clone, Debug, Default)]
pub struct AbsExport {
    pub idx: u32,
    pub name: String,
    pub kind: String,
    pub target: u32,
}
#[derive(Serialize, Clone, Debug, Default)]
pub struct AbsElem {
    pub idx: u32,
    pub mode: String,
    pub table: i32,
    pub offset: AbsExpr,
    pub ety: String,
    pub form: String,
    pub items: Vec<AbsExpr>,
    /// raw flag byte of the binary encoding (0..7)
    pub flag: u32,
}
#[derive(Serialize, Clone, Debug, Default)]
pub struct AbsData {
    pub idx: u32,
    pub mode: String,
    pub mem: i32,
    pub offset: AbsExpr,
    pub len: u32,
    pub digest: String,
    pub flag: u32,
}
#[derive(Serialize, Clone, Debug, Default)]
pub struct AbsSection {
    pub pos: u32,
    pub id: u32,
    pub name: String,
    pub len: u32,
    pub digest: String,
    pub at: u32,
}
#[derive(Serialize, Clone, Debug, Default)]
pub struct AbsName {
    /// "module","func","local","type","table","memory","global","elem","data","label","field","tag","unknown"
    pub kind: String,
    pub idx: i32,
    /// second index (local within function) or -1
    pub sub: i32,
    pub name: String,
}
#[derive(Serialize, Clone, Debug, Default)]
pub struct AbsProducerField {
    pub field: String,
    pub values: Vec<(String, String)>,
}

#[derive(Serialize, Clone, Debug, Default)]
pub struct AbsModule {
    pub types: Vec<String>,
    pub imports: Vec<AbsImport>,
    pub funcs: Vec<AbsFunc>,
    pub tables: Vec<AbsTable>,
    pub memories: Vec<AbsMemory>,
    pub globals: Vec<AbsGlobal>,
    pub exports: Vec<AbsExport>,
    pub start: i32,
    pub elems: Vec<AbsElem>,
    pub data: Vec<AbsData>,
    pub datacount: i32,
    pub sections: Vec<AbsSection>,
    pub names: Vec<AbsName>,
    pub name_section_ok: bool,
    pub producers: Vec<AbsProducerField>,
    pub producers_ok: bool,
    /// absolute offset of the code section *content* (the function count LEB), or -1
    pub code_at: i32,
    pub code_count_len: u32,
    pub size: u32,
    /// type indices used by some function signature, call_indirect or block type
    pub used_types: Vec<u32>,
}

pub fn valty(t: &wp::ValType) -> String {
    match t {
        wp::ValType::I32 => "i32".into(),
        wp::ValType::I64 => "i64".into(),
        wp::ValType::F32 => "f32".into(),
        wp::ValType::F64 => "f64".into(),
        wp::ValType::V128 => "v128".into(),
        wp::ValType::Ref(r) => refty(r),
    }
}
pub fn refty(r: &wp::RefType) -> String {
    if *r == wp::RefType::FUNCREF {
        "funcref".into()
    } else if *r == wp::RefType::EXTERNREF {
        "externref".into()
    } else {
        format!("{:?}", r)
    }
}
fn heapty(h: &wp::HeapType) -> String {
    match h {
        wp::HeapType::Abstract { shared: false, ty: wp::AbstractHeapType::Func } => "func".into(),
        wp::HeapType::Abstract { shared: false, ty: wp::AbstractHeapType::Extern } => "extern".into(),
        o => format!("{:?}", o),
    }
}
pub fn sig(params: &[wp::ValType], results: &[wp::ValType]) -> String {
    format!(
        "({})->({})",
        params.iter().map(valty).collect::<Vec<_>>().join(","),
        results.iter().map(valty).collect::<Vec<_>>().join(",")
    )
}
fn tablety(t: &wp::TableType) -> String {
    format!(
        "{} min={} max={} t64={} shared={}",
        refty(&t.element_type),
        t.initial,
        t.maximum.map(|m| m.to_string()).unwrap_or("none".into()),
        t.table64,
        t.shared
    )
}
fn memty(t: &wp::MemoryType) -> String {
    format!(
        "min={} max={} m64={} shared={} pagelog2={}",
        t.initial,
        t.maximum.map(|m| m.to_string()).unwrap_or("none".into()),
        t.memory64,
        t.shared,
        t.page_size_log2.map(|m| m.to_string()).unwrap_or("none".into())
    )
}
fn globalty(t: &wp::GlobalType) -> String {
    format!("{} mut={} shared={}", valty(&t.content_type), t.mutable, t.shared)
}

pub fn const_expr(e: &wp::ConstExpr) -> AbsExpr {
    let mut r = e.get_operators_reader();
    let mut ops = vec![];
    while let Ok(op) = r.read() {
        ops.push(op);
        if r.eof() {
            break;
        }
    }
    if ops.len() == 2 && matches!(ops[1], Operator::End) {
        match &ops[0] {
            Operator::I32Const { value } => return AbsExpr { k: "const".into(), v: format!("i32:{}", value), r: -1 },
            Operator::I64Const { value } => return AbsExpr { k: "const".into(), v: format!("i64:{}", value), r: -1 },
            Operator::F32Const { value } => return AbsExpr { k: "const".into(), v: format!("f32:{:08x}", value.bits()), r: -1 },
            Operator::F64Const { value } => return AbsExpr { k: "const".into(), v: format!("f64:{:016x}", value.bits()), r: -1 },
            Operator::V128Const { value } => return AbsExpr { k: "const".into(), v: format!("v128:{:032x}", value.i128() as u128), r: -1 },
            Operator::GlobalGet { global_index } => return AbsExpr { k: "global".into(), v: "".into(), r: *global_index as i32 },
            Operator::RefFunc { function_index } => return AbsExpr { k: "func".into(), v: "".into(), r: *function_index as i32 },
            Operator::RefNull { hty } => return AbsExpr { k: "null".into(), v: heapty(hty), r: -1 },
            _ => {}
        }
    }
    AbsExpr { k: "other".into(), v: format!("{:?}", ops), r: -1 }
}
fn no_expr() -> AbsExpr {
    AbsExpr { k: "none".into(), v: "".into(), r: -1 }
}

// ---- operator projection ---------------------------------------------------------------------

pub struct OpCx<'a> {
    pub types: &'a [(Vec<wp::ValType>, Vec<wp::ValType>)],
}

trait Field {
    fn rec(&self, name: &str, op: &mut AbsOp, imm: &mut Vec<String>, cx: &OpCx);
}
impl Field for u32 {
    fn rec(&self, name: &str, op: &mut AbsOp, imm: &mut Vec<String>, _cx: &OpCx) {
        let space = match name {
            "function_index" => "func",
            "type_index" => "type",
            "table_index" | "table" | "src_table" | "dst_table" => "table",
            "mem" | "src_mem" | "dst_mem" => "memory",
            "global_index" => "global",
            "data_index" | "array_data_index" => "data",
            "elem_index" | "array_elem_index" => "elem",
            "local_index" => {
                op.local = *self as i32;
                return;
            }
            "relative_depth" => {
                op.labels.push(*self);
                return;
            }
            _ => {
                imm.push(format!("{}={}", name, self));
                return;
            }
        };
        op.refs.push((space.to_string(), *self));
    }
}
impl Field for u8 {
    fn rec(&self, name: &str, _op: &mut AbsOp, imm: &mut Vec<String>, _cx: &OpCx) {
        imm.push(format!("{}={}", name, self));
    }
}
impl Field for i32 {
    fn rec(&self, name: &str, _op: &mut AbsOp, imm: &mut Vec<String>, _cx: &OpCx) {
        imm.push(format!("{}={}", name, self));
    }
}
impl Field for i64 {
    fn rec(&self, name: &str, _op: &mut AbsOp, imm: &mut Vec<String>, _cx: &OpCx) {
        imm.push(format!("{}={}", name, self));
    }
}
impl Field for wp::Ieee32 {
    fn rec(&self, name: &str, _op: &mut AbsOp, imm: &mut Vec<String>, _cx: &OpCx) {
        imm.push(format!("{}={:08x}", name, self.bits()));
    }
}
impl Field for wp::Ieee64 {
    fn rec(&self, name: &str, _op: &mut AbsOp, imm: &mut Vec<String>, _cx: &OpCx) {
        imm.push(format!("{}={:016x}", name, self.bits()));
    }
}
impl Field for wp::V128 {
    fn rec(&self, name: &str, _op: &mut AbsOp, imm: &mut Vec<String>, _cx: &OpCx) {
        imm.push(format!("{}={:032x}", name, self.i128() as u128));
    }
}
impl Field for [u8; 16] {
    fn rec(&self, name: &str, _op: &mut AbsOp, imm: &mut Vec<String>, _cx: &OpCx) {
        imm.push(format!("{}={}", name, self.iter().map(|b| format!("{:02x}", b)).collect::<String>()));
    }
}
impl Field for wp::MemArg {
    fn rec(&self, _name: &str, op: &mut AbsOp, imm: &mut Vec<String>, _cx: &OpCx) {
        imm.push(format!("align={} offset={}", self.align, self.offset));
        op.refs.push(("memory".to_string(), self.memory));
    }
}
impl Field for wp::BlockType {
    fn rec(&self, _name: &str, op: &mut AbsOp, _imm: &mut Vec<String>, cx: &OpCx) {
        if let wp::BlockType::FuncType(i) = self {
            op.bt_type = *i as i32;
        }
        op.bt = match self {
            wp::BlockType::Empty => "()->()".into(),
            wp::BlockType::Type(t) => format!("()->({})", valty(t)),
            wp::BlockType::FuncType(i) => match cx.types.get(*i as usize) {
                Some((p, r)) => sig(p, r),
                None => format!("type#{}", i),
            },
        };
    }
}
impl Field for wp::ValType {
    fn rec(&self, name: &str, _op: &mut AbsOp, imm: &mut Vec<String>, _cx: &OpCx) {
        imm.push(format!("{}={}", name, valty(self)));
    }
}
impl Field for wp::HeapType {
    fn rec(&self, name: &str, _op: &mut AbsOp, imm: &mut Vec<String>, _cx: &OpCx) {
        imm.push(format!("{}={}", name, heapty(self)));
    }
}
impl Field for wp::RefType {
    fn rec(&self, name: &str, _op: &mut AbsOp, imm: &mut Vec<String>, _cx: &OpCx) {
        imm.push(format!("{}={}", name, refty(self)));
    }
}
impl Field for wp::Ordering {
    fn rec(&self, name: &str, _op: &mut AbsOp, imm: &mut Vec<String>, _cx: &OpCx) {
        imm.push(format!("{}={:?}", name, self));
    }
}
impl<'a> Field for wp::BrTable<'a> {
    fn rec(&self, _name: &str, op: &mut AbsOp, _imm: &mut Vec<String>, _cx: &OpCx) {
        for t in self.targets() {
            op.labels.push(t.unwrap_or(u32::MAX));
        }
        op.labels.push(self.default());
    }
}
impl Field for wp::TryTable {
    fn rec(&self, name: &str, _op: &mut AbsOp, imm: &mut Vec<String>, _cx: &OpCx) {
        imm.push(format!("{}={:?}", name, self));
    }
}

macro_rules! project_op {
    ($( @$proposal:ident $op:ident $({ $($arg:ident: $argty:ty),* })? => $visit:ident)*) => {
        pub fn project_op(op: &Operator, cx: &OpCx) -> AbsOp {
            let mut a = AbsOp { local: -1, bt_type: -1, ..Default::default() };
            #[allow(unused_mut)]
            let mut imm: Vec<String> = vec![];
            match op {
                $( Operator::$op $({ $($arg),* })? => {
                    a.o = stringify!($op).to_string();
                    $( $( Field::rec($arg, stringify!($arg), &mut a, &mut imm, cx); )* )?
                } )*
            }
            a.imm = imm.join(" ");
            a
        }
        pub fn op_proposal(op: &Operator) -> &'static str {
            match op {
                $( Operator::$op $({ $($arg: _),* })? => stringify!($proposal), )*
            }
        }
    };
}
wp::for_each_operator!(project_op);

// ---- module projection -----------------------------------------------------------------------

pub fn project(bytes: &[u8]) -> anyhow::Result<AbsModule> {
    let mut m = AbsModule { start: -1, datacount: -1, code_at: -1, size: bytes.len() as u32, ..Default::default() };
    let mut types: Vec<(Vec<wp::ValType>, Vec<wp::ValType>)> = vec![];
    let mut func_types: Vec<u32> = vec![];
    let mut n_imp_funcs = 0u32;
    let mut code_idx = 0u32;
    let mut pos = 0u32;
    let mut parser = Parser::new(0);
    parser.set_features(wp::WasmFeatures::all());
    for payload in parser.parse_all(bytes) {
        let payload = payload?;
        if let Some((id, range)) = payload.as_section() {
            let name = if let Payload::CustomSection(c) = &payload { c.name().to_string() } else { String::new() };
            let digest = if let Payload::CustomSection(c) = &payload { fnv(c.data()) } else { fnv(&bytes[range.clone()]) };
            let len = if let Payload::CustomSection(c) = &payload { c.data().len() } else { range.len() };
            m.sections.push(AbsSection { pos, id: id as u32, name, len: len as u32, digest, at: range.start as u32 });
            pos += 1;
        }
        match payload {
            Payload::TypeSection(s) => {
                for ty in s.into_iter_err_on_gc_types() {
                    let ft = ty?;
                    m.types.push(sig(ft.params(), ft.results()));
                    types.push((ft.params().to_vec(), ft.results().to_vec()));
                }
            }
            Payload::ImportSection(s) => {
                for (i, imp) in s.into_iter().enumerate() {
                    let imp = imp?;
                    let (kind, ty, target) = match imp.ty {
                        wp::TypeRef::Func(t) => {
                            let idx = m.funcs.len() as u32;
                            let (p, r) = types.get(t as usize).cloned().unwrap_or_default();
                            m.funcs.push(AbsFunc { idx, imported: true, ty: t, sig: sig(&p, &r), nparams: p.len() as u32, locals: p.iter().map(valty).collect(), ..Default::default() });
                            n_imp_funcs += 1;
                            ("func", sig(&p, &r), idx)
                        }
                        wp::TypeRef::Table(t) => {
                            let idx = m.tables.len() as u32;
                            m.tables.push(AbsTable { idx, imported: true, ty: tablety(&t), init: no_expr() });
                            ("table", tablety(&t), idx)
                        }
                        wp::TypeRef::Memory(t) => {
                            let idx = m.memories.len() as u32;
                            m.memories.push(AbsMemory { idx, imported: true, ty: memty(&t) });
                            ("memory", memty(&t), idx)
                        }
                        wp::TypeRef::Global(t) => {
                            let idx = m.globals.len() as u32;
                            m.globals.push(AbsGlobal { idx, imported: true, ty: globalty(&t), init: no_expr() });
                            ("global", globalty(&t), idx)
                        }
                        wp::TypeRef::Tag(t) => ("tag", format!("{:?}", t), 0),
                    };
                    m.imports.push(AbsImport { idx: i as u32, module: imp.module.to_string(), field: imp.name.to_string(), kind: kind.into(), ty, target });
                }
            }
            Payload::FunctionSection(s) => {
                for f in s {
                    func_types.push(f?);
                }
                for t in &func_types {
                    let idx = m.funcs.len() as u32;
                    let (p, r) = types.get(*t as usize).cloned().unwrap_or_default();
                    m.funcs.push(AbsFunc { idx, imported: false, ty: *t, sig: sig(&p, &r), nparams: p.len() as u32, locals: p.iter().map(valty).collect(), ..Default::default() });
                }
            }
            Payload::TableSection(s) => {
                for t in s {
                    let t = t?;
                    let idx = m.tables.len() as u32;
                    let init = match &t.init {
                        wp::TableInit::RefNull => no_expr(),
                        wp::TableInit::Expr(e) => const_expr(e),
                    };
                    m.tables.push(AbsTable { idx, imported: false, ty: tablety(&t.ty), init });
                }
            }
            Payload::MemorySection(s) => {
                for t in s {
                    let idx = m.memories.len() as u32;
                    m.memories.push(AbsMemory { idx, imported: false, ty: memty(&t?) });
                }
            }
            Payload::GlobalSection(s) => {
                for g in s {
                    let g = g?;
                    let idx = m.globals.len() as u32;
                    m.globals.push(AbsGlobal { idx, imported: false, ty: globalty(&g.ty), init: const_expr(&g.init_expr) });
                }
            }
            Payload::ExportSection(s) => {
                for (i, e) in s.into_iter().enumerate() {
                    let e = e?;
                    let kind = match e.kind {
                        wp::ExternalKind::Func => "func",
                        wp::ExternalKind::Table => "table",
                        wp::ExternalKind::Memory => "memory",
                        wp::ExternalKind::Global => "global",
                        wp::ExternalKind::Tag => "tag",
                    };
                    m.exports.push(AbsExport { idx: i as u32, name: e.name.to_string(), kind: kind.into(), target: e.index });
                }
            }
            Payload::StartSection { func, .. } => m.start = func as i32,
            Payload::ElementSection(s) => {
                for (i, e) in s.into_iter().enumerate() {
                    let e = e?;
                    let flag = bytes[e.range.start] as u32;
                    let (mode, table, offset) = match &e.kind {
                        wp::ElementKind::Passive => ("passive", -1, no_expr()),
                        wp::ElementKind::Declared => ("declared", -1, no_expr()),
                        wp::ElementKind::Active { table_index, offset_expr } => ("active", table_index.unwrap_or(0) as i32, const_expr(offset_expr)),
                    };
                    let (ety, form, items) = match e.items {
                        wp::ElementItems::Functions(fs) => {
                            let mut v = vec![];
                            for f in fs {
                                v.push(AbsExpr { k: "func".into(), v: "".into(), r: f? as i32 });
                            }
                            ("funcref".to_string(), "funcs", v)
                        }
                        wp::ElementItems::Expressions(rt, es) => {
                            let mut v = vec![];
                            for x in es {
                                v.push(const_expr(&x?));
                            }
                            (refty(&rt), "exprs", v)
                        }
                    };
                    m.elems.push(AbsElem { idx: i as u32, mode: mode.into(), table, offset, ety, form: form.into(), items, flag });
                }
            }
            Payload::DataCountSection { count, .. } => m.datacount = count as i32,
            Payload::DataSection(s) => {
                for (i, d) in s.into_iter().enumerate() {
                    let d = d?;
                    let flag = bytes[d.range.start] as u32;
                    let (mode, mem, offset) = match &d.kind {
                        wp::DataKind::Passive => ("passive", -1, no_expr()),
                        wp::DataKind::Active { memory_index, offset_expr } => ("active", *memory_index as i32, const_expr(offset_expr)),
                    };
                    m.data.push(AbsData { idx: i as u32, mode: mode.into(), mem, offset, len: d.data.len() as u32, digest: fnv(d.data), flag });
                }
            }
            Payload::CodeSectionStart { range, count, .. } => {
                m.code_at = range.start as i32;
                let _ = count;
                // the count may be over-long encoded; measure it
                let mut r = wp::BinaryReader::new(&bytes[range.start..range.end], range.start, wp::WasmFeatures::all());
                let before = r.original_position();
                let _ = r.read_var_u32();
                let measured = (r.original_position() - before) as u32;
                m.code_count_len = measured;
            }
            Payload::CodeSectionEntry(body) => {
                let fidx = (n_imp_funcs + code_idx) as usize;
                code_idx += 1;
                let cx = OpCx { types: &types };
                let range = body.range();
                // size LEB precedes the body (canonical encoding assumed)
                let mut leb = 1;
                let mut sz = range.len();
                while sz >= 128 {
                    sz >>= 7;
                    leb += 1;
                }
                if let Some(f) = m.funcs.get_mut(fidx) {
                    f.entry_at = (range.start - leb) as u32;
                    f.body_at = range.start as u32;
                    f.end_at = range.end as u32;
                    let lr = body.get_locals_reader()?;
                    for l in lr {
                        let (n, t) = l?;
                        // guard against absurd counts in invalid modules
                        for _ in 0..n.min(100_000) {
                            f.locals.push(valty(&t));
                        }
                    }
                    let mut r = body.get_operators_reader()?;
                    while !r.eof() {
                        let at = r.original_position();
                        let op = r.read()?;
                        let mut a = project_op(&op, &cx);
                        a.at = at as u32;
                        a.len = (r.original_position() - at) as u32;
                        f.ops.push(a);
                    }
                    summarise_refs(f);
                }
            }
            Payload::CustomSection(c) => match c.name() {
                "name" => {
                    m.name_section_ok = true;
                    let r = wp::NameSectionReader::new(wp::BinaryReader::new(c.data(), c.data_offset(), wp::WasmFeatures::all()));
                    if decode_names(r, &mut m.names).is_err() {
                        m.name_section_ok = false;
                    }
                }
                "producers" => {
                    m.producers_ok = true;
                    if decode_producers(c.data(), c.data_offset(), &mut m.producers).is_err() {
                        m.producers_ok = false;
                    }
                }
                _ => {}
            },
            _ => {}
        }
    }
    let mut used: Vec<u32> = vec![];
    for f in &m.funcs {
        if !used.contains(&f.ty) {
            used.push(f.ty);
        }
        for op in &f.ops {
            for r in &op.refs {
                if r.0 == "type" && !used.contains(&r.1) {
                    used.push(r.1);
                }
            }
            if op.bt_type >= 0 && !used.contains(&(op.bt_type as u32)) {
                used.push(op.bt_type as u32);
            }
        }
    }
    used.sort();
    m.used_types = used;
    Ok(m)
}

fn decode_producers(data: &[u8], off: usize, out: &mut Vec<AbsProducerField>) -> anyhow::Result<()> {
    let r = wp::ProducersSectionReader::new(wp::BinaryReader::new(data, off, wp::WasmFeatures::all()))?;
    for f in r {
        let f = f?;
        let mut values = vec![];
        for v in f.values {
            let v = v?;
            values.push((v.name.to_string(), v.version.to_string()));
        }
        out.push(AbsProducerField { field: f.name.to_string(), values });
    }
    Ok(())
}

fn decode_names(r: wp::NameSectionReader, out: &mut Vec<AbsName>) -> anyhow::Result<()> {
    fn map(kind: &str, m: wp::NameMap, out: &mut Vec<AbsName>) -> anyhow::Result<()> {
        for n in m {
            let n = n?;
            out.push(AbsName { kind: kind.into(), idx: n.index as i32, sub: -1, name: n.name.to_string() });
        }
        Ok(())
    }
    fn imap(kind: &str, m: wp::IndirectNameMap, out: &mut Vec<AbsName>) -> anyhow::Result<()> {
        for f in m {
            let f = f?;
            for n in f.names {
                let n = n?;
                out.push(AbsName { kind: kind.into(), idx: f.index as i32, sub: n.index as i32, name: n.name.to_string() });
            }
        }
        Ok(())
    }
    for sub in r {
        match sub? {
            wp::Name::Module { name, .. } => out.push(AbsName { kind: "module".into(), idx: -1, sub: -1, name: name.to_string() }),
            wp::Name::Function(m) => map("func", m, out)?,
            wp::Name::Local(m) => imap("local", m, out)?,
            wp::Name::Label(m) => imap("label", m, out)?,
            wp::Name::Type(m) => map("type", m, out)?,
            wp::Name::Table(m) => map("table", m, out)?,
            wp::Name::Memory(m) => map("memory", m, out)?,
            wp::Name::Global(m) => map("global", m, out)?,
            wp::Name::Element(m) => map("elem", m, out)?,
            wp::Name::Data(m) => map("data", m, out)?,
            wp::Name::Field(m) => imap("field", m, out)?,
            wp::Name::Tag(m) => map("tag", m, out)?,
            wp::Name::Unknown { ty, .. } => out.push(AbsName { kind: "unknown".into(), idx: ty as i32, sub: -1, name: String::new() }),
        }
    }
    Ok(())
}

/// walrus's feature set (config.rs get_wasmparser_wasm_features), restated independently.
pub fn walrus_features(only_stable: bool) -> wp::WasmFeatures {
    use wp::WasmFeatures as W;
    let mut f = W::empty();
    for x in [W::FLOATS, W::MUTABLE_GLOBAL, W::SATURATING_FLOAT_TO_INT, W::SIGN_EXTENSION, W::MULTI_VALUE, W::REFERENCE_TYPES, W::BULK_MEMORY, W::SIMD, W::RELAXED_SIMD, W::TAIL_CALL] {
        f.insert(x);
    }
    if !only_stable {
        for x in [W::MULTI_MEMORY, W::MEMORY64, W::THREADS] {
            f.insert(x);
        }
    }
    f
}

pub fn validate_with(bytes: &[u8], f: wp::WasmFeatures) -> Result<(), String> {
    wp::Validator::new_with_features(f).validate_all(bytes).map(|_| ()).map_err(|e| e.to_string())
}
pub fn validate(bytes: &[u8]) -> Result<(), String> {
    validate_with(bytes, walrus_features(false))
}

/// Syntactic liveness: an operator is dead when it follows an unconditional transfer of control in the
/// same block (br, br_table, return, unreachable) or sits in a block that was entered dead.  This is the
/// notion the elision matcher of Trace_Body.tla uses (tail calls are *not* terminators for walrus's parser,
/// so code after them counts as live here; the matcher tolerates either).
pub fn liveness(ops: &[AbsOp]) -> Vec<bool> {
    let mut out = Vec::with_capacity(ops.len());
    // stack of (live now, live at entry)
    let mut st: Vec<(bool, bool)> = vec![(true, true)];
    for op in ops {
        let (live, entry) = *st.last().unwrap_or(&(true, true));
        match op.o.as_str() {
            "Block" | "Loop" | "If" => {
                out.push(live);
                st.push((live, live));
            }
            "Else" => {
                out.push(entry);
                if let Some(t) = st.last_mut() {
                    t.0 = t.1;
                }
            }
            "End" => {
                out.push(entry);
                st.pop();
            }
            "Br" | "BrTable" | "Return" | "Unreachable" => {
                out.push(live);
                if let Some(t) = st.last_mut() {
                    t.0 = false;
                }
            }
            _ => out.push(live),
        }
    }
    out
}

pub fn summarise_refs(f: &mut AbsFunc) {
    let live = liveness(&f.ops);
    let mut all: Vec<(String, u32)> = vec![];
    let mut lv: Vec<(String, u32)> = vec![];
    for (op, l) in f.ops.iter().zip(live.iter()) {
        for r in &op.refs {
            if r.0 == "type" {
                continue;
            }
            if !all.contains(r) {
                all.push(r.clone());
            }
            if *l && !lv.contains(r) {
                lv.push(r.clone());
            }
        }
    }
    f.refs = all;
    f.live_refs = lv;
}
