//! Replay of TLC-generated behaviours of Locals.tla: locals allocated in the module's arena in any order, some named, a
//! sequence of them handed to FunctionBuilder::finish as the parameters, a body that reads some of them; the emitted
//! function's locals, the local operands of its body and the local names of the name section are logged.

use crate::absmod;
use crate::run;
use serde_json::{json, Value as Json};
use std::panic::{catch_unwind, AssertUnwindSafe};
use walrus::*;

fn vt(s: &str) -> ValType {
    match s {
        "i64" => ValType::I64,
        "f32" => ValType::F32,
        "f64" => ValType::F64,
        _ => ValType::I32,
    }
}

pub fn replay(id: &str, hist: &[Json]) -> Json {
    match catch_unwind(AssertUnwindSafe(|| replay_inner(id, hist))) {
        Ok(j) => j,
        Err(p) => json!({"id": id, "source": format!("locals:{}", id), "outcome": format!("panic:{}", run::short(&run::panic_msg(p))), "hist": hist,
                         "valid": false, "outlocals": [], "outuses": [], "names": []}),
    }
}

fn replay_inner(id: &str, hist: &[Json]) -> Json {
    let mut m = Module::default();
    let mut ids: Vec<LocalId> = vec![];
    let mut args: Vec<LocalId> = vec![];
    let mut uses: Vec<(LocalId, String)> = vec![];
    for e in hist {
        match e["op"].as_str().unwrap() {
            "local" => {
                let l = m.locals.add(vt(e["ty"].as_str().unwrap()));
                if e["named"] == true {
                    m.locals.get_mut(l).name = Some(format!("n{}", ids.len()));
                }
                ids.push(l);
            }
            "args" => args = e["ids"].as_array().unwrap().iter().map(|x| ids[x.as_u64().unwrap() as usize]).collect(),
            "use" => uses.push((ids[e["id"].as_u64().unwrap() as usize], e["how"].as_str().unwrap_or("get").to_string())),
            _ => {}
        }
    }
    let params: Vec<ValType> = args.iter().map(|a| m.locals.get(*a).ty()).collect();
    let mut b = FunctionBuilder::new(&mut m.types, &params, &[]);
    {
        let mut body = b.func_body();
        for (u, how) in &uses {
            let push = |b: &mut InstrSeqBuilder, t: ValType| match t {
                ValType::I64 => drop(b.i64_const(1)),
                ValType::F32 => drop(b.f32_const(1.0)),
                ValType::F64 => drop(b.f64_const(1.0)),
                _ => drop(b.i32_const(1)),
            };
            match how.as_str() {
                "set" => {
                    push(&mut body, m.locals.get(*u).ty());
                    body.local_set(*u);
                }
                "tee" => {
                    push(&mut body, m.locals.get(*u).ty());
                    body.local_tee(*u).drop();
                }
                _ => {
                    body.local_get(*u).drop();
                }
            }
        }
    }
    let f = b.finish(args.clone(), &mut m.funcs);
    m.exports.add("f", f);
    let out = m.emit_wasm();
    let am = absmod::project(&out).unwrap_or_default();
    let func = am.funcs.iter().find(|f| !f.imported);
    let outlocals: Vec<String> = func.map(|f| f.locals.clone()).unwrap_or_default();
    let outuses: Vec<i32> = func.map(|f| f.ops.iter().filter(|o| o.o == "LocalGet" || o.o == "LocalSet" || o.o == "LocalTee").map(|o| o.local).collect()).unwrap_or_default();
    let names: Vec<Json> = am.names.iter().filter(|n| n.kind == "local").map(|n| json!([n.sub, n.name])).collect();
    json!({"id": id, "source": format!("locals:{}", id), "outcome": "ok", "hist": hist, "valid": absmod::validate(&out).is_ok(),
           "outlocals": outlocals, "outuses": outuses, "names": names})
}
