pub mod absmod;
pub mod cases;
pub mod concretise;
pub mod gen;
pub mod optable;
pub mod run;
