pub mod absmod;
pub mod apistate;
pub mod arena;
pub mod cases;
pub mod concretise;
pub mod gen;
pub mod optable;
pub mod run;
