//! Sensor: a live `walrus::Module` -> AbsState, through the public API only.
//!
//! The result has the shape of an AbsModule but is indexed by *arena id*: entry k of a space
//! describes the item whose id has index k; ids that are not live are filled with `dead`
//! placeholders.  References are ids.

use crate::absmod::{fnv, AbsData, AbsElem, AbsExport, AbsExpr, AbsFunc, AbsGlobal, AbsImport, AbsMemory, AbsModule, AbsTable};
use walrus::ir::Value;
use walrus::{ConstExpr, DataKind, ElementItems, ElementKind, ExportItem, FunctionKind, GlobalKind, ImportKind, Module, RefType, ValType};

pub fn vt(t: &ValType) -> String {
    match t {
        ValType::I32 => "i32".into(),
        ValType::I64 => "i64".into(),
        ValType::F32 => "f32".into(),
        ValType::F64 => "f64".into(),
        ValType::V128 => "v128".into(),
        ValType::Ref(r) => rt(r),
    }
}
pub fn rt(r: &RefType) -> String {
    match r {
        RefType::Funcref => "funcref".into(),
        RefType::Externref => "externref".into(),
        _ => "otherref".into(),
    }
}
fn sig(m: &Module, ty: walrus::TypeId) -> String {
    let t = m.types.get(ty);
    format!("({})->({})", t.params().iter().map(vt).collect::<Vec<_>>().join(","), t.results().iter().map(vt).collect::<Vec<_>>().join(","))
}
fn none() -> AbsExpr {
    AbsExpr { k: "none".into(), v: "".into(), r: -1 }
}
fn expr(e: &ConstExpr) -> AbsExpr {
    match e {
        ConstExpr::Value(Value::I32(v)) => AbsExpr { k: "const".into(), v: format!("i32:{}", v), r: -1 },
        ConstExpr::Value(Value::I64(v)) => AbsExpr { k: "const".into(), v: format!("i64:{}", v), r: -1 },
        ConstExpr::Value(Value::F32(v)) => AbsExpr { k: "const".into(), v: format!("f32:{:08x}", v.to_bits()), r: -1 },
        ConstExpr::Value(Value::F64(v)) => AbsExpr { k: "const".into(), v: format!("f64:{:016x}", v.to_bits()), r: -1 },
        ConstExpr::Value(Value::V128(v)) => AbsExpr { k: "const".into(), v: format!("v128:{:032x}", v), r: -1 },
        ConstExpr::Global(g) => AbsExpr { k: "global".into(), v: "".into(), r: g.index() as i32 },
        ConstExpr::RefFunc(f) => AbsExpr { k: "func".into(), v: "".into(), r: f.index() as i32 },
        ConstExpr::RefNull(RefType::Funcref) => AbsExpr { k: "null".into(), v: "func".into(), r: -1 },
        ConstExpr::RefNull(RefType::Externref) => AbsExpr { k: "null".into(), v: "extern".into(), r: -1 },
        ConstExpr::RefNull(_) => AbsExpr { k: "null".into(), v: "other".into(), r: -1 },
    }
}

fn place<T: Clone>(v: &mut Vec<T>, idx: usize, item: T, dead: &T) {
    while v.len() <= idx {
        v.push(dead.clone());
    }
    v[idx] = item;
}

/// AbsState of a module.  `state.types` is indexed by type id as well (dead / internal entries are "dead").
pub fn project_state(m: &Module) -> AbsModule {
    let mut s = AbsModule { start: -1, datacount: -1, code_at: -1, ..Default::default() };
    // types
    for t in m.types.iter() {
        place(&mut s.types, t.id().index(), sig(m, t.id()), &"dead".to_string());
    }
    // funcs
    let dead_f = AbsFunc { sig: "dead".into(), ..Default::default() };
    for f in m.funcs.iter() {
        let imported = matches!(f.kind, FunctionKind::Import(_));
        let nparams = m.types.get(f.ty()).params().len() as u32;
        // the entities the body names (by arena id), as a visitor sees them
        let refs: Vec<(String, u32)> = match &f.kind {
            FunctionKind::Local(lf) => crate::edits::body_refs(lf).into_iter().map(|(sp, id)| (sp, id as u32)).collect(),
            _ => vec![],
        };
        place(&mut s.funcs, f.id().index(), AbsFunc { idx: f.id().index() as u32, imported, ty: f.ty().index() as u32, sig: sig(m, f.ty()), nparams, refs: refs.clone(), live_refs: refs, ..Default::default() }, &dead_f);
    }
    let dead_t = AbsTable { ty: "dead".into(), init: none(), ..Default::default() };
    for t in m.tables.iter() {
        let ty = format!("{} min={} max={} t64={} shared=false", rt(&t.element_ty), t.initial, t.maximum.map(|x| x.to_string()).unwrap_or("none".into()), t.table64);
        place(&mut s.tables, t.id().index(), AbsTable { idx: t.id().index() as u32, imported: t.import.is_some(), ty, init: none() }, &dead_t);
    }
    let dead_m = AbsMemory { ty: "dead".into(), ..Default::default() };
    for t in m.memories.iter() {
        let ty = format!("min={} max={} m64={} shared={} pagelog2={}", t.initial, t.maximum.map(|x| x.to_string()).unwrap_or("none".into()), t.memory64, t.shared, t.page_size_log2.map(|x| x.to_string()).unwrap_or("none".into()));
        place(&mut s.memories, t.id().index(), AbsMemory { idx: t.id().index() as u32, imported: t.import.is_some(), ty }, &dead_m);
    }
    let dead_g = AbsGlobal { ty: "dead".into(), init: none(), ..Default::default() };
    for g in m.globals.iter() {
        let ty = format!("{} mut={} shared={}", vt(&g.ty), g.mutable, g.shared);
        let (imported, init) = match &g.kind {
            GlobalKind::Import(_) => (true, none()),
            GlobalKind::Local(e) => (false, expr(e)),
        };
        place(&mut s.globals, g.id().index(), AbsGlobal { idx: g.id().index() as u32, imported, ty, init }, &dead_g);
    }
    let dead_e = AbsElem { mode: "dead".into(), table: -1, offset: none(), ..Default::default() };
    for e in m.elements.iter() {
        let (mode, table, offset) = match &e.kind {
            ElementKind::Passive => ("passive", -1, none()),
            ElementKind::Declared => ("declared", -1, none()),
            ElementKind::Active { table, offset } => ("active", table.index() as i32, expr(offset)),
        };
        let (ety, form, items) = match &e.items {
            ElementItems::Functions(fs) => ("funcref".to_string(), "funcs", fs.iter().map(|f| AbsExpr { k: "func".into(), v: "".into(), r: f.index() as i32 }).collect()),
            ElementItems::Expressions(t, es) => (rt(t), "exprs", es.iter().map(expr).collect()),
        };
        place(&mut s.elems, e.id().index(), AbsElem { idx: e.id().index() as u32, mode: mode.into(), table, offset, ety, form: form.into(), items, flag: 0 }, &dead_e);
    }
    let dead_d = AbsData { mode: "dead".into(), mem: -1, offset: none(), ..Default::default() };
    for d in m.data.iter() {
        let (mode, mem, offset) = match &d.kind {
            DataKind::Passive => ("passive", -1, none()),
            DataKind::Active { memory, offset } => ("active", memory.index() as i32, expr(offset)),
        };
        place(&mut s.data, d.id().index(), AbsData { idx: d.id().index() as u32, mode: mode.into(), mem, offset, len: d.value.len() as u32, digest: fnv(&d.value), flag: 0 }, &dead_d);
    }
    // imports / exports: live ones in arena (= iteration) order
    for (k, i) in m.imports.iter().enumerate() {
        let (kind, ty, target) = match i.kind {
            ImportKind::Function(f) => ("func", s.funcs.get(f.index()).map(|x| x.sig.clone()).unwrap_or_default(), f.index()),
            ImportKind::Table(t) => ("table", s.tables.get(t.index()).map(|x| x.ty.clone()).unwrap_or_default(), t.index()),
            ImportKind::Memory(t) => ("memory", s.memories.get(t.index()).map(|x| x.ty.clone()).unwrap_or_default(), t.index()),
            ImportKind::Global(t) => ("global", s.globals.get(t.index()).map(|x| x.ty.clone()).unwrap_or_default(), t.index()),
        };
        s.imports.push(AbsImport { idx: k as u32, module: i.module.clone(), field: i.name.clone(), kind: kind.into(), ty, target: target as u32 });
    }
    for (k, e) in m.exports.iter().enumerate() {
        let (kind, target) = match e.item {
            ExportItem::Function(f) => ("func", f.index()),
            ExportItem::Table(f) => ("table", f.index()),
            ExportItem::Memory(f) => ("memory", f.index()),
            ExportItem::Global(f) => ("global", f.index()),
        };
        s.exports.push(AbsExport { idx: k as u32, name: e.name.clone(), kind: kind.into(), target: target as u32 });
    }
    s.start = m.start.map(|f| f.index() as i32).unwrap_or(-1);
    s
}

/// live ids per space (for sigma-like maps over ids)
pub fn live_ids(m: &Module) -> serde_json::Value {
    serde_json::json!({
        "func": m.funcs.iter().map(|x| x.id().index()).collect::<Vec<_>>(),
        "type": m.types.iter().map(|x| x.id().index()).collect::<Vec<_>>(),
        "table": m.tables.iter().map(|x| x.id().index()).collect::<Vec<_>>(),
        "memory": m.memories.iter().map(|x| x.id().index()).collect::<Vec<_>>(),
        "global": m.globals.iter().map(|x| x.id().index()).collect::<Vec<_>>(),
        "elem": m.elements.iter().map(|x| x.id().index()).collect::<Vec<_>>(),
        "data": m.data.iter().map(|x| x.id().index()).collect::<Vec<_>>(),
    })
}
