//! C15: replay TLC-generated build histories (Builder.tla) on the real FunctionBuilder.

use crate::absmod;
use serde_json::{json, Value as Json};
use std::panic::{catch_unwind, AssertUnwindSafe};
use walrus::ir::*;
use walrus::*;

fn slim(o: &absmod::AbsOp) -> Json {
    json!({"o": o.o, "imm": o.imm, "refs": o.refs, "local": o.local, "labels": o.labels, "bt": o.bt})
}

/// the Module with the function built from a history (not emitted)
pub fn build_module(hist: &[Json]) -> Module {
    build(hist).0
}

pub fn replay(id: &str, hist: &[Json]) -> Json {
    let r = catch_unwind(AssertUnwindSafe(|| {
        let (mut m, _f) = build(hist);
        m.emit_wasm()
    }));
    replay_result(id, hist, r)
}

fn build(hist: &[Json]) -> (Module, FunctionId) {
    {
        let mut m = Module::default();
        // allocation order differs from slot order on purpose: a scratch local first, the parameters last and reversed
        let a = m.locals.add(ValType::I32);
        let p1 = m.locals.add(ValType::I32);
        let b = m.locals.add(ValType::I64);
        let _unused = m.locals.add(ValType::F32);
        let p0 = m.locals.add(ValType::I32);
        // two tables, two memories, a passive element and a passive data segment for the two-operand instructions
        let t0 = m.tables.add_local(false, 1, None, RefType::Funcref);
        let t1 = m.tables.add_local(false, 2, None, RefType::Funcref);
        let m0 = m.memories.add_local(false, false, 1, None, None);
        let m1 = m.memories.add_local(false, false, 2, None, None);
        let e0 = m.elements.add(ElementKind::Passive, ElementItems::Expressions(RefType::Funcref, vec![ConstExpr::RefNull(RefType::Funcref)]));
        let d0 = m.data.add(DataKind::Passive, vec![7]);
        let mut fb = FunctionBuilder::new(&mut m.types, &[ValType::I32, ValType::I32], &[]);
        let mut real: Vec<InstrSeqId> = vec![fb.func_body_id()];
        for (k, e) in hist.iter().enumerate() {
            let op = e["op"].as_str().unwrap();
            let sq = e["seq"].as_i64().unwrap();
            let pos = e["pos"].as_u64().unwrap() as usize;
            let d = e["d"].as_i64().unwrap();
            // at the end of a sequence the appending API and the positional API (position = length) must do the same:
            // which of the two is used alternates with the operation's place in the history
            let at_end = |fb: &mut FunctionBuilder, s: InstrSeqId| fb.instr_seq(s).instrs().len() == pos && (k + hist.len()) % 2 == 0;
            match op {
                "unit" => {
                    let s = real[sq as usize];
                    let v = e["v"].as_i64().unwrap();
                    let zero = || -> Instr { Const { value: Value::I32(0) }.into() };
                    let kind = e["kind"].as_str().unwrap();
                    // the two-operand instructions: through the builder's own method when appending (its parameter order is
                    // (source, destination)), as an IR struct with named fields when inserting
                    let end = at_end(&mut fb, s);
                    if end && ["tcopy", "mcopy"].contains(&kind) {
                        let mut sb = fb.instr_seq(s);
                        sb.i32_const(0).i32_const(0).i32_const(0);
                        if kind == "tcopy" {
                            sb.table_copy(t0, t1);
                        } else {
                            sb.memory_copy(m1, m0);
                        }
                        continue;
                    }
                    let ins: Vec<Instr> = match kind {
                        "set32" => vec![Const { value: Value::I32(v as i32) }.into(), LocalSet { local: a }.into()],
                        "set64" => vec![Const { value: Value::I64(v) }.into(), LocalSet { local: b }.into()],
                        "getq" => vec![LocalGet { local: p1 }.into(), Drop {}.into()],
                        "tcopy" => vec![zero(), zero(), zero(), TableCopy { src: t0, dst: t1 }.into()],
                        "mcopy" => vec![zero(), zero(), zero(), MemoryCopy { src: m1, dst: m0 }.into()],
                        "tinit" => vec![zero(), zero(), zero(), TableInit { table: t1, elem: e0 }.into()],
                        "minit" => vec![zero(), zero(), zero(), MemoryInit { memory: m1, data: d0 }.into()],
                        _ => vec![LocalGet { local: p0 }.into(), Drop {}.into()],
                    };
                    if end {
                        // the append path
                        let mut sb = fb.instr_seq(s);
                        for i in ins {
                            sb.instr(i);
                        }
                    } else {
                        let mut sb = fb.instr_seq(s);
                        for (j, i) in ins.into_iter().enumerate() {
                            sb.instr_at(pos + j, i);
                        }
                    }
                }
                "block" | "loop" => {
                    let s = real[sq as usize];
                    let mut new = None;
                    let end = at_end(&mut fb, s);
                    let mut sb = fb.instr_seq(s);
                    match (op, end) {
                        ("block", true) => {
                            sb.block(None, |x| new = Some(x.id()));
                        }
                        ("block", false) => {
                            sb.block_at(pos, None, |x| new = Some(x.id()));
                        }
                        ("loop", true) => {
                            sb.loop_(None, |x| new = Some(x.id()));
                        }
                        _ => {
                            sb.loop_at(pos, None, |x| new = Some(x.id()));
                        }
                    }
                    real.push(new.unwrap());
                }
                "tblock" => {
                    // a block / loop whose signature comes from InstrSeqType::new: (i32) -> (i32) or () -> (i32)
                    let s = real[sq as usize];
                    let sig = e["v"].as_i64().unwrap();
                    let ty = if sig == 1 { InstrSeqType::new(&mut m.types, &[ValType::I32], &[ValType::I32]) } else { InstrSeqType::new(&mut m.types, &[], &[ValType::I32]) };
                    let is_loop = e["kind"] == "loop";
                    let mut new = None;
                    let end = at_end(&mut fb, s);
                    let mut sb = fb.instr_seq(s);
                    let mut at = pos;
                    if sig == 1 {
                        if end {
                            sb.i32_const(7);
                        } else {
                            sb.instr_at(at, Const { value: Value::I32(7) });
                        }
                        at += 1;
                    }
                    let fill = |x: &mut InstrSeqBuilder, new: &mut Option<InstrSeqId>| {
                        if sig != 1 {
                            x.i32_const(7);
                        }
                        *new = Some(x.id());
                    };
                    match (is_loop, end) {
                        (false, true) => {
                            sb.block(ty, |x| fill(x, &mut new));
                        }
                        (false, false) => {
                            sb.block_at(at, ty, |x| fill(x, &mut new));
                        }
                        (true, true) => {
                            sb.loop_(ty, |x| fill(x, &mut new));
                        }
                        (true, false) => {
                            sb.loop_at(at, ty, |x| fill(x, &mut new));
                        }
                    }
                    if end {
                        sb.drop();
                    } else {
                        sb.instr_at(at + 1, Drop {});
                    }
                    real.push(new.unwrap());
                }
                "ifelse" => {
                    let s = real[sq as usize];
                    let (mut c, mut alt) = (None, None);
                    let end = at_end(&mut fb, s);
                    let mut sb = fb.instr_seq(s);
                    if end {
                        sb.i32_const(1).if_else(None, |x| c = Some(x.id()), |x| alt = Some(x.id()));
                    } else {
                        sb.instr_at(pos, Const { value: Value::I32(1) });
                        sb.if_else_at(pos + 1, None, |x| c = Some(x.id()), |x| alt = Some(x.id()));
                    }
                    real.push(c.unwrap());
                    real.push(alt.unwrap());
                }
                "dangling" => {
                    let s = fb.dangling_instr_seq(None).id();
                    real.push(s);
                }
                "attach" => {
                    let s = real[sq as usize];
                    let dseq = real[d as usize];
                    if e["kind"] == "loop" {
                        fb.instr_seq(s).instr_at(pos, Loop { seq: dseq });
                    } else {
                        fb.instr_seq(s).instr_at(pos, Block { seq: dseq });
                    }
                }
                "attachif" => {
                    let s = real[sq as usize];
                    let (c, alt) = (real[d as usize], real[e["v"].as_i64().unwrap() as usize]);
                    fb.instr_seq(s).instr_at(pos, Const { value: Value::I32(1) }).instr_at(pos + 1, IfElse { consequent: c, alternative: alt });
                }
                "brtable" => {
                    let s = real[sq as usize];
                    let (t1, t2) = (real[d as usize], real[e["v"].as_i64().unwrap() as usize]);
                    fb.instr_seq(s).instr_at(pos, Const { value: Value::I32(0) }).instr_at(pos + 1, BrTable { blocks: vec![t1].into(), default: t2 });
                }
                "br" => {
                    let s = real[sq as usize];
                    fb.instr_seq(s).instr_at(pos, Br { block: real[d as usize] });
                }
                "brif" => {
                    let s = real[sq as usize];
                    fb.instr_seq(s).instr_at(pos, Const { value: Value::I32(0) }).instr_at(pos + 1, BrIf { block: real[d as usize] });
                }
                _ => {}
            }
        }
        let f = fb.finish(vec![p0, p1], &mut m.funcs);
        m.exports.add("f", f);
        (m, f)
    }
}

fn replay_result(id: &str, hist: &[Json], r: std::thread::Result<Vec<u8>>) -> Json {
    match r {
        Ok(bytes) => {
            let valid = absmod::validate(&bytes);
            let am = absmod::project(&bytes).unwrap_or_default();
            let f = am.funcs.iter().find(|f| !f.imported);
            json!({"id": id, "source": format!("builder:{}", id), "hist": hist, "outcome": "ok", "out_valid": valid.is_ok(),
                   "outops": f.map(|f| f.ops.iter().map(slim).collect::<Vec<_>>()).unwrap_or_default(),
                   "outlocals": f.map(|f| f.locals.clone()).unwrap_or_default()})
        }
        Err(p) => json!({"id": id, "source": format!("builder:{}", id), "hist": hist, "outcome": format!("panic:{}", crate::run::short(&crate::run::panic_msg(p))), "out_valid": false, "outops": [], "outlocals": []}),
    }
}

pub fn read_histories(path: &str) -> Vec<Vec<Json>> {
    let text = std::fs::read_to_string(path).expect("history file");
    let mut out = vec![];
    for l in text.lines() {
        let l = l.trim();
        if !l.starts_with('"') {
            continue;
        }
        let Ok(inner) = serde_json::from_str::<String>(l) else { continue };
        let Some(payload) = inner.strip_prefix("CASE ") else { continue };
        let v: Json = serde_json::from_str(payload).unwrap();
        out.push(v.as_array().unwrap().clone());
    }
    out
}
