//! C01: project a wasm binary of the Exec.tla subset into the program shape that Exec.tla interprets
//! (nested instruction trees, 0-based indices, small integers).  Returns None when the module uses
//! anything outside the subset (the case is then skipped and counted).

use crate::absmod::{self, AbsModule, AbsOp};
use serde_json::{json, Value as Json};

fn imm_val(imm: &str, key: &str) -> Option<i64> {
    imm.split(' ').find_map(|p| p.strip_prefix(&format!("{}=", key))).and_then(|v| v.parse().ok())
}
fn arity(bt: &str) -> (usize, usize) {
    let (p, r) = bt.split_once("->").unwrap_or(("()", "()"));
    let n = |x: &str| x.trim_matches(|c| c == '(' || c == ')').split(',').filter(|t| !t.is_empty()).count();
    (n(p), n(r))
}

const BIN: [&str; 12] = ["I32Add", "I32Sub", "I32Mul", "I32And", "I32Or", "I32Xor", "I32Eq", "I32Ne", "I32LtU", "I32GtU", "I32LeU", "I32GeU"];

/// flat operator list -> nested tree; consumes up to (and including) the matching End / Else
fn nest(ops: &[AbsOp], pos: &mut usize, m: &AbsModule) -> Option<(Vec<Json>, String)> {
    let mut out = vec![];
    while *pos < ops.len() {
        let o = &ops[*pos];
        *pos += 1;
        let name = o.o.as_str();
        let j = match name {
            "End" => return Some((out, "End".into())),
            "Else" => return Some((out, "Else".into())),
            "Block" | "Loop" => {
                let (np, nr) = arity(&o.bt);
                let (body, _) = nest(ops, pos, m)?;
                json!({"o": name, "np": np, "nr": nr, "body": body})
            }
            "If" => {
                let (np, nr) = arity(&o.bt);
                let (body, closer) = nest(ops, pos, m)?;
                let alt = if closer == "Else" { nest(ops, pos, m)?.0 } else { vec![] };
                json!({"o": "If", "np": np, "nr": nr, "body": body, "alt": alt})
            }
            "I32Const" => json!({"o": name, "v": imm_val(&o.imm, "value")?.rem_euclid(32768)}),
            "Nop" | "Drop" | "Select" | "I32Eqz" | "Return" | "Unreachable" => json!({"o": name}),
            // (the typed form of select: the operands are i32 here, see the signature filter)
            "TypedSelect" if o.imm.contains("i32") || o.imm.contains("I32") => json!({"o": "Select"}),
            n if BIN.contains(&n) => json!({"o": name}),
            "LocalGet" | "LocalSet" | "LocalTee" => json!({"o": name, "i": o.local}),
            "GlobalGet" | "GlobalSet" => json!({"o": name, "i": o.refs.first()?.1}),
            "I32Load" | "I32Load8U" | "I32Store" | "I32Store8" => {
                let off = imm_val(&o.imm, "offset")?;
                if off > 1_000_000 {
                    return None;
                }
                json!({"o": if name.starts_with("I32Load") { "Load" } else { "Store" }, "m": o.refs.first()?.1, "off": off, "w": if name.ends_with('8') || name.ends_with("8U") { 1 } else { 4 }})
            }
            "MemorySize" | "MemoryGrow" | "MemoryFill" => json!({"o": name, "m": o.refs.first()?.1}),
            // (destination, source): two memories / two tables, or a segment and its destination
            "MemoryCopy" => json!({"o": name, "m": o.refs.first()?.1, "s": o.refs.get(1)?.1}),
            "MemoryInit" => json!({"o": name, "seg": o.refs.iter().find(|r| r.0 == "data")?.1, "m": o.refs.iter().find(|r| r.0 == "memory")?.1}),
            "DataDrop" => json!({"o": name, "seg": o.refs.first()?.1}),
            "TableSize" | "TableGet" | "TableSet" | "TableFill" | "TableGrow" => json!({"o": name, "t": o.refs.first()?.1}),
            "RefFunc" => json!({"o": name, "f": o.refs.first()?.1}),
            "RefNull" if o.imm.to_lowercase().contains("func") => json!({"o": name}),
            "RefIsNull" => json!({"o": name}),
            "TableCopy" => json!({"o": name, "t": o.refs.first()?.1, "s": o.refs.get(1)?.1}),
            "TableInit" => json!({"o": name, "seg": o.refs.iter().find(|r| r.0 == "elem")?.1, "t": o.refs.iter().find(|r| r.0 == "table")?.1}),
            "ElemDrop" => json!({"o": name, "seg": o.refs.first()?.1}),
            "Br" | "BrIf" => json!({"o": name, "d": o.labels.first()?}),
            "BrTable" => {
                let (d, ds) = o.labels.split_last()?;
                json!({"o": name, "d": d, "ds": ds})
            }
            "Call" => json!({"o": name, "f": o.refs.first()?.1}),
            "CallIndirect" => {
                let ty = o.refs.iter().find(|r| r.0 == "type")?.1;
                let t = o.refs.iter().find(|r| r.0 == "table")?.1;
                json!({"o": name, "t": t, "sig": m.types.get(ty as usize)?})
            }
            _ => return None,
        };
        out.push(j);
    }
    Some((out, "eof".into()))
}

fn const_i32(e: &absmod::AbsExpr) -> Option<i64> {
    e.v.strip_prefix("i32:").and_then(|v| v.parse::<i64>().ok())
}

/// `tags[i]` names function i in a way that is stable across the round trip (its input index, or its import name)
pub fn project(bytes: &[u8], tags: &dyn Fn(u32) -> String, gtag: &dyn Fn(u32) -> i64) -> Option<Json> {
    let m = absmod::project(bytes).ok()?;
    let mut funcs = vec![];
    for f in &m.funcs {
        let (np, nr) = arity(&f.sig);
        if !f.sig.replace("i32", "").chars().all(|c| "()->,".contains(c)) {
            return None;
        }
        if f.imported {
            let imp = m.imports.iter().find(|i| i.kind == "func" && i.target == f.idx)?;
            // the host function is identified by its import names and by which input import it is (names may repeat)
            funcs.push(json!({"imported": true, "name": format!("{}.{}@{}", imp.module, imp.field, tags(f.idx)), "np": np, "nr": nr, "nl": 0, "body": [], "sig": f.sig, "tag": format!("import:{}", tags(f.idx))}));
        } else {
            if f.locals.iter().any(|t| t != "i32") {
                return None;
            }
            let mut pos = 0;
            let (body, closer) = nest(&f.ops, &mut pos, &m)?;
            if closer != "End" || pos != f.ops.len() {
                return None;
            }
            funcs.push(json!({"imported": false, "name": "", "np": np, "nr": nr, "nl": f.locals.len() - np, "body": body, "sig": f.sig, "tag": tags(f.idx)}));
        }
    }
    let mut globals = vec![];
    for (gi, g) in m.globals.iter().enumerate() {
        if !g.ty.starts_with("i32 ") {
            return None;
        }
        if g.imported {
            // the value the host provides depends on which input import this is
            globals.push(json!({"k": "import", "v": gtag(gi as u32)}));
        } else {
            match g.init.k.as_str() {
                "const" => globals.push(json!({"k": "const", "v": const_i32(&g.init)?.rem_euclid(32768)})),
                "global" => globals.push(json!({"k": "get", "v": g.init.r})),
                _ => return None,
            }
        }
    }
    let kv = |s: &str, key: &str| -> Option<u64> { s.split(' ').find_map(|p| p.strip_prefix(&format!("{}=", key))).and_then(|v| v.parse().ok()) };
    let mut mems = vec![];
    for mm in &m.memories {
        if mm.ty.contains("m64=true") {
            return None;
        }
        // growth is capped at 64 pages in the model (the same cap in both runs)
        mems.push(json!({"pages": kv(&mm.ty, "min")?, "max": kv(&mm.ty, "max").unwrap_or(65536).min(64)}));
    }
    let mut tables = vec![];
    for t in &m.tables {
        if !t.ty.starts_with("funcref") || t.ty.contains("t64=true") {
            return None;
        }
        // growth is capped at 64 entries in the model (the same cap in both runs)
        tables.push(json!({"size": kv(&t.ty, "min")?, "max": kv(&t.ty, "max").unwrap_or(64).min(64)}));
    }
    let off = |e: &absmod::AbsExpr| -> Option<Json> {
        match e.k.as_str() {
            "const" => Some(json!({"k": "const", "v": const_i32(e)?})),
            "global" => Some(json!({"k": "get", "v": e.r})),
            _ => None,
        }
    };
    let mut elems = vec![];
    for e in &m.elems {
        if e.ety != "funcref" {
            return None;
        }
        let items: Option<Vec<i64>> = e.items.iter().map(|x| match x.k.as_str() { "func" => Some(x.r as i64 + 1), "null" => Some(0), _ => None }).collect();
        elems.push(json!({"mode": e.mode, "table": e.table.max(0), "offset": if e.mode == "active" { off(&e.offset)? } else { json!({"k": "const", "v": 0}) }, "items": items?}));
    }
    // data bytes are needed verbatim
    let mut data = vec![];
    for p in wasmparser::Parser::new(0).parse_all(bytes) {
        if let Ok(wasmparser::Payload::DataSection(s)) = p {
            for (k, d) in s.into_iter().enumerate() {
                let d = d.ok()?;
                let a = m.data.get(k)?;
                if d.data.len() > 400 {
                    return None;
                }
                data.push(json!({"mode": a.mode, "mem": a.mem.max(0), "offset": if a.mode == "active" { off(&a.offset)? } else { json!({"k": "const", "v": 0}) }, "bytes": d.data.to_vec()}));
            }
        }
    }
    let exports: Vec<Json> = m.exports.iter().map(|e| json!({"name": e.name, "kind": e.kind, "idx": e.target})).collect();
    // the linkage a host must satisfy
    let imports: Vec<Json> = m.imports.iter().map(|i| json!([i.module, i.field, i.kind])).collect();
    Some(json!({"funcs": funcs, "globals": globals, "mems": mems, "tables": tables, "elems": elems, "data": data, "exports": exports, "start": m.start, "imports": imports}))
}
