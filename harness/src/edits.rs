//! C18 / C02: well-formed edits through the public API, with a slim state snapshot after every call.
//!
//! The slim state is indexed by arena id (entry k of a space = the item whose id has index k); ids that are
//! not live are `live: false` placeholders.  The TLA+ side (Edits.tla) predicts the complete next state from
//! the previous one and the operation; Trace_Edits.tla compares.

use crate::apistate;
use serde_json::{json, Value as Json};
use std::panic::{catch_unwind, AssertUnwindSafe};
use walrus::ir::{dfs_in_order, Value, Visitor};
use walrus::*;

#[derive(Default)]
struct RefCollector {
    refs: Vec<(String, usize)>,
}
impl RefCollector {
    fn push(&mut self, sp: &str, id: usize) {
        let r = (sp.to_string(), id);
        if !self.refs.contains(&r) {
            self.refs.push(r);
        }
    }
}
impl<'a> Visitor<'a> for RefCollector {
    fn visit_function_id(&mut self, f: &FunctionId) {
        self.push("func", f.index());
    }
    fn visit_memory_id(&mut self, f: &MemoryId) {
        self.push("memory", f.index());
    }
    fn visit_table_id(&mut self, f: &TableId) {
        self.push("table", f.index());
    }
    fn visit_global_id(&mut self, f: &GlobalId) {
        self.push("global", f.index());
    }
    fn visit_data_id(&mut self, f: &DataId) {
        self.push("data", f.index());
    }
    fn visit_element_id(&mut self, f: &ElementId) {
        self.push("elem", f.index());
    }
}

pub fn body_refs(f: &LocalFunction) -> Vec<(String, usize)> {
    let mut c = RefCollector::default();
    dfs_in_order(&mut c, f, f.entry_block());
    c.refs.sort();
    c.refs
}

/// ids of the functions that some body names through `ref.func` (they must stay declared: exported, or named by an
/// element segment or a global initialiser, or the output does not validate -- deleting the last declaration is not a
/// well-formed edit)
pub fn ref_func_targets(m: &Module) -> Vec<usize> {
    struct C(Vec<usize>);
    impl<'a> Visitor<'a> for C {
        fn visit_ref_func(&mut self, i: &walrus::ir::RefFunc) {
            if !self.0.contains(&i.func.index()) {
                self.0.push(i.func.index());
            }
        }
    }
    let mut c = C(vec![]);
    for f in m.funcs.iter() {
        if let FunctionKind::Local(lf) = &f.kind {
            dfs_in_order(&mut c, lf, lf.entry_block());
        }
    }
    c.0.sort();
    c.0
}

/// of the functions some body names by `ref.func`: those that nothing declares any more (no export, no element item, no
/// global initialiser)
pub fn undeclared_ref_funcs(m: &Module) -> Vec<usize> {
    let mut declared: Vec<usize> = vec![];
    for e in m.exports.iter() {
        if let ExportItem::Function(f) = e.item {
            declared.push(f.index());
        }
    }
    for el in m.elements.iter() {
        match &el.items {
            ElementItems::Functions(fs) => declared.extend(fs.iter().map(|f| f.index())),
            ElementItems::Expressions(_, es) => declared.extend(es.iter().filter_map(|e| if let ConstExpr::RefFunc(f) = e { Some(f.index()) } else { None })),
        }
    }
    for g in m.globals.iter() {
        if let GlobalKind::Local(ConstExpr::RefFunc(f)) = g.kind {
            declared.push(f.index());
        }
    }
    ref_func_targets(m).into_iter().filter(|f| !declared.contains(f) && m.funcs.iter().any(|g| g.id().index() == *f)).collect()
}

/// high-water marks of ids per space, so that trailing dead ids stay visible
#[derive(Default, Clone)]
pub struct High {
    pub n: std::collections::BTreeMap<String, usize>,
}

pub fn slim_state(m: &Module, high: &mut High) -> Json {
    let st = apistate::project_state(m);
    let mut funcs: Vec<Json> = st.funcs.iter().map(|f| json!({"live": f.sig != "dead", "imported": f.imported, "sig": if f.sig == "dead" { "" } else { f.sig.as_str() }, "refs": [], "name": ""})).collect();
    for f in m.funcs.iter() {
        if let FunctionKind::Local(lf) = &f.kind {
            funcs[f.id().index()]["refs"] = json!(body_refs(lf));
        }
        // the debug name the function carries (C13: it stays with the entity it was given to)
        funcs[f.id().index()]["name"] = json!(f.name.clone().unwrap_or_default());
    }
    let tables: Vec<Json> = st.tables.iter().map(|t| json!({"live": t.ty != "dead", "imported": t.imported, "ty": if t.ty == "dead" { "" } else { t.ty.as_str() }})).collect();
    let memories: Vec<Json> = st.memories.iter().map(|t| json!({"live": t.ty != "dead", "imported": t.imported, "ty": if t.ty == "dead" { "" } else { t.ty.as_str() }})).collect();
    let globals: Vec<Json> = st.globals.iter().map(|t| json!({"live": t.ty != "dead", "imported": t.imported, "ty": if t.ty == "dead" { "" } else { t.ty.as_str() }, "init": t.init})).collect();
    let elems: Vec<Json> = st.elems.iter().map(|e| json!({"live": e.mode != "dead", "mode": if e.mode == "dead" { "" } else { e.mode.as_str() }, "table": e.table, "offset": e.offset, "ety": e.ety, "items": e.items})).collect();
    let data: Vec<Json> = st.data.iter().map(|e| json!({"live": e.mode != "dead", "mode": if e.mode == "dead" { "" } else { e.mode.as_str() }, "mem": e.mem, "offset": e.offset, "len": e.len, "digest": e.digest})).collect();
    let imports: Vec<Json> = st.imports.iter().map(|i| json!({"module": i.module, "field": i.field, "kind": i.kind, "target": i.target})).collect();
    let exports: Vec<Json> = st.exports.iter().map(|i| json!({"name": i.name, "kind": i.kind, "target": i.target})).collect();
    let mut out = json!({"funcs": funcs, "tables": tables, "memories": memories, "globals": globals, "elems": elems, "data": data,
                         "imports": imports, "exports": exports, "start": st.start});
    // pad with dead placeholders up to the high-water mark
    let dead = |sp: &str| -> Json {
        let none = json!({"k": "none", "v": "", "r": -1});
        match sp {
            "funcs" => json!({"live": false, "imported": false, "sig": "", "refs": [], "name": ""}),
            "tables" | "memories" => json!({"live": false, "imported": false, "ty": ""}),
            "globals" => json!({"live": false, "imported": false, "ty": "", "init": none}),
            "elems" => json!({"live": false, "mode": "", "table": -1, "offset": none, "ety": "", "items": []}),
            _ => json!({"live": false, "mode": "", "mem": -1, "offset": none, "len": 0, "digest": ""}),
        }
    };
    for sp in ["funcs", "tables", "memories", "globals", "elems", "data"] {
        let arr = out[sp].as_array_mut().unwrap();
        let h = high.n.entry(sp.to_string()).or_insert(0);
        if arr.len() > *h {
            *h = arr.len();
        }
        while arr.len() < *h {
            arr.push(dead(sp));
        }
    }
    out
}

fn find_id<T>(it: impl Iterator<Item = id_arena::Id<T>>, idx: usize) -> Option<id_arena::Id<T>> {
    let mut it = it;
    it.find(|i| i.index() == idx)
}

fn vt(s: &str) -> ValType {
    match s {
        "i32" => ValType::I32,
        "i64" => ValType::I64,
        "f32" => ValType::F32,
        "f64" => ValType::F64,
        "v128" => ValType::V128,
        "funcref" => ValType::Ref(RefType::Funcref),
        _ => ValType::Ref(RefType::Externref),
    }
}
fn parse_sig(s: &str) -> (Vec<ValType>, Vec<ValType>) {
    let (p, r) = s.split_once("->").unwrap();
    let f = |x: &str| -> Vec<ValType> { x.trim_matches(|c| c == '(' || c == ')').split(',').filter(|t| !t.is_empty()).map(vt).collect() };
    (f(p), f(r))
}

/// entity operands resolved to typed ids (phase 1, needs &Module)
pub enum Res {
    /// call with constant arguments, results dropped (ref.func would need the function to be declared somewhere,
    /// which an edit cannot assume)
    Call(FunctionId, Vec<ValType>, usize),
    Global(GlobalId),
    Memory(MemoryId),
    Table(TableId),
    Data(DataId),
    Elem(ElementId),
}

pub fn resolve(m: &Module, refs: &[(String, usize)]) -> Vec<Res> {
    let mut out = vec![];
    for (sp, id) in refs {
        match sp.as_str() {
            "func" => {
                if let Some(f) = find_id(m.funcs.iter().map(|f| f.id()), *id) {
                    let ty = m.types.get(m.funcs.get(f).ty());
                    out.push(Res::Call(f, ty.params().to_vec(), ty.results().len()));
                }
            }
            "global" => out.extend(find_id(m.globals.iter().map(|f| f.id()), *id).map(Res::Global)),
            "memory" => out.extend(find_id(m.memories.iter().map(|f| f.id()), *id).map(Res::Memory)),
            "table" => out.extend(find_id(m.tables.iter().map(|f| f.id()), *id).map(Res::Table)),
            "data" => out.extend(find_id(m.data.iter().map(|f| f.id()), *id).map(Res::Data)),
            "elem" => out.extend(find_id(m.elements.iter().map(|f| f.id()), *id).map(Res::Elem)),
            _ => {}
        }
    }
    out
}

/// build a body that names exactly the resolved entities and produces `results` from constants (phase 2)
fn push_const(body: &mut InstrSeqBuilder, t: &ValType) {
    match t {
        ValType::I32 => {
            body.i32_const(1);
        }
        ValType::I64 => {
            body.i64_const(1);
        }
        ValType::F32 => {
            body.f32_const(1.0);
        }
        ValType::F64 => {
            body.f64_const(1.0);
        }
        ValType::V128 => {
            body.const_(Value::V128(1));
        }
        ValType::Ref(t) => {
            body.ref_null(*t);
        }
    }
}

pub fn build_body(body: &mut InstrSeqBuilder, res: &[Res], results: &[ValType]) {
    for r in res {
        match r {
            Res::Call(f, params, nres) => {
                for t in params {
                    push_const(body, t);
                }
                body.call(*f);
                for _ in 0..*nres {
                    body.drop();
                }
            }
            Res::Global(g) => {
                body.global_get(*g).drop();
            }
            Res::Memory(g) => {
                body.memory_size(*g).drop();
            }
            Res::Table(g) => {
                body.table_size(*g).drop();
            }
            Res::Data(g) => {
                body.data_drop(*g);
            }
            Res::Elem(g) => {
                body.elem_drop(*g);
            }
        }
    }
    for r in results {
        push_const(body, r);
    }
}

fn refs_of(v: &Json) -> Vec<(String, usize)> {
    v.as_array().map(|a| a.iter().map(|r| (r[0].as_str().unwrap().to_string(), r[1].as_u64().unwrap() as usize)).collect()).unwrap_or_default()
}

/// Apply one edit; returns {ok, id}.  A panic inside walrus is reported as ok=false, id=-2.
pub fn apply(m: &mut Module, e: &Json) -> Json {
    let op = e["op"].as_str().unwrap_or("");
    let mut extra: Option<(Vec<usize>, Vec<usize>, Option<(Vec<i32>, i32, Vec<String>)>)> = None;
    let r = catch_unwind(AssertUnwindSafe(|| -> (bool, i64) {
        match op {
            "add_export" => {
                let t = e["target"].as_u64().unwrap() as usize;
                let name = e["name"].as_str().unwrap();
                let id = match e["kind"].as_str().unwrap() {
                    "func" => find_id(m.funcs.iter().map(|f| f.id()), t).map(|x| m.exports.add(name, x)),
                    "table" => find_id(m.tables.iter().map(|f| f.id()), t).map(|x| m.exports.add(name, x)),
                    "memory" => find_id(m.memories.iter().map(|f| f.id()), t).map(|x| m.exports.add(name, x)),
                    _ => find_id(m.globals.iter().map(|f| f.id()), t).map(|x| m.exports.add(name, x)),
                };
                (id.is_some(), -1)
            }
            "delete_export" => {
                let k = e["k"].as_u64().unwrap() as usize;
                let found = m.exports.iter().nth(k).map(|x| x.id());
                match found {
                    Some(id) => {
                        m.exports.delete(id);
                        (true, -1)
                    }
                    None => (false, -1),
                }
            }
            "add_func" => {
                let (p, r) = parse_sig(e["sig"].as_str().unwrap());
                let args: Vec<LocalId> = p.iter().map(|t| m.locals.add(*t)).collect();
                let res = resolve(m, &refs_of(&e["refs"]));
                let mut b = FunctionBuilder::new(&mut m.types, &p, &r);
                build_body(&mut b.func_body(), &res, &r);
                let id = b.finish(args, &mut m.funcs);
                (true, id.index() as i64)
            }
            "delete_func" => match find_id(m.funcs.iter().map(|f| f.id()), e["id"].as_u64().unwrap() as usize) {
                Some(id) => {
                    if let Some(imp) = m.imports.get_imported_func(id).map(|i| i.id()) {
                        m.imports.delete(imp);
                    }
                    m.funcs.delete(id);
                    (true, -1)
                }
                None => (false, -1),
            },
            "add_global" => {
                let id = m.globals.add_local(ValType::I32, e["mutable"].as_bool().unwrap_or(false), false, ConstExpr::Value(Value::I32(e["value"].as_i64().unwrap_or(0) as i32)));
                (true, id.index() as i64)
            }
            "delete_global" => match find_id(m.globals.iter().map(|f| f.id()), e["id"].as_u64().unwrap() as usize) {
                Some(id) => {
                    if let GlobalKind::Import(imp) = m.globals.get(id).kind {
                        m.imports.delete(imp);
                    }
                    m.globals.delete(id);
                    (true, -1)
                }
                None => (false, -1),
            },
            "add_memory" => {
                let id = m.memories.add_local(false, false, e["pages"].as_u64().unwrap_or(1), None, None);
                (true, id.index() as i64)
            }
            "delete_memory" => match find_id(m.memories.iter().map(|f| f.id()), e["id"].as_u64().unwrap() as usize) {
                Some(id) => {
                    if let Some(imp) = m.memories.get(id).import {
                        m.imports.delete(imp);
                    }
                    m.memories.delete(id);
                    (true, -1)
                }
                None => (false, -1),
            },
            "add_table" => {
                let id = m.tables.add_local(false, e["min"].as_u64().unwrap_or(1), None, RefType::Funcref);
                (true, id.index() as i64)
            }
            "delete_table" => match find_id(m.tables.iter().map(|f| f.id()), e["id"].as_u64().unwrap() as usize) {
                Some(id) => {
                    if let Some(imp) = m.tables.get(id).import {
                        m.imports.delete(imp);
                    }
                    m.tables.delete(id);
                    (true, -1)
                }
                None => (false, -1),
            },
            "add_data" => {
                let byte = e["byte"].as_u64().unwrap_or(0) as u8;
                if e["mode"] == "active" {
                    match find_id(m.memories.iter().map(|f| f.id()), e["mem"].as_u64().unwrap() as usize) {
                        Some(mem) => {
                            let off = if m.memories.get(mem).memory64 { ConstExpr::Value(Value::I64(0)) } else { ConstExpr::Value(Value::I32(0)) };
                            let id = m.data.add(DataKind::Active { memory: mem, offset: off }, vec![byte]);
                            // a well-behaved user also registers the segment with its memory (the parser does)
                            m.memories.get_mut(mem).data_segments.insert(id);
                            (true, id.index() as i64)
                        }
                        None => (false, -1),
                    }
                } else {
                    let id = m.data.add(DataKind::Passive, vec![byte]);
                    (true, id.index() as i64)
                }
            }
            "delete_data" => match find_id(m.data.iter().map(|f| f.id()), e["id"].as_u64().unwrap() as usize) {
                Some(id) => {
                    if let DataKind::Active { memory, .. } = m.data.get(id).kind {
                        m.memories.get_mut(memory).data_segments.remove(&id);
                    }
                    m.data.delete(id);
                    (true, -1)
                }
                None => (false, -1),
            },
            "add_elem" => {
                let fs: Vec<FunctionId> = e["funcs"].as_array().unwrap().iter().filter_map(|x| find_id(m.funcs.iter().map(|f| f.id()), x.as_u64().unwrap() as usize)).collect();
                let id = m.elements.add(ElementKind::Passive, ElementItems::Functions(fs));
                (true, id.index() as i64)
            }
            "delete_elem" => match find_id(m.elements.iter().map(|f| f.id()), e["id"].as_u64().unwrap() as usize) {
                Some(id) => {
                    if let ElementKind::Active { table, .. } = m.elements.get(id).kind {
                        m.tables.get_mut(table).elem_segments.remove(&id);
                    }
                    m.elements.delete(id);
                    (true, -1)
                }
                None => (false, -1),
            },
            "set_start" => match find_id(m.funcs.iter().map(|f| f.id()), e["id"].as_u64().unwrap() as usize) {
                Some(id) => {
                    m.start = Some(id);
                    (true, -1)
                }
                None => (false, -1),
            },
            "clear_start" => {
                m.start = None;
                (true, -1)
            }
            "add_import_func" => {
                let (p, r) = parse_sig(e["sig"].as_str().unwrap());
                let ty = m.types.add(&p, &r);
                let (f, _) = m.add_import_func("env", e["field"].as_str().unwrap(), ty);
                (true, f.index() as i64)
            }
            "add_import_table" => {
                let ety = if e["ety"] == "externref" { RefType::Externref } else { RefType::Funcref };
                let (t, _) = m.add_import_table("env", e["field"].as_str().unwrap(), false, 1, None, ety);
                (true, t.index() as i64)
            }
            "add_import_memory" => {
                let (t, _) = m.add_import_memory("env", e["field"].as_str().unwrap(), false, false, 1, None, None);
                (true, t.index() as i64)
            }
            "add_import_global" => {
                let (t, _) = m.add_import_global("env", e["field"].as_str().unwrap(), ValType::I32, false, false);
                (true, t.index() as i64)
            }
            "replace_imported" | "replace_exported" => {
                let fidx = e["id"].as_u64().unwrap() as usize;
                let Some(f) = find_id(m.funcs.iter().map(|f| f.id()), fidx) else { return (false, -1) };
                let res = resolve(m, &refs_of(&e["refs"]));
                let results: Vec<ValType> = m.types.get(m.funcs.get(f).ty()).results().to_vec();
                // the replacement body reads every parameter it is handed (and drops it)
                // ... and writes a scratch local that was allocated before the parameters of the new function exist
                let scratch = m.locals.add(ValType::I64);
                // a block type with a parameter and a result, made the way a user makes one
                let p1r1 = walrus::ir::InstrSeqType::new(&mut m.types, &[ValType::I32], &[ValType::I32]);
                let mut handed: Vec<usize> = vec![];
                let mut fill = |body: &mut InstrSeqBuilder, args: &Vec<LocalId>| {
                    handed = args.iter().map(|a| a.index()).collect();
                    for a in args {
                        body.local_get(*a).drop();
                    }
                    body.i64_const(7).local_set(scratch);
                    // ... and has a loop and a block, each with a conditional branch to itself that is never taken
                    body.loop_(None, |l| {
                        let me = l.id();
                        l.i32_const(0).br_if(me);
                    });
                    body.block(None, |b| {
                        let me = b.id();
                        b.i32_const(0).br_if(me);
                    });
                    body.i32_const(5).block(p1r1, |_| {}).drop();
                    build_body(body, &res, &results);
                };
                let r = if op == "replace_imported" {
                    m.replace_imported_func(f, |(body, args)| fill(body, args))
                } else {
                    m.replace_exported_func(f, |(body, args)| fill(body, args))
                };
                match r {
                    Ok(id) => {
                        // the parameters of the function that now exists
                        let params: Vec<usize> = match &m.funcs.get(id).kind {
                            FunctionKind::Local(lf) => lf.args.iter().map(|a| a.index()).collect(),
                            _ => vec![usize::MAX],
                        };
                        // how the new body comes out: a trial emission (emit_wasm leaves the Module as it is) read back
                        let mut emitted: Option<(Vec<i32>, i32, Vec<String>)> = None;
                        if let Ok(em) = crate::run::emit(m, true) {
                            if let (Some((_, fi)), Ok(am)) = (em.emit.func.iter().find(|(i, _)| *i == id.index() as i32), crate::absmod::project(&em.bytes)) {
                                if let Some(af) = am.funcs.iter().find(|g| g.idx as i32 == *fi) {
                                    let reads: Vec<i32> = af.ops.iter().filter(|o| o.o == "LocalGet").take(params.len()).map(|o| o.local).collect();
                                    let sc = af.ops.iter().find(|o| o.o == "LocalSet").map(|o| o.local).unwrap_or(-1);
                                    let shape: Vec<String> = af.ops.iter().filter(|o| ["Loop", "Block", "If", "Else", "End", "Br", "BrIf"].contains(&o.o.as_str())).take(8).map(|o| if o.o == "BrIf" || o.o == "Br" { format!("{}{}", o.o, o.labels.first().copied().unwrap_or(99)) } else if o.bt.is_empty() || o.bt == "()->()" { o.o.clone() } else { format!("{}{}", o.o, o.bt) }).collect();
                                    emitted = Some((reads, sc, shape));
                                }
                            }
                        }
                        extra = Some((handed, params, emitted));
                        (true, id.index() as i64)
                    }
                    Err(_) => (false, -1),
                }
            }
            _ => (false, -3),
        }
    }));
    match r {
        Ok((ok, id)) => match extra {
            Some((handed, params, emitted)) => match emitted {
                Some((reads, sc, shape)) => json!({"ok": ok, "id": id, "handed": handed, "params": params, "trial": true, "reads": reads, "scratch": sc, "shape": shape}),
                None => json!({"ok": ok, "id": id, "handed": handed, "params": params, "trial": false, "reads": [], "scratch": -1, "shape": []}),
            },
            None => json!({"ok": ok, "id": id}),
        },
        Err(p) => json!({"ok": false, "id": -2, "panic": crate::run::short(&crate::run::panic_msg(p))}),
    }
}
