//! C05: arbitrary bytes through Module::parse under both feature configurations, with the hook events.

use crate::absmod;
use crate::cases::Input;
use crate::gen;
use rand::Rng;
use serde_json::{json, Value as Json};
use std::panic::{catch_unwind, AssertUnwindSafe};

fn leb(mut v: u64) -> Vec<u8> {
    let mut out = vec![];
    loop {
        let b = (v & 0x7f) as u8;
        v >>= 7;
        if v == 0 {
            out.push(b);
            return out;
        }
        out.push(b | 0x80);
    }
}

/// sections of a binary as (id, payload range) pairs
fn sections(bytes: &[u8]) -> Vec<(u8, Vec<u8>)> {
    let mut out = vec![];
    let mut i = 8;
    while i < bytes.len() {
        let id = bytes[i];
        i += 1;
        let mut len = 0u64;
        let mut shift = 0;
        loop {
            if i >= bytes.len() {
                return out;
            }
            let b = bytes[i];
            i += 1;
            len |= ((b & 0x7f) as u64) << shift;
            shift += 7;
            if b & 0x80 == 0 || shift > 35 {
                break;
            }
        }
        let end = (i as u64 + len).min(bytes.len() as u64) as usize;
        out.push((id, bytes[i..end].to_vec()));
        i = end;
    }
    out
}
fn assemble(secs: &[(u8, Vec<u8>)]) -> Vec<u8> {
    let mut out = b"\0asm\x01\0\0\0".to_vec();
    for (id, p) in secs {
        out.push(*id);
        out.extend(leb(p.len() as u64));
        out.extend(p);
    }
    out
}

/// structure-aware and byte-level mutations of a valid module
pub fn mutate(r: &mut rand::rngs::StdRng, bytes: &[u8]) -> (Vec<u8>, &'static str) {
    let k = r.gen_range(0..14);
    let mut b = bytes.to_vec();
    if b.len() < 9 {
        // (a mutant of a mutant may be shorter than a header)
        b.push(r.gen());
        return (b, "append-byte");
    }
    match k {
        0 => {
            let i = r.gen_range(0..b.len());
            b[i] ^= 1 << r.gen_range(0..8);
            (b, "bitflip")
        }
        1 => {
            let n = r.gen_range(0..b.len());
            b.truncate(n);
            (b, "truncate")
        }
        2 => {
            let i = r.gen_range(0..=b.len());
            b.insert(i, r.gen());
            (b, "insert-byte")
        }
        3 => {
            let i = r.gen_range(8.min(b.len() - 1)..b.len());
            b[i] = r.gen();
            (b, "random-byte")
        }
        4 | 5 | 6 | 7 => {
            let mut s = sections(&b);
            if s.is_empty() {
                return (b, "none");
            }
            let what = match k {
                4 => {
                    let i = r.gen_range(0..s.len());
                    let j = r.gen_range(0..s.len());
                    s.swap(i, j);
                    "section-swap"
                }
                5 => {
                    let i = r.gen_range(0..s.len());
                    let c = s[i].clone();
                    s.insert(i, c);
                    "section-duplicate"
                }
                6 => {
                    let i = r.gen_range(0..s.len());
                    s.remove(i);
                    "section-delete"
                }
                _ => {
                    // oversize the leading count of a section (pre-allocation sites)
                    let i = r.gen_range(0..s.len());
                    if !s[i].1.is_empty() {
                        let big = leb(*[0x7fff_ffffu64, 0xffff_ffff, 1_000_000, 129].iter().nth(r.gen_range(0..4)).unwrap());
                        let mut p = big;
                        p.extend_from_slice(&s[i].1[1..]);
                        s[i].1 = p;
                    }
                    "count-oversized"
                }
            };
            (assemble(&s), what)
        }
        8 => {
            // substitute an opcode inside the code section
            let mut s = sections(&b);
            if let Some(code) = s.iter_mut().find(|(id, _)| *id == 10) {
                if code.1.len() > 3 {
                    let i = r.gen_range(2..code.1.len());
                    code.1[i] = *[0x00u8, 0x01, 0x0b, 0x05, 0x02, 0x04, 0x0c, 0x10, 0x1a, 0x41, 0xfc, 0xfd, 0xfe, 0xd2, 0x6a].iter().nth(r.gen_range(0..15)).unwrap();
                }
            }
            (assemble(&s), "opcode-substitution")
        }
        9 => {
            // unknown / out-of-range section id
            let mut s = sections(&b);
            let i = r.gen_range(0..=s.len());
            s.insert(i, (*[13u8, 14, 15, 20, 0x7f].iter().nth(r.gen_range(0..5)).unwrap(), vec![0]));
            (assemble(&s), "odd-section-id")
        }
        12 | 13 => {
            // rewrite the locals declaration of one function body: prepend a run (count 0, 1 or huge) of a value type that
            // may or may not be supported, keeping every enclosing size field consistent
            let mut s = sections(&b);
            let Some(ci) = s.iter().position(|(id, _)| *id == 10) else { return (b, "none") };
            let code = s[ci].1.clone();
            // decode: count, then entries (size, bytes)
            let rd = |buf: &[u8], i: &mut usize| -> u64 {
                let mut v = 0u64;
                let mut sh = 0;
                while *i < buf.len() {
                    let x = buf[*i];
                    *i += 1;
                    v |= ((x & 0x7f) as u64) << sh;
                    sh += 7;
                    if x & 0x80 == 0 || sh > 35 {
                        break;
                    }
                }
                v
            };
            let mut i = 0;
            let n = rd(&code, &mut i) as usize;
            let mut bodies: Vec<Vec<u8>> = vec![];
            for _ in 0..n {
                // (the input may itself be a mutant whose count is oversized)
                if i >= code.len() {
                    return (b, "none");
                }
                let sz = rd(&code, &mut i) as usize;
                if i + sz > code.len() {
                    return (b, "none");
                }
                bodies.push(code[i..i + sz].to_vec());
                i += sz;
            }
            if bodies.is_empty() {
                return (b, "none");
            }
            let which = r.gen_range(0..bodies.len());
            let body = &bodies[which];
            let mut j = 0;
            let nruns = rd(body, &mut j);
            let tys: [&[u8]; 12] = [&[0x7f], &[0x7e], &[0x7b], &[0x70], &[0x6f], &[0x6e], &[0x69], &[0x6c], &[0x63, 0x00], &[0x64, 0x05], &[0x40], &[0x00]];
            let count = *[0u64, 0, 1, 1, 50_001, 0xffff_ffff].iter().nth(r.gen_range(0..6)).unwrap();
            let mut nb = leb(nruns + 1);
            nb.extend(leb(count));
            nb.extend_from_slice(tys[r.gen_range(0..tys.len())]);
            nb.extend_from_slice(&body[j..]);
            bodies[which] = nb;
            let mut nc = leb(n as u64);
            for bd in &bodies {
                nc.extend(leb(bd.len() as u64));
                nc.extend(bd);
            }
            s[ci].1 = nc;
            (assemble(&s), "locals-run")
        }
        10 => {
            b[4] = r.gen_range(0..3);
            b[6] = r.gen_range(0..2); // component / other encodings
            (b, "header")
        }
        _ => {
            let i = r.gen_range(0..b.len());
            let j = r.gen_range(i..b.len());
            b.drain(i..j.min(i + 8));
            (b, "delete-span")
        }
    }
}

fn deep(depth: usize) -> Vec<u8> {
    use wasm_encoder as we;
    let mut f = we::Function::new([]);
    for _ in 0..depth {
        f.instruction(&we::Instruction::Block(we::BlockType::Empty));
    }
    for _ in 0..depth {
        f.instruction(&we::Instruction::End);
    }
    f.instruction(&we::Instruction::End);
    let mut m = we::Module::new();
    let mut t = we::TypeSection::new();
    t.function([], []);
    m.section(&t);
    let mut fs = we::FunctionSection::new();
    fs.function(0);
    m.section(&fs);
    let mut c = we::CodeSection::new();
    c.function(&f);
    m.section(&c);
    m.finish()
}

/// the corpus: (id, bytes, source)
pub fn corpus(seed: u64, n: usize, valid_inputs: &[Input]) -> Vec<Input> {
    let mut r = gen::rng(seed ^ 0xc05);
    let mut out: Vec<Input> = vec![];
    // random bytes, with and without a valid header
    for k in 0..(n / 10).max(5) {
        let len = r.gen_range(0..200);
        let mut b: Vec<u8> = (0..len).map(|_| r.gen()).collect();
        if k % 2 == 0 {
            let mut h = b"\0asm\x01\0\0\0".to_vec();
            h.append(&mut b);
            b = h;
        }
        out.push(Input { id: format!("rand-{}", k), bytes: b, source: format!("c05:random:{}:{}", seed, k) });
    }
    // the valid inputs themselves (completeness) and their mutations
    for (k, v) in valid_inputs.iter().enumerate() {
        out.push(Input { id: format!("valid-{}", v.id), bytes: v.bytes.clone(), source: v.source.clone() });
        // the corpus is held in memory: a large input gets fewer mutants (at most about 4 MB of them)
        let muts = (n / valid_inputs.len().max(1)).max(1).min(((4 << 20) / v.bytes.len().max(1)).max(1));
        for j in 0..muts {
            let (mut b, mut what) = mutate(&mut r, &v.bytes);
            // stack a second mutation now and then
            if r.gen_bool(0.2) && !b.is_empty() {
                let (b2, w2) = mutate(&mut r, &b);
                b = b2;
                what = w2;
            }
            out.push(Input { id: format!("mut-{}-{}-{}", k, j, what), bytes: b, source: format!("c05:mutant:{}:{}:{}:{}", v.source, seed, j, what) });
        }
    }
    for d in [1000usize, 100_000] {
        out.push(Input { id: format!("deep-{}", d), bytes: deep(d), source: format!("c05:deep:{}", d) });
    }
    out
}

/// parse one input under one configuration; a panic is data
pub fn parse_case(inp: &Input, stable: bool) -> Json {
    use std::sync::atomic::{AtomicU32, Ordering};
    use std::sync::Arc;
    let verdict = absmod::validate_with(&inp.bytes, absmod::walrus_features(stable));
    let calls = Arc::new(AtomicU32::new(0));
    let c2 = calls.clone();
    let mut config = walrus::ModuleConfig::new();
    config.only_stable_features(stable);
    config.on_parse(move |_, _| {
        c2.fetch_add(1, Ordering::SeqCst);
        Ok(())
    });
    #[cfg(walrus_verif)]
    walrus::verif::enable(true);
    let r = catch_unwind(AssertUnwindSafe(|| config.parse(&inp.bytes)));
    #[cfg(walrus_verif)]
    let events: Vec<Json> = {
        walrus::verif::enable(false);
        walrus::verif::drain().into_iter().filter(|e| ["validated", "interpret", "on_parse"].contains(&e.name)).map(|e| json!([e.name, e.detail])).collect()
    };
    #[cfg(not(walrus_verif))]
    let events: Vec<Json> = vec![];
    let (outcome, msg) = match r {
        Ok(Ok(_)) => ("ok", String::new()),
        Ok(Err(e)) => ("err", crate::run::short(&format!("{:#}", e))),
        Err(p) => ("panic", crate::run::short(&crate::run::panic_msg(p))),
    };
    json!({"id": format!("{}~{}", inp.id, if stable { "stable" } else { "default" }), "source": inp.source, "cfg": if stable { "stable" } else { "default" },
           "verdict": verdict.is_ok(), "why": crate::run::short(&verdict.err().unwrap_or_default()), "outcome": outcome, "msg": msg,
           "events": events, "calls": calls.load(Ordering::SeqCst), "len": inp.bytes.len(), "hooks": cfg!(walrus_verif)})
}
