//! Replay of TLC-generated behaviours of Producers.tla on a real Module: the input section is parsed from a binary, the
//! edits go through ModuleProducers' public API, a round trip is emit_wasm + parse with the same switch; after every
//! operation the section emit_wasm would write is decoded and logged.

use crate::absmod;
use crate::run;
use serde_json::{json, Value as Json};
use std::panic::{catch_unwind, AssertUnwindSafe};
use walrus::ModuleConfig;

/// the version walrus records for itself, learnt from a round trip of the empty module
fn walrus_version() -> String {
    let mut m = ModuleConfig::new().parse(&wasm_encoder::Module::new().finish()).expect("empty module parses");
    let out = m.emit_wasm();
    let am = absmod::project(&out).unwrap_or_default();
    am.producers.iter().flat_map(|f| f.values.iter()).find(|v| v.0 == "walrus").map(|v| v.1.clone()).unwrap_or_default()
}

fn written(m: &mut walrus::Module, wv: &str) -> Json {
    let out = m.emit_wasm();
    let am = absmod::project(&out).unwrap_or_default();
    let nsections = am.sections.iter().filter(|s| s.name == "producers").count();
    let fields: Vec<Json> = am
        .producers
        .iter()
        .map(|f| json!({"name": f.field, "values": f.values.iter().map(|v| json!([v.0, if v.0 == "walrus" && v.1 == wv { "W".to_string() } else { v.1.clone() }])).collect::<Vec<_>>()}))
        .collect();
    json!({"fields": fields, "sections": nsections, "valid": absmod::validate(&out).is_ok()})
}

pub fn replay(id: &str, hist: &[Json]) -> Json {
    match catch_unwind(AssertUnwindSafe(|| replay_inner(id, hist))) {
        Ok(j) => j,
        Err(p) => json!({"id": id, "source": format!("producers:{}", id), "outcome": format!("panic:{}", run::short(&run::panic_msg(p))), "events": []}),
    }
}

fn replay_inner(id: &str, hist: &[Json]) -> Json {
    let wv = walrus_version();
    let first = &hist[0];
    let generate = first["generate"].as_bool().unwrap_or(true);
    let mut module = wasm_encoder::Module::new();
    let section = first["section"].as_array().cloned().unwrap_or_default();
    if !section.is_empty() {
        let mut ps = wasm_encoder::ProducersSection::new();
        for f in &section {
            let mut pf = wasm_encoder::ProducersField::new();
            for v in f["values"].as_array().unwrap() {
                let (n, ver) = (v[0].as_str().unwrap(), v[1].as_str().unwrap());
                pf.value(n, if n == "walrus" && ver == "W" { &wv } else { ver });
            }
            ps.field(f["name"].as_str().unwrap(), &pf);
        }
        module.section(&ps);
    }
    let bytes = module.finish();
    let mut config = ModuleConfig::new();
    config.generate_producers_section(generate);
    let mut m = match config.parse(&bytes) {
        Ok(m) => m,
        Err(e) => return json!({"id": id, "source": format!("producers:{}", id), "outcome": format!("parse-{}", e), "events": []}),
    };
    let mut events = vec![json!({"op": "parse", "e": first, "obs": written(&mut m, &wv)})];
    for e in &hist[1..] {
        let op = e["op"].as_str().unwrap();
        match op {
            "add" => {
                let (n, v) = (e["name"].as_str().unwrap(), e["version"].as_str().unwrap());
                let v = if n == "walrus" && v == "W" { wv.as_str() } else { v };
                match e["field"].as_str().unwrap() {
                    "language" => m.producers.add_language(n, v),
                    "sdk" => m.producers.add_sdk(n, v),
                    _ => m.producers.add_processed_by(n, v),
                }
            }
            "clear" => m.producers.clear(),
            "roundtrip" => {
                let out = m.emit_wasm();
                m = match config.parse(&out) {
                    Ok(m) => m,
                    Err(err) => {
                        events.push(json!({"op": op, "e": e, "obs": {"fields": [], "sections": -1, "valid": false}, "error": format!("{}", err)}));
                        break;
                    }
                };
            }
            _ => {}
        }
        events.push(json!({"op": op, "e": e, "obs": written(&mut m, &wv)}));
    }
    json!({"id": id, "source": format!("producers:{}", id), "outcome": "ok", "events": events})
}
