//! Trace producers: drive walrus over generated / enumerated inputs and write one ndjson line per
//! observed case for the TLC trace specs.

use crate::absmod::{self, AbsModule};
use crate::gen::{self, GenOpts};
use crate::run::{self, Cfg};
use rayon::prelude::*;
use serde_json::{json, Value};
use std::io::Write;

pub fn strip_ops(mut m: AbsModule) -> AbsModule {
    for f in m.funcs.iter_mut() {
        f.ops.clear();
        f.locals.clear();
    }
    m
}

pub fn hex(b: &[u8]) -> String {
    b.iter().map(|x| format!("{:02x}", x)).collect()
}
pub fn unhex(s: &str) -> Vec<u8> {
    (0..s.len() / 2).map(|i| u8::from_str_radix(&s[2 * i..2 * i + 2], 16).unwrap()).collect()
}

pub fn write_lines(path: &str, lines: &[Value]) {
    let mut f = std::io::BufWriter::new(std::fs::File::create(path).unwrap());
    for l in lines {
        serde_json::to_writer(&mut f, l).unwrap();
        f.write_all(b"\n").unwrap();
    }
}

/// One input of a batch: an id, the bytes, and where it came from.
#[derive(Clone)]
pub struct Input {
    pub id: String,
    pub bytes: Vec<u8>,
    pub source: String,
}

/// every valid module contained in the repository's .wat/.wast fixtures
pub fn fixture_inputs() -> Vec<Input> {
    let mut out = vec![];
    let root = std::path::Path::new("/repo/crates/tests/tests");
    let mut stack = vec![root.to_path_buf()];
    let mut files = vec![];
    while let Some(d) = stack.pop() {
        if let Ok(rd) = std::fs::read_dir(&d) {
            for e in rd.flatten() {
                let p = e.path();
                if p.is_dir() {
                    stack.push(p);
                } else if matches!(p.extension().and_then(|x| x.to_str()), Some("wat") | Some("wast")) {
                    files.push(p);
                }
            }
        }
    }
    files.sort();
    for p in files {
        let rel = p.strip_prefix(root).unwrap().to_string_lossy().to_string();
        let text = match std::fs::read_to_string(&p) {
            Ok(t) => t,
            Err(_) => continue,
        };
        if p.extension().and_then(|x| x.to_str()) == Some("wat") {
            if let Ok(bytes) = std::panic::catch_unwind(|| wat::parse_str(&text)) {
                if let Ok(bytes) = bytes {
                    out.push(Input { id: format!("fx-{}", rel), bytes, source: format!("fixture:{}", rel) });
                }
            }
        } else {
            // .wast: every (module ...) directive
            let r = std::panic::catch_unwind(|| {
                let mut mods = vec![];
                let buf = match wast::parser::ParseBuffer::new(&text) {
                    Ok(b) => b,
                    Err(_) => return mods,
                };
                if let Ok(w) = wast::parser::parse::<wast::Wast>(&buf) {
                    for d in w.directives {
                        if let wast::WastDirective::Module(mut qm) = d {
                            if let Ok(b) = qm.encode() {
                                mods.push(b);
                            }
                        }
                    }
                }
                mods
            });
            if let Ok(mods) = r {
                for (k, b) in mods.into_iter().enumerate() {
                    out.push(Input { id: format!("fx-{}#{}", rel, k), bytes: b, source: format!("fixture:{}#{}", rel, k) });
                }
            }
        }
    }
    out
}

/// TLC-enumerated abstract modules (Families.tla), concretised
pub fn family_inputs(path: &str, tag: &str) -> Vec<Input> {
    let text = std::fs::read_to_string(path).expect("family file");
    text.lines()
        .filter(|l| !l.trim().is_empty())
        .enumerate()
        .map(|(k, l)| {
            let v: Value = serde_json::from_str(l).unwrap();
            let d = crate::concretise::concretise(&v);
            Input { id: format!("{}-{}", tag, k), bytes: d.encode(), source: format!("fam:{}:{}", tag, k) }
        })
        .collect()
}

/// Resolve a comma separated list of input sources:
///   gen:<n>[:<profile>]  fam:<tag>:<path>  fixtures  file:<path>
pub fn resolve_inputs(spec: &str, seed: u64) -> Vec<Input> {
    let mut out = vec![];
    for part in spec.split(',').filter(|p| !p.is_empty()) {
        let f: Vec<&str> = part.split(':').collect();
        match f[0] {
            "gen" => {
                let n: u64 = f[1].parse().unwrap();
                let profile = f.get(2).copied().unwrap_or("full");
                out.extend(generated_inputs(seed, n, &profile_opts(profile), profile));
            }
            "fam" => out.extend(family_inputs(f[2], f[1])),
            "fixtures" => out.extend(fixture_inputs().into_iter().filter(|i| absmod::validate(&i.bytes).is_ok())),
            "fixtures-all" => out.extend(fixture_inputs()),
            "file" => {
                let bytes = std::fs::read(f[1]).expect("input file");
                out.push(Input { id: format!("file-{}", f[1].rsplit('/').next().unwrap()), bytes, source: format!("file:{}", f[1]) });
            }
            _ => panic!("unknown input source {}", part),
        }
    }
    out
}

pub fn profile_opts(profile: &str) -> GenOpts {
    let mut o = GenOpts::default();
    match profile {
        "full" => {}
        "big" => {
            o.max_funcs = 40;
            o.fuel = 400;
        }
        "mvp" => o.feat = gen::Feat::mvp(),
        "stable" => o.feat = gen::Feat::stable(),
        "exec" => {
            o.exec_subset = true;
            o.instantiable = true;
            o.feat = gen::Feat::mvp();
            o.feat.mutable_global = true;
            o.feat.multi_memory = true;
        }
        _ => panic!("unknown profile {}", profile),
    }
    o
}

pub fn generated_inputs(seed: u64, n: u64, o: &GenOpts, tag: &str) -> Vec<Input> {
    (0..n)
        .into_par_iter()
        .map(|i| {
            let s = seed.wrapping_mul(1_000_003).wrapping_add(i);
            let (g, _) = gen::gen_valid(s, o);
            Input { id: format!("{}-{}", tag, s), bytes: g.bytes, source: format!("gen:{}:{}", tag, s) }
        })
        .collect()
}

/// C04: structure preserved by the plain round trip.
pub fn structure_case(inp: &Input, cfg: &Cfg) -> Value {
    let rt = run::roundtrip(&inp.bytes, cfg, 0);
    let inm = absmod::project(&inp.bytes).map(strip_ops).unwrap_or_default();
    let outm = if rt.outcome == "ok" { absmod::project(&rt.out).map(strip_ops).unwrap_or_default() } else { AbsModule::default() };
    json!({
        "id": inp.id, "source": inp.source, "outcome": rt.outcome,
        "in_valid": absmod::validate(&inp.bytes).is_ok(),
        "out_valid": rt.outcome == "ok" && absmod::validate(&rt.out).is_ok(),
        "inm": inm, "outm": outm, "sigma": rt.sigma,
    })
}
