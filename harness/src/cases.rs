//! Trace producers: drive walrus over generated / enumerated inputs and write one ndjson line per
//! observed case for the TLC trace specs.

use crate::absmod::{self, AbsModule};
use crate::gen::{self, GenOpts};
use crate::run::{self, Cfg};
use rayon::prelude::*;
use serde_json::{json, Value};
use std::io::Write;

pub fn strip_ops(mut m: AbsModule) -> AbsModule {
    for f in m.funcs.iter_mut() {
        f.ops.clear();
        f.locals.clear();
    }
    m
}

pub fn hex(b: &[u8]) -> String {
    b.iter().map(|x| format!("{:02x}", x)).collect()
}
pub fn unhex(s: &str) -> Vec<u8> {
    (0..s.len() / 2).map(|i| u8::from_str_radix(&s[2 * i..2 * i + 2], 16).unwrap()).collect()
}

pub fn write_lines(path: &str, lines: &[Value]) {
    let mut f = std::io::BufWriter::new(std::fs::File::create(path).unwrap());
    for l in lines {
        serde_json::to_writer(&mut f, l).unwrap();
        f.write_all(b"\n").unwrap();
    }
}

/// One input of a batch: an id, the bytes, and where it came from.
#[derive(Clone)]
pub struct Input {
    pub id: String,
    pub bytes: Vec<u8>,
    pub source: String,
}

/// every valid module contained in the repository's .wat/.wast fixtures
pub fn fixture_inputs() -> Vec<Input> {
    let mut out = vec![];
    let root = std::path::Path::new("/repo/crates/tests/tests");
    let mut stack = vec![root.to_path_buf()];
    let mut files = vec![];
    while let Some(d) = stack.pop() {
        if let Ok(rd) = std::fs::read_dir(&d) {
            for e in rd.flatten() {
                let p = e.path();
                if p.is_dir() {
                    stack.push(p);
                } else if matches!(p.extension().and_then(|x| x.to_str()), Some("wat") | Some("wast")) {
                    files.push(p);
                }
            }
        }
    }
    files.sort();
    for p in files {
        let rel = p.strip_prefix(root).unwrap().to_string_lossy().to_string();
        let text = match std::fs::read_to_string(&p) {
            Ok(t) => t,
            Err(_) => continue,
        };
        if p.extension().and_then(|x| x.to_str()) == Some("wat") {
            if let Ok(bytes) = std::panic::catch_unwind(|| wat::parse_str(&text)) {
                if let Ok(bytes) = bytes {
                    out.push(Input { id: format!("fx-{}", rel), bytes, source: format!("fixture:{}", rel) });
                }
            }
        } else {
            // .wast: every (module ...) directive
            let r = std::panic::catch_unwind(|| {
                let mut mods = vec![];
                let buf = match wast::parser::ParseBuffer::new(&text) {
                    Ok(b) => b,
                    Err(_) => return mods,
                };
                if let Ok(w) = wast::parser::parse::<wast::Wast>(&buf) {
                    for d in w.directives {
                        if let wast::WastDirective::Module(mut qm) = d {
                            if let Ok(b) = qm.encode() {
                                mods.push(b);
                            }
                        }
                    }
                }
                mods
            });
            if let Ok(mods) = r {
                for (k, b) in mods.into_iter().enumerate() {
                    out.push(Input { id: format!("fx-{}#{}", rel, k), bytes: b, source: format!("fixture:{}#{}", rel, k) });
                }
            }
        }
    }
    out
}

/// TLC-enumerated abstract modules (Families.tla), concretised
pub fn family_inputs(path: &str, tag: &str) -> Vec<Input> {
    let text = std::fs::read_to_string(path).expect("family file");
    text.lines()
        .filter(|l| !l.trim().is_empty())
        .enumerate()
        .map(|(k, l)| {
            let v: Value = serde_json::from_str(l).unwrap();
            let d = crate::concretise::concretise(&v);
            Input { id: format!("{}-{}", tag, k), bytes: d.encode(), source: format!("fam:{}:{}", tag, k) }
        })
        .collect()
}

/// TLC-enumerated control strings (Body.tla), concretised into a function body each.
/// func 0 = the string (type ()->()), func 1 = a void helper (target of return_call); both exported.
pub fn control_inputs(path: &str) -> Vec<Input> {
    use wasm_encoder as we;
    use wasm_encoder::Instruction as I;
    let text = std::fs::read_to_string(path).expect("control string file");
    let mut out = vec![];
    for (k, l) in text.lines().enumerate() {
        let l = l.trim();
        if !l.starts_with('"') {
            continue;
        }
        let inner: String = match serde_json::from_str(l) {
            Ok(s) => s,
            Err(_) => continue,
        };
        let Some(payload) = inner.strip_prefix("CASE ") else { continue };
        let v: Value = serde_json::from_str(payload).unwrap();
        let mut f = we::Function::new([]);
        let mut desc = String::new();
        for op in v.as_array().unwrap() {
            let name = op[0].as_str().unwrap();
            let labels: Vec<u32> = op[1].as_array().unwrap().iter().map(|x| x.as_u64().unwrap() as u32).collect();
            desc.push_str(name);
            for l in &labels {
                desc.push_str(&format!("{}", l));
            }
            desc.push(' ');
            let ins = match name {
                "Const" => I::I32Const(7),
                "Drop" => I::Drop,
                "Nop" => I::Nop,
                "Return" => I::Return,
                "Unreachable" => I::Unreachable,
                "ReturnCall" => I::ReturnCall(1),
                "Block" => I::Block(we::BlockType::Empty),
                "Loop" => I::Loop(we::BlockType::Empty),
                "If" => I::If(we::BlockType::Empty),
                "Else" => I::Else,
                "End" => I::End,
                "Br" => I::Br(labels[0]),
                "BrIf" => I::BrIf(labels[0]),
                "BrTable" => I::BrTable(labels[..labels.len() - 1].to_vec().into(), labels[labels.len() - 1]),
                other => panic!("unknown control symbol {}", other),
            };
            f.instruction(&ins);
        }
        let mut m = we::Module::new();
        let mut types = we::TypeSection::new();
        types.function([], []);
        m.section(&types);
        let mut funcs = we::FunctionSection::new();
        funcs.function(0);
        funcs.function(0);
        m.section(&funcs);
        let mut exports = we::ExportSection::new();
        exports.export("f", we::ExportKind::Func, 0);
        exports.export("g", we::ExportKind::Func, 1);
        m.section(&exports);
        let mut code = we::CodeSection::new();
        code.function(&f);
        let mut g = we::Function::new([]);
        g.instruction(&I::End);
        code.function(&g);
        m.section(&code);
        out.push(Input { id: format!("ctl-{}", k), bytes: m.finish(), source: format!("ctl:{}", desc.trim()) });
    }
    out
}

/// The operator sweep: every instance of the operator table, once in an executed position and once
/// after a terminator (dead code), inside the probe module.
pub fn operator_inputs() -> Vec<Input> {
    use crate::optable::{probe_module, reencode_plain, table, zero_of};
    use wasm_encoder::Instruction as I;
    let tab = table();
    let mut out = vec![];
    for (k, inst) in tab.insts.iter().enumerate() {
        let Some(ins) = reencode_plain(&inst.op) else { continue };
        let a = absmod::project_op(&inst.op, &absmod::OpCx { types: &[(vec![], vec![])] });
        for dead in [false, true] {
            let bytes = probe_module(&|f| {
                if dead {
                    f.instruction(&I::Unreachable);
                }
                for t in &inst.inputs {
                    f.instruction(&zero_of(*t));
                }
                f.instruction(&ins);
                if !inst.terminator {
                    for _ in &inst.outputs {
                        f.instruction(&I::Drop);
                    }
                }
                f.instruction(&I::End);
            });
            out.push(Input { id: format!("op-{}-{}{}", k, inst.name, if dead { "-dead" } else { "" }), bytes, source: format!("op:{}:{}:{}", inst.name, a.imm, if dead { "dead" } else { "live" }) });
        }
    }
    out
}

/// Resolve a comma separated list of input sources:
///   gen:<n>[:<profile>]  fam:<tag>:<path>  fixtures  file:<path>
pub fn resolve_inputs(spec: &str, seed: u64) -> Vec<Input> {
    let mut out = vec![];
    for part in spec.split(',').filter(|p| !p.is_empty()) {
        let f: Vec<&str> = part.split(':').collect();
        match f[0] {
            "gen" => {
                let n: u64 = f[1].parse().unwrap();
                let profile = f.get(2).copied().unwrap_or("full");
                out.extend(generated_inputs(seed, n, &profile_opts(profile), profile));
            }
            "fam" => out.extend(family_inputs(f[2], f[1])),
            "ctl" => out.extend(control_inputs(f[1])),
            "ops" => out.extend(operator_inputs()),
            "fixtures" => out.extend(fixture_inputs().into_iter().filter(|i| absmod::validate(&i.bytes).is_ok())),
            "fixtures-all" => out.extend(fixture_inputs()),
            "file" => {
                let bytes = std::fs::read(f[1]).expect("input file");
                out.push(Input { id: format!("file-{}", f[1].rsplit('/').next().unwrap()), bytes, source: format!("file:{}", f[1]) });
            }
            _ => panic!("unknown input source {}", part),
        }
    }
    out
}

pub fn profile_opts(profile: &str) -> GenOpts {
    let mut o = GenOpts::default();
    match profile {
        "full" => {}
        "big" => {
            o.max_funcs = 40;
            o.fuel = 400;
        }
        "mvp" => o.feat = gen::Feat::mvp(),
        "stable" => o.feat = gen::Feat::stable(),
        "exec" => {
            o.exec_subset = true;
            o.instantiable = true;
            o.feat = gen::Feat::mvp();
            o.feat.mutable_global = true;
            o.feat.multi_memory = true;
        }
        _ => panic!("unknown profile {}", profile),
    }
    o
}

pub fn generated_inputs(seed: u64, n: u64, o: &GenOpts, tag: &str) -> Vec<Input> {
    (0..n)
        .into_par_iter()
        .map(|i| {
            let s = seed.wrapping_mul(1_000_003).wrapping_add(i);
            let (g, _) = gen::gen_valid(s, o);
            Input { id: format!("{}-{}", tag, s), bytes: g.bytes, source: format!("gen:{}:{}", tag, s) }
        })
        .collect()
}

/// C04: structure preserved by the plain round trip.
pub fn structure_case(inp: &Input, cfg: &Cfg) -> Value {
    let rt = run::roundtrip(&inp.bytes, cfg, 0);
    let inm = absmod::project(&inp.bytes).map(strip_ops).unwrap_or_default();
    let outm = if rt.outcome == "ok" { absmod::project(&rt.out).map(strip_ops).unwrap_or_default() } else { AbsModule::default() };
    json!({
        "id": inp.id, "source": inp.source, "outcome": rt.outcome,
        "in_valid": absmod::validate(&inp.bytes).is_ok(),
        "out_valid": rt.outcome == "ok" && absmod::validate(&rt.out).is_ok(),
        "inm": inm, "outm": outm, "sigma": rt.sigma,
    })
}

fn slim_op(o: &absmod::AbsOp) -> Value {
    json!({"o": o.o, "imm": o.imm, "refs": o.refs, "local": o.local, "labels": o.labels, "bt": o.bt})
}

/// C03: per-function operator lists of input and output, with the renumbering.
/// `base` = number of functions of the earlier lines of the trace (register numbering of Trace_Body.tla).
pub fn bodies_case(inp: &Input, cfg: &Cfg, gc_runs: u32) -> Value {
    let rt = run::roundtrip(&inp.bytes, cfg, gc_runs);
    let inm = absmod::project(&inp.bytes).unwrap_or_default();
    let outm = if rt.outcome == "ok" { absmod::project(&rt.out).unwrap_or_default() } else { AbsModule::default() };
    let mut funcs = vec![];
    for f in inm.funcs.iter().filter(|f| !f.imported) {
        let fo = rt.sigma.func.get(f.idx as usize).copied().unwrap_or(-1);
        if fo < 0 && gc_runs > 0 {
            continue; // removed by the pass
        }
        let of = if fo >= 0 { outm.funcs.get(fo as usize) } else { None };
        funcs.push(json!({
            "fi": f.idx, "fo": fo, "nparams": f.nparams,
            "inlocals": f.locals, "outlocals": of.map(|x| x.locals.clone()).unwrap_or_default(),
            "inops": f.ops.iter().map(slim_op).collect::<Vec<_>>(),
            "outops": of.map(|x| x.ops.iter().map(slim_op).collect::<Vec<_>>()).unwrap_or_default(),
        }));
    }
    json!({
        "id": inp.id, "source": inp.source, "outcome": rt.outcome,
        "out_valid": rt.outcome == "ok" && absmod::validate(&rt.out).is_ok(),
        "sigma": rt.sigma, "intypes": inm.types, "outtypes": outm.types, "funcs": funcs, "base": 0,
    })
}

/// number the (case, function) pairs of a bodies trace
pub fn assign_bases(lines: &mut [Value]) {
    let mut base = 0usize;
    for l in lines.iter_mut() {
        let n = l["funcs"].as_array().map(|a| a.len()).unwrap_or(0);
        l["base"] = json!(base);
        base += n;
    }
}

/// deterministic pseudo-random choice of extra GC roots for an input
fn pick_roots(inp: &Input, inm: &AbsModule) -> Vec<(String, u32)> {
    let h = u64::from_str_radix(&absmod::fnv(inp.id.as_bytes()), 16).unwrap_or(0);
    let mut out = vec![];
    if h % 3 != 0 {
        return out; // two thirds of the cases have no custom roots
    }
    let spaces: [(&str, usize); 4] = [("func", inm.funcs.len()), ("table", inm.tables.len()), ("memory", inm.memories.len()), ("global", inm.globals.len())];
    let mut x = h / 3;
    for (sp, n) in spaces {
        if n > 0 && x % 2 == 0 {
            out.push((sp.to_string(), ((x / 2) % n as u64) as u32));
        }
        x /= 7;
    }
    out
}

/// Diagnosis aid for one known finding: functions named by a live `ref.func` whose only declaration
/// (export, global initialiser, element segment) is a passive element segment.
pub fn declared_only_by_passive(m: &AbsModule) -> Vec<u32> {
    let mut reffed: Vec<u32> = vec![];
    for f in &m.funcs {
        let live = absmod::liveness(&f.ops);
        for (op, l) in f.ops.iter().zip(live.iter()) {
            if *l && op.o == "RefFunc" {
                for r in &op.refs {
                    if r.0 == "func" && !reffed.contains(&r.1) {
                        reffed.push(r.1);
                    }
                }
            }
        }
    }
    let in_items = |e: &absmod::AbsElem, f: u32| e.items.iter().any(|x| x.k == "func" && x.r == f as i32);
    reffed
        .into_iter()
        .filter(|f| {
            let exported = m.exports.iter().any(|e| e.kind == "func" && e.target == *f);
            let in_global = m.globals.iter().any(|g| g.init.k == "func" && g.init.r == *f as i32);
            let in_kept = m.elems.iter().any(|e| e.mode != "passive" && in_items(e, *f));
            let in_passive = m.elems.iter().any(|e| e.mode == "passive" && in_items(e, *f));
            !exported && !in_global && !in_kept && in_passive
        })
        .collect()
}

/// C06/C07: parse ; gc ; emit, with the facts about a second gc run.
pub fn gc_case(inp: &Input, cfg: &Cfg) -> Value {
    let mut inm = absmod::project(&inp.bytes).unwrap_or_default();
    let extra = pick_roots(inp, &inm);
    let decl_only_passive = declared_only_by_passive(&inm);
    let rt = run::gc_roundtrip(&inp.bytes, cfg, 1, &extra);
    // reachability on the input side is over the operators that survive elision
    for f in inm.funcs.iter_mut() {
        f.refs = f.live_refs.clone();
    }
    let inm = strip_ops(inm);
    let (outm, out_valid, out_error) = if rt.outcome == "ok" {
        let v = absmod::validate(&rt.out);
        (absmod::project(&rt.out).map(strip_ops).unwrap_or_default(), v.is_ok(), v.err().unwrap_or_default())
    } else {
        (AbsModule::default(), false, String::new())
    };
    let rt2 = run::gc_roundtrip(&inp.bytes, cfg, 2, &extra);
    let gc2_same = rt2.outcome == rt.outcome && rt2.out == rt.out;
    let gc2_detail = if gc2_same { String::new() } else { format!("{} len {} vs {}", rt2.outcome, rt.out.len(), rt2.out.len()) };
    json!({
        "id": inp.id, "source": inp.source, "outcome": rt.outcome,
        "in_valid": true, "out_valid": out_valid, "out_error": run::short(&out_error),
        "inm": inm, "outm": outm, "sigma": rt.sigma, "extra_roots": extra,
        "gc2_same": gc2_same, "gc2_detail": gc2_detail, "decl_only_passive": decl_only_passive,
    })
}
