//! Trace producers: drive walrus over generated / enumerated inputs and write one ndjson line per
//! observed case for the TLC trace specs.

use crate::absmod::{self, AbsModule};
use crate::gen::{self, GenOpts};
use crate::run::{self, Cfg};
use rayon::prelude::*;
use serde_json::{json, Value};
use std::io::Write;

pub fn strip_ops(mut m: AbsModule) -> AbsModule {
    for f in m.funcs.iter_mut() {
        f.ops.clear();
        f.locals.clear();
    }
    m
}

pub fn hex(b: &[u8]) -> String {
    b.iter().map(|x| format!("{:02x}", x)).collect()
}
pub fn unhex(s: &str) -> Vec<u8> {
    (0..s.len() / 2).map(|i| u8::from_str_radix(&s[2 * i..2 * i + 2], 16).unwrap()).collect()
}

pub fn write_lines(path: &str, lines: &[Value]) {
    let mut f = std::io::BufWriter::new(std::fs::File::create(path).unwrap());
    for l in lines {
        serde_json::to_writer(&mut f, l).unwrap();
        f.write_all(b"\n").unwrap();
    }
}

/// One input of a batch: an id, the bytes, and where it came from.
#[derive(Clone)]
pub struct Input {
    pub id: String,
    pub bytes: Vec<u8>,
    pub source: String,
}

/// every valid module contained in the repository's .wat/.wast fixtures
pub fn fixture_inputs() -> Vec<Input> {
    let mut out = vec![];
    let root = std::path::Path::new("/repo/crates/tests/tests");
    let mut stack = vec![root.to_path_buf()];
    let mut files = vec![];
    while let Some(d) = stack.pop() {
        if let Ok(rd) = std::fs::read_dir(&d) {
            for e in rd.flatten() {
                let p = e.path();
                if p.is_dir() {
                    stack.push(p);
                } else if matches!(p.extension().and_then(|x| x.to_str()), Some("wat") | Some("wast")) {
                    files.push(p);
                }
            }
        }
    }
    files.sort();
    for p in files {
        let rel = p.strip_prefix(root).unwrap().to_string_lossy().to_string();
        let text = match std::fs::read_to_string(&p) {
            Ok(t) => t,
            Err(_) => continue,
        };
        if p.extension().and_then(|x| x.to_str()) == Some("wat") {
            if let Ok(bytes) = std::panic::catch_unwind(|| wat::parse_str(&text)) {
                if let Ok(bytes) = bytes {
                    out.push(Input { id: format!("fx-{}", rel), bytes, source: format!("fixture:{}", rel) });
                }
            }
        } else {
            // .wast: every (module ...) directive
            let r = std::panic::catch_unwind(|| {
                let mut mods = vec![];
                let buf = match wast::parser::ParseBuffer::new(&text) {
                    Ok(b) => b,
                    Err(_) => return mods,
                };
                if let Ok(w) = wast::parser::parse::<wast::Wast>(&buf) {
                    for d in w.directives {
                        if let wast::WastDirective::Module(mut qm) = d {
                            if let Ok(b) = qm.encode() {
                                mods.push(b);
                            }
                        }
                    }
                }
                mods
            });
            if let Ok(mods) = r {
                for (k, b) in mods.into_iter().enumerate() {
                    out.push(Input { id: format!("fx-{}#{}", rel, k), bytes: b, source: format!("fixture:{}#{}", rel, k) });
                }
            }
        }
    }
    out
}

/// TLC-enumerated abstract modules (Families.tla), concretised
pub fn family_inputs(path: &str, tag: &str) -> Vec<Input> {
    let text = std::fs::read_to_string(path).expect("family file");
    text.lines()
        .filter(|l| !l.trim().is_empty())
        .enumerate()
        .map(|(k, l)| {
            let v: Value = serde_json::from_str(l).unwrap();
            let d = crate::concretise::concretise(&v);
            Input { id: format!("{}-{}", tag, k), bytes: d.encode(), source: format!("fam:{}:{}", tag, k) }
        })
        .collect()
}

/// TLC-enumerated control strings (Body.tla), concretised into a function body each.
/// func 0 = the string (type ()->()), func 1 = a void helper (target of return_call); both exported.
pub fn control_inputs(path: &str) -> Vec<Input> {
    use wasm_encoder as we;
    use wasm_encoder::Instruction as I;
    let text = std::fs::read_to_string(path).expect("control string file");
    let mut out = vec![];
    for (k, l) in text.lines().enumerate() {
        let l = l.trim();
        if !l.starts_with('"') {
            continue;
        }
        let inner: String = match serde_json::from_str(l) {
            Ok(s) => s,
            Err(_) => continue,
        };
        let Some(payload) = inner.strip_prefix("CASE ") else { continue };
        let v: Value = serde_json::from_str(payload).unwrap();
        let mut f = we::Function::new([]);
        let mut desc = String::new();
        for op in v.as_array().unwrap() {
            let name = op[0].as_str().unwrap();
            let labels: Vec<u32> = op[1].as_array().unwrap().iter().map(|x| x.as_u64().unwrap() as u32).collect();
            desc.push_str(name);
            for l in &labels {
                desc.push_str(&format!("{}", l));
            }
            desc.push(' ');
            let ins = match name {
                "Const" => I::I32Const(7),
                "Drop" => I::Drop,
                "Nop" => I::Nop,
                "Return" => I::Return,
                "Unreachable" => I::Unreachable,
                "ReturnCall" => I::ReturnCall(1),
                "Block" => I::Block(we::BlockType::Empty),
                "Loop" => I::Loop(we::BlockType::Empty),
                "If" => I::If(we::BlockType::Empty),
                "Else" => I::Else,
                "End" => I::End,
                "Br" => I::Br(labels[0]),
                "BrIf" => I::BrIf(labels[0]),
                "BrTable" => I::BrTable(labels[..labels.len() - 1].to_vec().into(), labels[labels.len() - 1]),
                other => panic!("unknown control symbol {}", other),
            };
            f.instruction(&ins);
        }
        let mut m = we::Module::new();
        let mut types = we::TypeSection::new();
        types.function([], []);
        m.section(&types);
        let mut funcs = we::FunctionSection::new();
        funcs.function(0);
        funcs.function(0);
        m.section(&funcs);
        let mut exports = we::ExportSection::new();
        exports.export("f", we::ExportKind::Func, 0);
        exports.export("g", we::ExportKind::Func, 1);
        m.section(&exports);
        let mut code = we::CodeSection::new();
        code.function(&f);
        let mut g = we::Function::new([]);
        g.instruction(&I::End);
        code.function(&g);
        m.section(&code);
        out.push(Input { id: format!("ctl-{}", k), bytes: m.finish(), source: format!("ctl:{}", desc.trim()) });
    }
    out
}

/// TLC-enumerated control strings made *executable* (C01): type (i32) -> (); func 0 = host import env.mark (i32) -> (),
/// func 1 = the string, exported "f".  A marker `i32.const k; call mark` precedes the k-th symbol, so which code is reached
/// (and in which order) is visible in the host-call trace; the j-th Const becomes `local.get 0; i32.const 2^j; i32.and`, so the
/// argument decides every condition.  Strings with symbols outside Exec.tla's subset are skipped.
pub fn exec_control_inputs(path: &str) -> Vec<Input> {
    use wasm_encoder as we;
    use wasm_encoder::Instruction as I;
    let text = std::fs::read_to_string(path).expect("control string file");
    let mut out = vec![];
    'line: for (k, l) in text.lines().enumerate() {
        let l = l.trim();
        let Ok(inner) = serde_json::from_str::<String>(l) else { continue };
        let Some(payload) = inner.strip_prefix("CASE ") else { continue };
        let v: Value = serde_json::from_str(payload).unwrap();
        let mut f = we::Function::new([]);
        let mut desc = String::new();
        let mut nconst = 0u32;
        for (pos, op) in v.as_array().unwrap().iter().enumerate() {
            let name = op[0].as_str().unwrap();
            let labels: Vec<u32> = op[1].as_array().unwrap().iter().map(|x| x.as_u64().unwrap() as u32).collect();
            desc.push_str(name);
            for l in &labels {
                desc.push_str(&format!("{}", l));
            }
            desc.push(' ');
            f.instruction(&I::I32Const(pos as i32 + 1));
            f.instruction(&I::Call(0));
            match name {
                "Const" => {
                    f.instruction(&I::LocalGet(0));
                    f.instruction(&I::I32Const(1 << (nconst % 3)));
                    f.instruction(&I::I32And);
                    nconst += 1;
                }
                "Drop" => drop(f.instruction(&I::Drop)),
                "Nop" => drop(f.instruction(&I::Nop)),
                "Return" => drop(f.instruction(&I::Return)),
                "Unreachable" => drop(f.instruction(&I::Unreachable)),
                "Block" => drop(f.instruction(&I::Block(we::BlockType::Empty))),
                "Loop" => drop(f.instruction(&I::Loop(we::BlockType::Empty))),
                "If" => drop(f.instruction(&I::If(we::BlockType::Empty))),
                "Else" => drop(f.instruction(&I::Else)),
                "End" => drop(f.instruction(&I::End)),
                "Br" => drop(f.instruction(&I::Br(labels[0]))),
                "BrIf" => drop(f.instruction(&I::BrIf(labels[0]))),
                "BrTable" => drop(f.instruction(&I::BrTable(labels[..labels.len() - 1].to_vec().into(), labels[labels.len() - 1]))),
                _ => continue 'line,
            };
        }
        let mut m = we::Module::new();
        let mut types = we::TypeSection::new();
        types.function([we::ValType::I32], []);
        m.section(&types);
        let mut imports = we::ImportSection::new();
        imports.import("env", "mark", we::EntityType::Function(0));
        m.section(&imports);
        let mut funcs = we::FunctionSection::new();
        funcs.function(0);
        m.section(&funcs);
        let mut exports = we::ExportSection::new();
        exports.export("f", we::ExportKind::Func, 1);
        m.section(&exports);
        let mut code = we::CodeSection::new();
        code.function(&f);
        m.section(&code);
        out.push(Input { id: format!("ectl-{}", k), bytes: m.finish(), source: format!("ectl:{}", desc.trim()) });
    }
    out
}

/// The operator sweep: every instance of the operator table, once in an executed position and once
/// after a terminator (dead code), inside the probe module.
pub fn operator_inputs() -> Vec<Input> {
    use crate::optable::{probe_module, reencode_plain, table, zero_of};
    use wasm_encoder::Instruction as I;
    let tab = table();
    let mut out = vec![];
    for (k, inst) in tab.insts.iter().enumerate() {
        let Some(ins) = reencode_plain(&inst.op) else { continue };
        let a = absmod::project_op(&inst.op, &absmod::OpCx { types: &[(vec![], vec![])] });
        for dead in [false, true] {
            let bytes = probe_module(&|f| {
                if dead {
                    f.instruction(&I::Unreachable);
                }
                for t in &inst.inputs {
                    f.instruction(&zero_of(*t));
                }
                f.instruction(&ins);
                if !inst.terminator {
                    for _ in &inst.outputs {
                        f.instruction(&I::Drop);
                    }
                }
                f.instruction(&I::End);
            });
            out.push(Input { id: format!("op-{}-{}{}", k, inst.name, if dead { "-dead" } else { "" }), bytes, source: format!("op:{}:{}:{}", inst.name, a.imm, if dead { "dead" } else { "live" }) });
        }
    }
    out
}

/// A fixed module in which every standard section is present.
pub fn base_desc() -> gen::Desc {
    use crate::gen::*;
    use crate::optable::T;
    use wasm_encoder::Instruction as I;
    let mut d = Desc::default();
    d.types.push(Sig { params: vec![], results: vec![] });
    d.types.push(Sig { params: vec![T::I32], results: vec![T::I32] });
    d.funcs.push(FuncD { ty: 0, imported: true });
    d.imports.push(Imp { module: "env".into(), field: "imp".into(), kind: ImpKind::Func(0) });
    d.funcs.push(FuncD { ty: 0, imported: false });
    d.funcs.push(FuncD { ty: 1, imported: false });
    d.tables.push(TableD { ety: T::FuncRef, min: 2, max: None, t64: false, imported: false });
    d.mems.push(MemD { min: 1, max: None, m64: false, shared: false, imported: false });
    d.globals.push(GlobalD { ty: T::I32, mutable: true, imported: false, init: Some(Expr::I32(5)) });
    d.exports.push(ExportD { name: "f".into(), kind: wasm_encoder::ExportKind::Func, idx: 2 });
    d.exports.push(ExportD { name: "m".into(), kind: wasm_encoder::ExportKind::Memory, idx: 0 });
    d.start = Some(1);
    d.elems.push(ElemD { mode: ElemMode::Active { table: 0, offset: Expr::I32(0), explicit_table: false }, ety: T::FuncRef, funcs_form: true, items: vec![Expr::Func(1), Expr::Func(2)] });
    d.data.push(DataD { mode: DataMode::Active { mem: 0, offset: Expr::I32(8) }, bytes: vec![1, 2, 3] });
    d.data.push(DataD { mode: DataMode::Passive, bytes: vec![9] });
    d.datacount = true;
    d.bodies.push(BodyD { locals: vec![], instrs: vec![I::Call(0), I::DataDrop(1), I::End] });
    d.bodies.push(BodyD { locals: vec![T::I32], instrs: vec![I::LocalGet(0), I::GlobalGet(0), I::I32Add, I::LocalTee(1), I::End] });
    d.names.present = true;
    d.names.module = Some("base".into());
    d.names.funcs = vec![(1, "one".into()), (2, "two".into())];
    d.producers = Some(vec![("language".into(), vec![("Rust".into(), "1".into())])]);
    d
}

/// TLC-enumerated placements of unknown custom sections (Enum_Customs.tla) in the base module
pub fn custom_layout_inputs(path: &str) -> Vec<Input> {
    let text = std::fs::read_to_string(path).expect("layout file");
    let mut out = vec![];
    for (k, l) in text.lines().filter(|l| !l.trim().is_empty()).enumerate() {
        let v: Value = serde_json::from_str(l).unwrap();
        let mut d = base_desc();
        let mut descr = String::new();
        for (q, slot) in v["layout"].as_array().unwrap().iter().enumerate() {
            let pos = slot["pos"].as_u64().unwrap() as u8;
            let after = match pos {
                10 => 12,
                11 => 10,
                12 => 11,
                p => p,
            };
            let len = slot["len"].as_u64().unwrap() as usize;
            // the model's two names: "a" stays, "b" becomes an unknown name that contains the DWARF prefix in the middle
            let name = match slot["name"].as_str().unwrap() {
                "b" => "reloc..debug_info".to_string(),
                n => n.to_string(),
            };
            descr.push_str(&format!("{}@{}/{} ", name, pos, len));
            d.customs.push(gen::CustomD { after, name, data: (0..len).map(|x| (x as u8).wrapping_mul(37).wrapping_add(q as u8 + pos)).collect() });
        }
        out.push(Input { id: format!("cust-{}", k), bytes: d.encode(), source: format!("cust:{}", descr.trim()) });
        // every third layout again with a (well-formed, interpreted) DWARF section in front of everything
        if k % 3 == 0 && !d.customs.is_empty() {
            let mut d2 = d.clone();
            d2.customs.insert(0, gen::CustomD { after: 0, name: ".debug_str".into(), data: b"x\0".to_vec() });
            out.push(Input { id: format!("cust-{}-dw", k), bytes: d2.encode(), source: format!("cust:dwarf-first {}", descr.trim()) });
        }
    }
    out
}

/// Resolve a comma separated list of input sources:
///   gen:<n>[:<profile>]  fam:<tag>:<path>  fixtures  file:<path>
pub fn resolve_inputs(spec: &str, seed: u64) -> Vec<Input> {
    let mut out = vec![];
    for part in spec.split(',').filter(|p| !p.is_empty()) {
        let f: Vec<&str> = part.split(':').collect();
        match f[0] {
            "gen" => {
                let n: u64 = f[1].parse().unwrap();
                let profile = f.get(2).copied().unwrap_or("full");
                out.extend(generated_inputs(seed, n, &profile_opts(profile), profile));
            }
            "fam" => out.extend(family_inputs(f[2], f[1])),
            "ctl" => out.extend(control_inputs(f[1])),
            "ectl" => out.extend(exec_control_inputs(f[1])),
            "ops" => out.extend(operator_inputs()),
            "manyimp" => out.extend(many_import_inputs()),
            "offsets" => out.extend(offset_inputs()),
            "nocode" => out.extend(nocode_inputs()),
            "reffuncexp" => out.extend(ref_func_export_inputs()),
            "badnames" => out.extend(bad_name_inputs()),
            "noncanon" => out.extend(noncanonical_inputs()),
            "trailing" => out.extend(trailing_operator_inputs()),
            "bodysizes" => out.extend(body_size_inputs(false)),
            "bodysizes-big" => out.extend(body_size_inputs(true)),
            "dwarfed" => out.extend(dwarfed_inputs(seed, f[1].parse().unwrap())),
            "exectab" => out.extend(exec_table_inputs(seed, f[1].parse().unwrap())),
            "execbulk" => out.extend(exec_bulk_inputs(seed, f[1].parse().unwrap())),
            "dupimp" => out.extend(duplicate_import_inputs(seed, f[1].parse().unwrap())),
            "par" => out.extend(parallel_inputs(seed, f[1].parse().unwrap())),
            "proposals" => out.extend(proposal_inputs(seed, f[1].parse().unwrap())),
            "cust" => out.extend(custom_layout_inputs(f[1])),
            // the repository's fixtures plus the harness's small hand-made families
            "fixtures" => {
                out.extend(fixture_inputs().into_iter().filter(|i| absmod::validate(&i.bytes).is_ok()));
                out.extend(offset_inputs());
                out.extend(nocode_inputs());
                out.extend(custom_name_inputs());
            }
            "customname" => out.extend(custom_name_inputs()),
            "endcheck" => out.extend(end_check_inputs()),
            "fixtures-all" => {
                out.extend(end_check_inputs());
                out.extend(fixture_inputs());
                out.extend(offset_inputs());
                out.extend(nocode_inputs());
                out.extend(custom_name_inputs());
                out.extend(noncanonical_inputs());
                out.extend(trailing_operator_inputs());
            }
            "file" => {
                let bytes = std::fs::read(f[1]).expect("input file");
                out.push(Input { id: format!("file-{}", f[1].rsplit('/').next().unwrap()), bytes, source: format!("file:{}", f[1]) });
            }
            _ => panic!("unknown input source {}", part),
        }
    }
    out
}

pub fn profile_opts(profile: &str) -> GenOpts {
    let mut o = GenOpts::default();
    match profile {
        "full" => {}
        "big" => {
            o.max_funcs = 40;
            o.fuel = 400;
        }
        "small" => {
            o.max_funcs = 3;
            o.fuel = 12;
            o.names = false;
            o.customs = false;
        }
        "smalln" => {
            // small, with a name section
            o.max_funcs = 3;
            o.fuel = 12;
            o.customs = false;
        }
        "many" => {
            o.max_funcs = 300;
            o.fuel = 30;
            o.customs = false;
        }
        "mvp" => o.feat = gen::Feat::mvp(),
        "stable" => o.feat = gen::Feat::stable(),
        "exec" => {
            o.exec_subset = true;
            o.instantiable = true;
            o.feat = gen::Feat::mvp();
            o.feat.mutable_global = true;
            o.feat.multi_memory = true;
            // bulk memory / table instructions and several tables (Exec.tla has them)
            o.feat.bulk = true;
            o.feat.reftypes = true;
        }
        _ => panic!("unknown profile {}", profile),
    }
    o
}

pub fn generated_inputs(seed: u64, n: u64, o: &GenOpts, tag: &str) -> Vec<Input> {
    (0..n)
        .into_par_iter()
        .map(|i| {
            let s = seed.wrapping_mul(1_000_003).wrapping_add(i);
            let (g, _) = gen::gen_valid(s, o);
            Input { id: format!("{}-{}", tag, s), bytes: g.bytes, source: format!("gen:{}:{}", tag, s) }
        })
        .collect()
}

/// C04: structure preserved by the plain round trip.
pub fn structure_case(inp: &Input, cfg: &Cfg) -> Value {
    let rt = run::roundtrip(&inp.bytes, cfg, 0);
    let inm = absmod::project(&inp.bytes).map(strip_ops).unwrap_or_default();
    let outm = if rt.outcome == "ok" { absmod::project(&rt.out).map(strip_ops).unwrap_or_default() } else { AbsModule::default() };
    json!({
        "id": inp.id, "source": inp.source, "outcome": rt.outcome,
        "in_valid": absmod::validate(&inp.bytes).is_ok(),
        "out_valid": rt.outcome == "ok" && absmod::validate(&rt.out).is_ok(),
        "inm": inm, "outm": outm, "sigma": rt.sigma,
    })
}

fn slim_op(o: &absmod::AbsOp) -> Value {
    json!({"o": o.o, "imm": o.imm, "refs": o.refs, "local": o.local, "labels": o.labels, "bt": o.bt})
}

/// C03: per-function operator lists of input and output, with the renumbering.
/// `base` = number of functions of the earlier lines of the trace (register numbering of Trace_Body.tla).
pub fn bodies_case(inp: &Input, cfg: &Cfg, gc_runs: u32) -> Value {
    let rt = run::roundtrip(&inp.bytes, cfg, gc_runs);
    let inm = absmod::project(&inp.bytes).unwrap_or_default();
    let outm = if rt.outcome == "ok" { absmod::project(&rt.out).unwrap_or_default() } else { AbsModule::default() };
    let mut funcs = vec![];
    for f in inm.funcs.iter().filter(|f| !f.imported) {
        let fo = rt.sigma.func.get(f.idx as usize).copied().unwrap_or(-1);
        if fo < 0 && gc_runs > 0 {
            continue; // removed by the pass
        }
        let of = if fo >= 0 { outm.funcs.get(fo as usize) } else { None };
        funcs.push(json!({
            "fi": f.idx, "fo": fo, "nparams": f.nparams,
            "inlocals": f.locals, "outlocals": of.map(|x| x.locals.clone()).unwrap_or_default(),
            "inops": f.ops.iter().map(slim_op).collect::<Vec<_>>(),
            "outops": of.map(|x| x.ops.iter().map(slim_op).collect::<Vec<_>>()).unwrap_or_default(),
        }));
    }
    json!({
        "id": inp.id, "source": inp.source, "outcome": rt.outcome,
        "out_valid": rt.outcome == "ok" && absmod::validate(&rt.out).is_ok(),
        "sigma": rt.sigma, "intypes": inm.types, "outtypes": outm.types, "funcs": funcs, "base": 0,
    })
}

/// number the (case, function) pairs of a bodies trace
pub fn assign_bases(lines: &mut [Value]) {
    let mut base = 0usize;
    for l in lines.iter_mut() {
        let n = l["funcs"].as_array().map(|a| a.len()).unwrap_or(0);
        l["base"] = json!(base);
        base += n;
    }
}

/// deterministic pseudo-random choice of extra GC roots for an input
fn pick_roots(inp: &Input, inm: &AbsModule) -> Vec<(String, u32)> {
    let h = u64::from_str_radix(&absmod::fnv(inp.id.as_bytes()), 16).unwrap_or(0);
    let mut out = vec![];
    if h % 3 != 0 {
        return out; // two thirds of the cases have no custom roots
    }
    let spaces: [(&str, usize); 4] = [("func", inm.funcs.len()), ("table", inm.tables.len()), ("memory", inm.memories.len()), ("global", inm.globals.len())];
    let mut x = h / 3;
    for (sp, n) in spaces {
        if n > 0 && x % 2 == 0 {
            out.push((sp.to_string(), ((x / 2) % n as u64) as u32));
        }
        x /= 7;
    }
    out
}

/// Diagnosis aid for one known finding: functions named by a live `ref.func` all of whose declarations are ones the
/// GC pass may collect (passive element segments, active segments of local tables, initialisers of local globals).
pub fn declared_only_by_passive(m: &AbsModule) -> Vec<u32> {
    let mut reffed: Vec<u32> = vec![];
    for f in &m.funcs {
        let live = absmod::liveness(&f.ops);
        for (op, l) in f.ops.iter().zip(live.iter()) {
            if *l && op.o == "RefFunc" {
                for r in &op.refs {
                    if r.0 == "func" && !reffed.contains(&r.1) {
                        reffed.push(r.1);
                    }
                }
            }
        }
    }
    let in_items = |e: &absmod::AbsElem, f: u32| e.items.iter().any(|x| x.k == "func" && x.r == f as i32);
    reffed
        .into_iter()
        .filter(|f| {
            // declarations that the GC pass always keeps: exports, declared segments, active segments of imported tables
            let exported = m.exports.iter().any(|e| e.kind == "func" && e.target == *f);
            let rooted = m.elems.iter().any(|e| in_items(e, *f) && (e.mode == "declared" || (e.mode == "active" && e.table >= 0 && m.tables.get(e.table as usize).map(|t| t.imported).unwrap_or(false))));
            // declarations that the pass may collect: passive segments, active segments of local tables, global initialisers
            let collectable = m.elems.iter().any(|e| in_items(e, *f)) || m.globals.iter().any(|g| g.init.k == "func" && g.init.r == *f as i32);
            !exported && !rooted && collectable
        })
        .collect()
}

/// C06/C07: parse ; gc ; emit, with the facts about a second gc run.
pub fn gc_case(inp: &Input, cfg: &Cfg) -> Value {
    let mut inm = absmod::project(&inp.bytes).unwrap_or_default();
    let extra = pick_roots(inp, &inm);
    let decl_only_passive = declared_only_by_passive(&inm);
    let rt = run::gc_roundtrip(&inp.bytes, cfg, 1, &extra);
    // reachability on the input side is over the operators that survive elision
    for f in inm.funcs.iter_mut() {
        f.refs = f.live_refs.clone();
    }
    let inm = strip_ops(inm);
    let (outm, out_valid, out_error) = if rt.outcome == "ok" {
        let v = absmod::validate(&rt.out);
        (absmod::project(&rt.out).map(strip_ops).unwrap_or_default(), v.is_ok(), v.err().unwrap_or_default())
    } else {
        (AbsModule::default(), false, String::new())
    };
    let rt2 = run::gc_roundtrip(&inp.bytes, cfg, 2, &extra);
    let gc2_same = rt2.outcome == rt.outcome && rt2.out == rt.out;
    let gc2_detail = if gc2_same { String::new() } else { format!("{} len {} vs {}", rt2.outcome, rt.out.len(), rt2.out.len()) };
    json!({
        "id": inp.id, "source": inp.source, "outcome": rt.outcome,
        "in_valid": true, "out_valid": out_valid, "out_error": run::short(&out_error),
        "inm": inm, "outm": outm, "sigma": rt.sigma, "extra_roots": extra,
        "gc2_same": gc2_same, "gc2_detail": gc2_detail, "decl_only_passive": decl_only_passive,
    })
}

/// GC on a module that was *built or edited through the API* (C06 / C07): functions made by FunctionBuilder with
/// multi-value signatures and blocks, some exported and some not, replacements of exported / imported functions.
/// The module is emitted once as it is (that binary is the "input" of the case), then GC'd and emitted again; sigma
/// composes the two emit-time index maps through the arena ids.
pub fn built_gc_case(seed: u64, k: u64) -> Value {
    use rand::Rng;
    use walrus::ir::InstrSeqType;
    use walrus::{FunctionBuilder, ValType};
    let mut r = gen::rng(seed.wrapping_mul(104729).wrapping_add(k));
    let id = format!("built-{}", k);
    let source = format!("built:{}:{}", seed, k);
    let fail = |outcome: String| json!({"id": id, "source": source, "outcome": outcome, "in_valid": true, "out_valid": false, "out_error": "", "inm": AbsModule::default(), "outm": AbsModule::default(),
                                        "sigma": run::Sigma::default(), "extra_roots": [], "gc2_same": true, "gc2_detail": "", "decl_only_passive": []});
    let cfg = Cfg { probe: false, ..Default::default() };
    let mut m = if r.gen_bool(0.5) {
        let mut o = profile_opts("small");
        o.customs = false;
        let (g, _) = gen::gen_valid(seed.wrapping_add(k), &o);
        match run::parse(&g.bytes, &cfg) {
            Ok(p) => p.module,
            Err(e) => return fail(format!("parse-{}", e)),
        }
    } else {
        walrus::Module::default()
    };
    let built: Result<(), String> = std::panic::catch_unwind(std::panic::AssertUnwindSafe(|| {
        let vts = [ValType::I32, ValType::I64, ValType::F32, ValType::F64];
        let push = |b: &mut walrus::InstrSeqBuilder, t: &ValType| match t {
            ValType::I32 => drop(b.i32_const(1)),
            ValType::I64 => drop(b.i64_const(2)),
            ValType::F32 => drop(b.f32_const(3.0)),
            _ => drop(b.f64_const(4.0)),
        };
        let mut made: Vec<(walrus::FunctionId, Vec<ValType>, usize)> = vec![];
        for j in 0..r.gen_range(1..5) {
            let params: Vec<ValType> = (0..r.gen_range(0..3)).map(|_| vts[r.gen_range(0..4)]).collect();
            let results: Vec<ValType> = (0..r.gen_range(0..4)).map(|_| vts[r.gen_range(0..4)]).collect();
            let args: Vec<walrus::LocalId> = params.iter().map(|t| m.locals.add(*t)).collect();
            let mut b = FunctionBuilder::new(&mut m.types, &params, &results);
            // a block with its own (possibly multi-value) type
            let (bp, br): (Vec<ValType>, Vec<ValType>) = ((0..r.gen_range(0..3)).map(|_| vts[r.gen_range(0..4)]).collect(), (0..r.gen_range(0..3)).map(|_| vts[r.gen_range(0..4)]).collect());
            let use_block = r.gen_bool(0.6);
            let bty = InstrSeqType::new(&mut m.types, &bp, &br);
            let callee = if !made.is_empty() && r.gen_bool(0.5) { Some(made[r.gen_range(0..made.len())].clone()) } else { None };
            {
                let mut body = b.func_body();
                if use_block {
                    for t in &bp {
                        push(&mut body, t);
                    }
                    body.block(bty, |blk| {
                        for _ in &bp {
                            blk.drop();
                        }
                        for t in &br {
                            push(blk, t);
                        }
                    });
                    for _ in &br {
                        body.drop();
                    }
                }
                if let Some((f, ps, nres)) = &callee {
                    for t in ps {
                        push(&mut body, t);
                    }
                    body.call(*f);
                    for _ in 0..*nres {
                        body.drop();
                    }
                }
                for a in &args {
                    body.local_get(*a).drop();
                }
                for t in &results {
                    push(&mut body, t);
                }
            }
            let f = b.finish(args, &mut m.funcs);
            if r.gen_bool(0.6) {
                m.exports.add(&format!("b{}", j), f);
            }
            made.push((f, params, results.len()));
        }
        // replacement edits on what the module already had
        let exported: Vec<usize> = m.exports.iter().filter_map(|e| match e.item { walrus::ExportItem::Function(f) if matches!(m.funcs.get(f).kind, walrus::FunctionKind::Local(_)) => Some(f.index()), _ => None }).collect();
        if !exported.is_empty() && r.gen_bool(0.5) {
            let f = exported[r.gen_range(0..exported.len())];
            crate::edits::apply(&mut m, &json!({"op": "replace_exported", "id": f, "refs": []}));
        }
        let imported: Vec<usize> = m.funcs.iter().filter(|f| matches!(f.kind, walrus::FunctionKind::Import(_))).map(|f| f.id().index()).collect();
        if !imported.is_empty() && r.gen_bool(0.5) {
            let f = imported[r.gen_range(0..imported.len())];
            crate::edits::apply(&mut m, &json!({"op": "replace_imported", "id": f, "refs": []}));
        }
    }))
    .map_err(|p| format!("build-panic:{}", run::short(&run::panic_msg(p))));
    if let Err(e) = built {
        return fail(e);
    }
    let e1 = match run::emit(&mut m, true) {
        Ok(e) => e,
        Err(e) => return fail(format!("plain-emit-{}", e)),
    };
    if let Err(e) = run::gc(&mut m) {
        return fail(format!("gc-{}", e));
    }
    let e2 = match run::emit(&mut m, true) {
        Ok(e) => e,
        Err(e) => return fail(format!("emit-{}", e)),
    };
    let gc2_same = run::gc(&mut m).is_ok() && run::emit(&mut m, false).map(|e| e.bytes == strip_probe(&e2.bytes)).unwrap_or(false);
    // index in the plain binary -> arena id
    fn inv(pairs: &[(i32, i32)]) -> Vec<i32> {
        let n = pairs.iter().map(|p| p.1 + 1).max().unwrap_or(0).max(0) as usize;
        let mut v = vec![-1; n];
        for (id, idx) in pairs {
            if *idx >= 0 {
                v[*idx as usize] = *id;
            }
        }
        v
    }
    let maps = run::ParseMaps { func: inv(&e1.emit.func), ty: inv(&e1.emit.ty), table: inv(&e1.emit.table), memory: inv(&e1.emit.memory), global: inv(&e1.emit.global), elem: inv(&e1.emit.elem), data: inv(&e1.emit.data), ..Default::default() };
    let sigma = run::sigma(&maps, &e2.emit);
    let in_bytes = strip_probe(&e1.bytes);
    let out_bytes = strip_probe(&e2.bytes);
    let mut inm = absmod::project(&in_bytes).unwrap_or_default();
    let decl_only_passive = declared_only_by_passive(&inm);
    for f in inm.funcs.iter_mut() {
        f.refs = f.live_refs.clone();
    }
    let v = absmod::validate(&out_bytes);
    json!({"id": id, "source": source, "outcome": "ok", "in_valid": absmod::validate(&in_bytes).is_ok(), "out_valid": v.is_ok(), "out_error": run::short(&v.err().unwrap_or_default()),
           "inm": strip_ops(inm), "outm": absmod::project(&out_bytes).map(strip_ops).unwrap_or_default(), "sigma": sigma, "extra_roots": [],
           "gc2_same": gc2_same, "gc2_detail": "", "decl_only_passive": decl_only_passive})
}

/// the binary without the probe's (empty) custom section
fn strip_probe(bytes: &[u8]) -> Vec<u8> {
    let mut out = bytes[..8.min(bytes.len())].to_vec();
    for p in wasmparser::Parser::new(0).parse_all(bytes) {
        let Ok(p) = p else { break };
        if let wasmparser::Payload::CustomSection(c) = &p {
            if c.name() == run::PROBE_NAME {
                continue;
            }
        }
        if let Some((id, range)) = p.as_section() {
            out.push(id);
            let mut n = range.end - range.start;
            loop {
                let b = (n & 0x7f) as u8;
                n >>= 7;
                if n == 0 {
                    out.push(b);
                    break;
                }
                out.push(b | 0x80);
            }
            out.extend_from_slice(&bytes[range]);
        }
    }
    out
}

// ---- lifecycle histories (C08, C12, C14) -----------------------------------------------------

fn held_customs(m: &walrus::Module) -> Vec<String> {
    let ids = walrus::IdsToIndices::default();
    m.customs.iter().filter(|(_, s)| s.name() != run::PROBE_NAME).map(|(_, s)| format!("{}#{}", s.name(), absmod::fnv(&s.data(&ids)))).collect()
}

/// (tail of non-core sections, producers processed-by tools, digest of the core sections)
pub fn inventory(bytes: &[u8]) -> (Vec<Value>, Vec<String>, String) {
    let mut tail = vec![];
    let mut core: Vec<u8> = vec![];
    let mut tools = vec![];
    if let Ok(m) = absmod::project(bytes) {
        for f in &m.producers {
            if f.field == "processed-by" {
                tools = f.values.iter().map(|v| v.0.clone()).collect();
            }
        }
    }
    for p in wasmparser::Parser::new(0).parse_all(bytes) {
        let Ok(p) = p else { break };
        if let wasmparser::Payload::CustomSection(c) = &p {
            let n = c.name();
            let (kind, name) = if n == "name" {
                ("name", "name".to_string())
            } else if n == "producers" {
                ("producers", "producers".to_string())
            } else if n.starts_with(".debug") {
                ("dwarf", ".debug".to_string())
            } else if n == run::PROBE_NAME {
                continue;
            } else {
                ("custom", format!("{}#{}", n, absmod::fnv(c.data())))
            };
            // several DWARF sections count as one inventory item
            if kind == "dwarf" && tail.iter().any(|t: &Value| t["kind"] == "dwarf") {
                continue;
            }
            tail.push(json!({"kind": kind, "name": name}));
        } else if let Some((_, range)) = p.as_section() {
            core.extend_from_slice(&bytes[range]);
        }
    }
    (tail, tools, absmod::fnv(&core))
}

/// the abstract input of Lifecycle.tla for a binary
pub fn lifecycle_input(bytes: &[u8], names_hint: Option<bool>) -> Value {
    let m = absmod::project(bytes).unwrap_or_default();
    let mut customs = vec![];
    let mut has_dwarf = false;
    for p in wasmparser::Parser::new(0).parse_all(bytes) {
        let Ok(p) = p else { break };
        if let wasmparser::Payload::CustomSection(c) = &p {
            let n = c.name();
            if n.starts_with(".debug") {
                has_dwarf = true;
            } else if n != "name" && n != "producers" {
                customs.push(format!("{}#{}", n, absmod::fnv(c.data())));
            }
        }
    }
    let mut tools = vec![];
    for f in &m.producers {
        if f.field == "processed-by" {
            tools = f.values.iter().map(|v| v.0.clone()).collect();
        }
    }
    // names that walrus attaches to entities it always emits; local names alone are ambiguous (unused locals are
    // dropped together with their names), in that case the caller supplies what was observed
    let limit = |k: &str| -> i32 {
        (match k {
            "func" => m.funcs.len(),
            "type" => m.types.len(),
            "table" => m.tables.len(),
            "memory" => m.memories.len(),
            "global" => m.globals.len(),
            "elem" => m.elems.len(),
            "data" => m.data.len(),
            _ => 0,
        }) as i32
    };
    let firm = m.names.iter().any(|n| n.kind == "module" || (["func", "type", "table", "memory", "global", "elem", "data"].contains(&n.kind.as_str()) && n.idx < limit(&n.kind)));
    let local_only = !firm && m.names.iter().any(|n| n.kind == "local");
    let has_names = if local_only { names_hint.unwrap_or(false) } else { firm };
    json!({"customs": customs, "hasNames": has_names, "tools": tools, "hasDwarf": has_dwarf, "namesAmbiguous": local_only})
}

pub fn lifecycle_case(inp: &Input, cfg: &Cfg, script: &[&str], tag: &str) -> Value {
    use std::sync::atomic::{AtomicU32, Ordering};
    use std::sync::Arc;
    let calls = Arc::new(AtomicU32::new(0));
    let mk_config = |calls: &Arc<AtomicU32>| {
        let mut c = cfg.to_config();
        let c2 = calls.clone();
        c.on_parse(move |_, _| {
            c2.fetch_add(1, Ordering::SeqCst);
            Ok(())
        });
        c
    };
    let mut events = vec![];
    let mut module: Option<walrus::Module> = None;
    let mut last_out: Vec<u8> = vec![];
    // a reference emit tells whether a name section made only of local names is retained
    let hint = {
        let mut c = cfg.clone();
        c.names = true;
        c.probe = false;
        let rt = run::roundtrip(&inp.bytes, &c, 0);
        if rt.outcome == "ok" { Some(inventory(&rt.out).0.iter().any(|t| t["kind"] == "name")) } else { None }
    };
    let cfgj = json!({"names": cfg.names, "producers": cfg.producers, "dwarf": cfg.dwarf});
    for step in script {
        match *step {
            "parse" | "reparse" => {
                let bytes = if *step == "parse" { inp.bytes.clone() } else { last_out.clone() };
                let r = std::panic::catch_unwind(std::panic::AssertUnwindSafe(|| mk_config(&calls).parse(&bytes)));
                let input = lifecycle_input(&bytes, hint);
                match r {
                    Ok(Ok(mut m)) => {
                        // what a tool does first: ask for its own section, which this module does not have; nothing may leave
                        let _ = std::panic::catch_unwind(std::panic::AssertUnwindSafe(|| m.customs.remove_raw("wv.not-in-this-module").is_some()));
                        events.push(json!({"ev": step, "ok": true, "cfg": cfgj, "input": input, "calls": calls.load(Ordering::SeqCst), "held": held_customs(&m)}));
                        module = Some(m);
                    }
                    Ok(Err(e)) => {
                        events.push(json!({"ev": step, "ok": false, "cfg": cfgj, "input": input, "calls": calls.load(Ordering::SeqCst), "held": [], "error": run::short(&format!("{:#}", e))}));
                        break;
                    }
                    Err(p) => {
                        events.push(json!({"ev": "panic", "at": step, "msg": run::short(&run::panic_msg(p))}));
                        break;
                    }
                }
            }
            "emit" => {
                let Some(m) = module.as_mut() else { break };
                match run::emit(m, false) {
                    Ok(e) => {
                        let (tail, tools, core) = inventory(&e.bytes);
                        events.push(json!({"ev": "emit", "outcome": "ok", "digest": absmod::fnv(&e.bytes), "len": e.bytes.len(),
                            "out": {"core": core, "tail": tail, "tools": tools}, "held": held_customs(m)}));
                        last_out = e.bytes;
                    }
                    Err(e) => {
                        events.push(json!({"ev": "emit", "outcome": e, "digest": "", "len": 0, "out": {"core": "", "tail": [], "tools": []}, "held": []}));
                        break;
                    }
                }
            }
            "gc" => {
                let Some(m) = module.as_mut() else { break };
                match run::gc(m) {
                    Ok(()) => events.push(json!({"ev": "gc", "held": held_customs(m)})),
                    Err(e) => {
                        events.push(json!({"ev": "panic", "at": "gc", "msg": e}));
                        break;
                    }
                }
            }
            _ => {}
        }
    }
    json!({"id": format!("{}~{}", inp.id, tag), "source": inp.source, "script": script, "events": events})
}

// ---- configuration matrix (C14) ---------------------------------------------------------------

fn section_rows(bytes: &[u8]) -> Vec<Value> {
    let mut v = vec![];
    for p in wasmparser::Parser::new(0).parse_all(bytes) {
        let Ok(p) = p else { break };
        if let wasmparser::Payload::CustomSection(c) = &p {
            let n = c.name();
            let kind = if n == "name" { "name" } else if n == "producers" { "producers" } else if n.starts_with(".debug") { "debug" } else { "custom" };
            v.push(json!({"id": 0, "name": n, "digest": absmod::fnv(c.data()), "kind": kind}));
        } else if let Some((id, range)) = p.as_section() {
            v.push(json!({"id": id, "name": "", "digest": absmod::fnv(&bytes[range]), "kind": "core"}));
        }
    }
    v
}
fn producers_json(m: &AbsModule) -> Vec<Value> {
    m.producers.iter().map(|f| json!({"field": f.field, "values": f.values})).collect()
}

/// run one input under every vector of the five switches
pub fn config_case(inp: &Input, dwarf_ok: bool) -> Value {
    use std::sync::atomic::{AtomicU32, Ordering};
    use std::sync::Arc;
    let inm = absmod::project(&inp.bytes).unwrap_or_default();
    let in_has_dwarf = inm.sections.iter().any(|s| s.name.starts_with(".debug"));
    let mut runs = vec![];
    // all 2^6 vectors of names / producers / dwarf / xform / stable / synthetic-names with strict validation on, and a
    // few of them again with strict validation off
    // (bits, strict, late): `late` = preserve_code_transform is set *after* generate_dwarf, so that DWARF generation is
    // on while the code transform is not preserved (the setters are order sensitive)
    let vectors: Vec<(u32, bool, bool)> = (0..64u32).map(|b| (b, true, false))
        .chain([0u32, 3, 21, 35, 42, 63].into_iter().map(|b| (b, false, false)))
        .chain((0..64u32).filter(|b| b & 4 != 0 && b & 8 == 0 && b & 48 == 0).map(|b| (b, true, true)))
        .collect();
    for (bits, strict, late) in vectors {
        let cfg = Cfg { names: bits & 1 != 0, producers: bits & 2 != 0, dwarf: bits & 4 != 0, xform: bits & 8 != 0, stable: bits & 16 != 0, synth: bits & 32 != 0, instr_loc: false, probe: false };
        if cfg.dwarf && !dwarf_ok {
            continue;
        }
        let calls = Arc::new(AtomicU32::new(0));
        let c2 = calls.clone();
        let mut config = cfg.to_config();
        if late {
            config.generate_dwarf(cfg.dwarf);
            config.preserve_code_transform(cfg.xform);
        }
        config.strict_validate(strict);
        config.on_parse(move |_, _| {
            c2.fetch_add(1, Ordering::SeqCst);
            Ok(())
        });
        let flags = json!({"names": cfg.names, "producers": cfg.producers, "dwarf": cfg.dwarf, "xform": cfg.xform, "stable": cfg.stable, "synth": cfg.synth, "strict": strict, "late": late});
        // the three ways into the parser must be one and the same: from memory, and from a file through either of the
        // file-based entry points (a scratch file, removed at once)
        let r = std::panic::catch_unwind(std::panic::AssertUnwindSafe(|| match bits % 4 {
            0 | 3 => config.parse(&inp.bytes),
            way => {
                let path = std::env::temp_dir().join(format!("wv-cfg-{}-{}-{}-{}.wasm", std::process::id(), absmod::fnv(inp.id.as_bytes()), bits, late as u8 + 2 * strict as u8));
                std::fs::write(&path, &inp.bytes).expect("scratch file");
                let r = if way == 1 { config.parse_file(&path) } else { walrus::Module::from_file_with_config(&path, &config) };
                let _ = std::fs::remove_file(&path);
                r
            }
        }));
        let run = match r {
            Ok(Ok(mut m)) => match run::emit(&mut m, false) {
                Ok(e) => {
                    let om = absmod::project(&e.bytes).unwrap_or_default();
                    // decoded names: function names and local names (the two kinds the synthetic-names switch governs)
                    let names: Vec<Value> = om.names.iter().filter(|n| n.kind == "func" || n.kind == "local").map(|n| json!([n.kind, n.idx, n.sub, n.name])).collect();
                    let nlocals: Vec<u32> = om.funcs.iter().filter(|f| !f.imported).map(|f| f.idx).collect();
                    json!({"flags": flags, "outcome": "ok", "calls": calls.load(Ordering::SeqCst), "sections": section_rows(&e.bytes), "producers": producers_json(&om),
                           "names": names, "localfuncs": nlocals})
                }
                Err(e) => json!({"flags": flags, "outcome": format!("emit-{}", e), "calls": calls.load(Ordering::SeqCst), "sections": [], "producers": [], "names": [], "localfuncs": []}),
            },
            Ok(Err(_)) => json!({"flags": flags, "outcome": "parse-err", "calls": calls.load(Ordering::SeqCst), "sections": [], "producers": [], "names": [], "localfuncs": []}),
            Err(p) => json!({"flags": flags, "outcome": format!("parse-panic:{}", run::short(&run::panic_msg(p))), "calls": calls.load(Ordering::SeqCst), "sections": [], "producers": [], "names": [], "localfuncs": []}),
        };
        runs.push(run);
    }
    json!({"id": inp.id, "source": inp.source, "in_has_dwarf": in_has_dwarf, "in_producers": producers_json(&inm), "runs": runs})
}

// ---- names (C13) ------------------------------------------------------------------------------

fn names_json(m: &AbsModule) -> Vec<Value> {
    m.names.iter().map(|n| json!({"kind": n.kind, "idx": n.idx, "sub": n.sub, "name": n.name})).collect()
}

/// local correspondence of one function, observed by aligning the local operands of surviving operators
fn local_pairs(fin: &absmod::AbsFunc, fout: &absmod::AbsFunc) -> (bool, Vec<(i32, i32)>) {
    let live = absmod::liveness(&fin.ops);
    let a: Vec<i32> = fin.ops.iter().zip(live.iter()).filter(|(o, l)| **l && o.o != "Nop" && o.local >= 0).map(|(o, _)| o.local).collect();
    let b: Vec<i32> = fout.ops.iter().filter(|o| o.local >= 0).map(|o| o.local).collect();
    if a.len() != b.len() {
        return (false, vec![]);
    }
    let mut pairs: Vec<(i32, i32)> = vec![];
    for (x, y) in a.iter().zip(b.iter()) {
        if !pairs.contains(&(*x, *y)) {
            pairs.push((*x, *y));
        }
    }
    // an unused parameter is treated like an unused local: its name may be dropped (DESIGN.md, tolerance principle)
    (true, pairs)
}

pub fn names_case(inp: &Input, cfg: &Cfg, gc_runs: u32) -> Value {
    let rt = run::roundtrip(&inp.bytes, cfg, gc_runs);
    let inm = absmod::project(&inp.bytes).unwrap_or_default();
    let outm = if rt.outcome == "ok" { absmod::project(&rt.out).unwrap_or_default() } else { AbsModule::default() };
    let mut lm = vec![];
    for f in &inm.funcs {
        let fo = rt.sigma.func.get(f.idx as usize).copied().unwrap_or(-1);
        if f.imported || fo < 0 || outm.funcs.get(fo as usize).is_none() {
            lm.push(json!({"known": false, "pairs": []}));
            continue;
        }
        let (known, pairs) = local_pairs(f, &outm.funcs[fo as usize]);
        lm.push(json!({"known": known, "pairs": pairs}));
    }
    json!({
        "id": format!("{}~gc{}{}{}", inp.id, gc_runs, if cfg.synth { "~synth" } else { "" }, if cfg.producers { "" } else { "~noprod" }), "source": inp.source, "outcome": rt.outcome, "synth": cfg.synth,
        "in_names": names_json(&inm), "out_names": names_json(&outm), "out_names_ok": outm.name_section_ok || outm.names.is_empty(),
        "sigma": rt.sigma, "lm": lm, "nparams": inm.funcs.iter().map(|f| f.nparams).collect::<Vec<_>>(),
    })
}

// ---- index maps (C19) -------------------------------------------------------------------------

pub fn maps_case(inp: &Input, gc_runs: u32) -> Value {
    maps_case_cfg(inp, gc_runs, false)
}

/// `xform`: with preserve_code_transform on (the emitter takes another path through the code section then)
pub fn maps_case_cfg(inp: &Input, gc_runs: u32, xform: bool) -> Value {
    maps_case_full(inp, gc_runs, xform, false)
}

/// `edit`: before emission the last imported function is given a body through `replace_imported_func` (the emit-time map is
/// then judged for a Module the API has changed: an import entry removed, a function that changed kind in place)
pub fn maps_case_full(inp: &Input, gc_runs: u32, xform: bool, edit: bool) -> Value {
    use std::sync::{Arc, Mutex};
    let inm = absmod::project(&inp.bytes).map(strip_ops_keep_locals).unwrap_or_default();
    let cap: Arc<Mutex<(Value, Value, Vec<Value>)>> = Arc::new(Mutex::new((Value::Null, Value::Null, vec![])));
    let cap2 = cap.clone();
    let n_funcs = inm.funcs.len();
    let mut config = Cfg { xform, ..Default::default() }.to_config();
    config.on_parse(move |m, ids| {
        let st = strip_ops(crate::apistate::project_state(m));
        macro_rules! cap {
            ($get:ident) => {{
                let mut v = vec![];
                let mut i = 0u32;
                while let Ok(id) = ids.$get(i) {
                    v.push(id.index() as i32);
                    i += 1;
                    if i > 1_000_000 {
                        break;
                    }
                }
                v
            }};
        }
        let i2id = json!({"func": cap!(get_func), "type": cap!(get_type), "table": cap!(get_table), "memory": cap!(get_memory),
                          "global": cap!(get_global), "elem": cap!(get_element), "data": cap!(get_data)});
        let mut locals = vec![];
        for fi in 0..n_funcs as u32 {
            let Ok(fid) = ids.get_func(fi) else { break };
            let mut lids = vec![];
            let mut ltys = vec![];
            let mut li = 0u32;
            while let Ok(l) = ids.get_local(fid, li) {
                lids.push(l.index() as i32);
                ltys.push(crate::apistate::vt(&m.locals.get(l).ty()));
                li += 1;
            }
            let args: Vec<i32> = match &m.funcs.get(fid).kind {
                walrus::FunctionKind::Local(lf) => lf.args.iter().map(|a| a.index() as i32).collect(),
                _ => vec![],
            };
            locals.push(json!({"ids": lids, "types": ltys, "args": args}));
        }
        *cap2.lock().unwrap() = (json!(st), i2id, locals);
        Ok(())
    });
    let r = std::panic::catch_unwind(std::panic::AssertUnwindSafe(|| config.parse(&inp.bytes)));
    let mut module = match r {
        Ok(Ok(m)) => m,
        Ok(Err(e)) => return json!({"id": inp.id, "source": inp.source, "outcome": format!("parse-err:{}", run::short(&format!("{:#}", e)))}),
        Err(p) => return json!({"id": inp.id, "source": inp.source, "outcome": format!("parse-panic:{}", run::short(&run::panic_msg(p)))}),
    };
    if edit {
        let last = module.imports.iter().filter_map(|i| if let walrus::ImportKind::Function(f) = i.kind { Some(f) } else { None }).last();
        if let Some(f) = last {
            let r = std::panic::catch_unwind(std::panic::AssertUnwindSafe(|| {
                module.replace_imported_func(f, |(body, _args)| {
                    body.unreachable();
                })
            }));
            match r {
                Ok(Ok(_)) => {}
                Ok(Err(e)) => return json!({"id": inp.id, "source": inp.source, "outcome": format!("edit-err:{}", run::short(&format!("{:#}", e)))}),
                Err(p) => return json!({"id": inp.id, "source": inp.source, "outcome": format!("edit-panic:{}", run::short(&run::panic_msg(p)))}),
            }
        }
        // imports added through the API come *after* the local entities in the arenas, and first in the index spaces
        let r = std::panic::catch_unwind(std::panic::AssertUnwindSafe(|| {
            module.add_import_memory("env", "wv_mem", false, false, 1, None, None);
            module.add_import_table("env", "wv_tab", false, 1, None, walrus::RefType::Funcref);
            module.add_import_global("env", "wv_glob", walrus::ValType::I32, false, false);
        }));
        if let Err(p) = r {
            return json!({"id": inp.id, "source": inp.source, "outcome": format!("edit-panic:{}", run::short(&run::panic_msg(p)))});
        }
    }
    for _ in 0..gc_runs {
        if let Err(e) = run::gc(&mut module) {
            return json!({"id": inp.id, "source": inp.source, "outcome": format!("gc-{}", e)});
        }
    }
    let st2 = strip_ops(crate::apistate::project_state(&module));
    let em = match run::emit(&mut module, true) {
        Ok(e) => e,
        Err(e) => return json!({"id": inp.id, "source": inp.source, "outcome": format!("emit-{}", e)}),
    };
    let outm = absmod::project(&em.bytes).map(strip_ops).unwrap_or_default();
    // id -> index arrays, one slot per arena id of st2
    let arr = |pairs: &[(i32, i32)], n: usize| -> Vec<i32> {
        let mut v = vec![-1; n];
        for (id, idx) in pairs {
            if (*id as usize) < n {
                v[*id as usize] = *idx;
            }
        }
        v
    };
    let id2idx = json!({
        "func": arr(&em.emit.func, st2.funcs.len()), "type": arr(&em.emit.ty, st2.types.len()), "table": arr(&em.emit.table, st2.tables.len()),
        "memory": arr(&em.emit.memory, st2.memories.len()), "global": arr(&em.emit.global, st2.globals.len()),
        "elem": arr(&em.emit.elem, st2.elems.len()), "data": arr(&em.emit.data, st2.data.len()),
    });
    let (st1, i2id, locals) = cap.lock().unwrap().clone();
    json!({"id": format!("{}~gc{}{}{}", inp.id, gc_runs, if xform { "~xform" } else { "" }, if edit { "~edit" } else { "" }), "source": inp.source, "outcome": "ok", "inm": inm, "st1": st1, "i2id": i2id, "locals": locals,
           "st2": st2, "id2idx": id2idx, "outm": outm})
}

pub fn strip_ops_keep_locals(mut m: AbsModule) -> AbsModule {
    for f in m.funcs.iter_mut() {
        f.ops.clear();
    }
    m
}

// ---- feature escalation (C20) -------------------------------------------------------------------

pub fn feature_sets() -> Vec<(Vec<String>, gen::Feat)> {
    // all post-MVP proposals on, minus every subset of size <= 2
    let names = gen::Feat::names();
    let mut out = vec![(vec![], gen::Feat::all())];
    for a in 0..names.len() {
        let mut f = gen::Feat::all();
        f.set(names[a], false);
        out.push((vec![names[a].to_string()], f));
    }
    for a in 0..names.len() {
        for b in (a + 1)..names.len() {
            let mut f = gen::Feat::all();
            f.set(names[a], false);
            f.set(names[b], false);
            out.push((vec![names[a].to_string(), names[b].to_string()], f));
        }
    }
    out
}

/// greedy minimal feature set under which `bytes` validates (the removal order is fixed)
pub fn minimal_features(bytes: &[u8]) -> gen::Feat {
    let mut f = gen::Feat::all();
    for n in gen::Feat::names() {
        let mut g = f.clone();
        g.set(n, false);
        if absmod::validate_with(bytes, g.to_wasmparser()).is_ok() {
            f = g;
        }
    }
    f
}

pub fn features_case(inp: &Input, gc_runs: u32) -> Value {
    let cfg = Cfg { probe: false, ..Default::default() };
    let rt = run::roundtrip(&inp.bytes, &cfg, gc_runs);
    if rt.outcome != "ok" {
        return json!({"id": inp.id, "source": inp.source, "outcome": rt.outcome, "sets": []});
    }
    let mut sets = vec![];
    for (removed, f) in feature_sets() {
        let wf = f.to_wasmparser();
        let inv = absmod::validate_with(&inp.bytes, wf).is_ok();
        let outv = if inv { absmod::validate_with(&rt.out, wf) } else { Ok(()) };
        sets.push(json!({"removed": removed, "inv": inv, "outv": outv.is_ok(), "why": outv.err().map(|e| run::short(&e)).unwrap_or_default()}));
    }
    let fmin = minimal_features(&inp.bytes);
    let needs: Vec<&str> = gen::Feat::names().into_iter().filter(|n| fmin.get(n)).collect();
    let outv = absmod::validate_with(&rt.out, fmin.to_wasmparser());
    sets.push(json!({"removed": ["<all but the minimal set>"], "inv": true, "outv": outv.is_ok(), "why": outv.err().map(|e| run::short(&e)).unwrap_or_default()}));
    let inm = absmod::project(&inp.bytes).unwrap_or_default();
    let outm = absmod::project(&rt.out).unwrap_or_default();
    // valid once every proposal the independent validator knows is switched on (GC, function references, ... : more than
    // walrus speaks)?
    let out_valid_beyond = absmod::validate_with(&rt.out, wasmparser::WasmFeatures::all()).is_ok();
    json!({"id": format!("{}~gc{}", inp.id, gc_runs), "source": inp.source, "outcome": "ok", "needs": needs, "sets": sets, "out_valid_beyond": out_valid_beyond,
           "in_datacount": inm.datacount >= 0, "out_datacount": outm.datacount >= 0,
           "in_elem_flags": inm.elems.iter().map(|e| e.flag).collect::<Vec<_>>(), "out_elem_flags": outm.elems.iter().map(|e| e.flag).collect::<Vec<_>>(),
           "in_data_flags": inm.data.iter().map(|e| e.flag).collect::<Vec<_>>(), "out_data_flags": outm.data.iter().map(|e| e.flag).collect::<Vec<_>>()})
}

/// Segment offsets in every supported form: {32-bit, 64-bit} memory / table x {constant, global.get of an imported
/// immutable global of the matching type} x {local, imported} target, for data and element segments.
pub fn offset_inputs() -> Vec<Input> {
    use crate::gen::*;
    use crate::optable::T;
    let mut out = vec![];
    for wide in [false, true] {
        for glob in [false, true] {
            for imported in [false, true] {
                for elem in [false, true] {
                  // `exported = false`: nothing refers to the table / memory, so the GC pass removes it, its segment and
                  // (it should) the global that only the segment's offset names
                  for exported in [true, false] {
                    let mut d = Desc::default();
                    d.types.push(Sig { params: vec![], results: vec![] });
                    let oty = if wide { T::I64 } else { T::I32 };
                    // an unrelated import first, so that no index is 0 by accident
                    d.globals.push(GlobalD { ty: T::F32, mutable: false, imported: true, init: None });
                    d.imports.push(Imp { module: "env".into(), field: "pad".into(), kind: ImpKind::Global(0) });
                    d.globals.push(GlobalD { ty: oty, mutable: false, imported: true, init: None });
                    d.imports.push(Imp { module: "env".into(), field: "__base".into(), kind: ImpKind::Global(1) });
                    d.funcs.push(FuncD { ty: 0, imported: false });
                    d.bodies.push(BodyD { locals: vec![], instrs: vec![wasm_encoder::Instruction::End] });
                    d.exports.push(ExportD { name: "f".into(), kind: wasm_encoder::ExportKind::Func, idx: 0 });
                    let offset = if glob { Expr::Global(1) } else if wide { Expr::I64(3) } else { Expr::I32(3) };
                    if elem {
                        d.tables.push(TableD { ety: T::FuncRef, min: 8, max: None, t64: wide, imported });
                        if imported {
                            d.imports.push(Imp { module: "env".into(), field: "tab".into(), kind: ImpKind::Table(0) });
                        }
                        if exported {
                            d.exports.push(ExportD { name: "t".into(), kind: wasm_encoder::ExportKind::Table, idx: 0 });
                        }
                        d.elems.push(ElemD { mode: ElemMode::Active { table: 0, offset, explicit_table: false }, ety: T::FuncRef, funcs_form: true, items: vec![Expr::Func(0)] });
                    } else {
                        d.mems.push(MemD { min: 1, max: None, m64: wide, shared: false, imported });
                        if imported {
                            d.imports.push(Imp { module: "env".into(), field: "mem".into(), kind: ImpKind::Mem(0) });
                        }
                        if exported {
                            d.exports.push(ExportD { name: "m".into(), kind: wasm_encoder::ExportKind::Memory, idx: 0 });
                        }
                        d.data.push(DataD { mode: DataMode::Active { mem: 0, offset }, bytes: b"hello".to_vec() });
                    }
                    let tag = format!("{}{}{}{}{}", if wide { "w" } else { "n" }, if glob { "g" } else { "c" }, if imported { "i" } else { "l" }, if elem { "e" } else { "d" }, if exported { "x" } else { "u" });
                    out.push(Input { id: format!("offsets-{}", tag), bytes: d.encode(), source: format!("offsets:{}", tag) });
                  }
                }
            }
        }
    }
    out.retain(|i| absmod::validate(&i.bytes).is_ok());
    out
}

/// modules that carry DWARF (C14): small generated modules with synthesized line tables and subprograms, and modules
/// without any code that carry a minimal compile unit
pub fn dwarfed_inputs(seed: u64, n: u64) -> Vec<Input> {
    let mut out = vec![];
    let o = profile_opts("small");
    for k in 0..n {
        let (g, _) = gen::gen_valid(seed.wrapping_mul(31).wrapping_add(k), &o);
        let version = if k % 2 == 0 { 4 } else { 5 };
        if let Some(b) = crate::dwarf::attach(&g.bytes, crate::dwarf::DwarfOpts { version, spanning: false, nested: k % 4 >= 2 }) {
            out.push(Input { id: format!("dwarfed-{}", k), bytes: b, source: format!("dwarf:gen:{}:{}:v{}", seed, k, version) });
        }
    }
    // no code section at all
    for (k, wat) in ["(module (memory 1) (data (i32.const 0) \"abc\"))", "(module (import \"env\" \"f\" (func)) (export \"g\" (func 0)))", "(module (table 2 funcref) (global (export \"x\") i32 (i32.const 7)))"].iter().enumerate() {
        let bytes = wat::parse_str(wat).unwrap();
        for version in [4u16, 5] {
            out.push(Input { id: format!("dwarfed-nocode-{}-v{}", k, version), bytes: crate::dwarf::attach_minimal(&bytes, version), source: format!("dwarf:nocode:{}:v{}", k, version) });
        }
    }
    out
}

/// Code entries whose body size sits on and around the LEB128 length boundaries (127/128/129 and 16383/16384/16385
/// bytes), built from instructions walrus neither drops nor resizes, so the emitted bodies have the same sizes; the
/// boundary function is first, last, or between two others, with an if/else inside so that inserted positions exist.
pub fn body_size_inputs(big: bool) -> Vec<Input> {
    use crate::gen::*;
    use wasm_encoder::Instruction as I;
    let mut out = vec![];
    // body size = 1 (locals count) + payload + 1 (end); payload pieces: const;drop of 3, 4 and 5 bytes
    let payload = |n: usize| -> Vec<I<'static>> {
        let mut v = vec![];
        let mut left = n;
        // an if/else with an empty else first (10 bytes: i32.const 1; if; i32.const 2; drop; else; end)
        if left >= 12 {
            v.extend([I::I32Const(1), I::If(wasm_encoder::BlockType::Empty), I::I32Const(2), I::Drop, I::Else, I::End]);
            left -= 9;
        }
        while left > 0 {
            match left {
                4 | 8 => {
                    v.extend([I::I32Const(64), I::Drop]);
                    left -= 4;
                }
                5 => {
                    v.extend([I::I32Const(8192), I::Drop]);
                    left -= 5;
                }
                1 | 2 => panic!("unreachable size"),
                _ => {
                    v.extend([I::I32Const(0), I::Drop]);
                    left -= 3;
                }
            }
        }
        v
    };
    let sizes: &[usize] = if big { &[16383, 16384, 16385] } else { &[126, 127, 128, 129, 130] };
    for &size in sizes {
        for pos in 0..3 {
            let mut d = Desc::default();
            d.types.push(Sig { params: vec![], results: vec![] });
            let sizes: Vec<usize> = match pos {
                0 => vec![size, 20, 40],
                1 => vec![20, size, 40],
                _ => vec![40, 20, size],
            };
            for (k, sz) in sizes.iter().enumerate() {
                d.funcs.push(FuncD { ty: 0, imported: false });
                let mut ins = payload(sz - 2);
                ins.push(I::End);
                d.bodies.push(BodyD { locals: vec![], instrs: ins });
                d.exports.push(ExportD { name: format!("f{}", k), kind: wasm_encoder::ExportKind::Func, idx: k as u32 });
            }
            out.push(Input { id: format!("bodysize-{}-{}", size, pos), bytes: d.encode(), source: format!("bodysizes:{}:{}", size, pos) });
        }
    }
    // the local-declaration prefix of a body: one run of 127 / 128 / 200 used locals of one type (the run count grows to a
    // two-byte LEB), next to a few of another type, in the first or the last function
    if !big {
        use crate::optable::T;
        for &n in &[127usize, 128, 200] {
            for pos in 0..2 {
                let mut d = Desc::default();
                d.types.push(Sig { params: vec![], results: vec![] });
                for k in 0..2 {
                    d.funcs.push(FuncD { ty: 0, imported: false });
                    let mut locals = vec![];
                    let mut ins = vec![];
                    if k == pos {
                        locals.extend(std::iter::repeat(T::I32).take(n));
                        locals.extend([T::I64, T::I64]);
                        for l in 0..n {
                            ins.extend([I::I32Const(l as i32), I::LocalSet(l as u32)]);
                        }
                        ins.extend([I::I64Const(5), I::LocalSet(n as u32 + 1), I::LocalGet(3), I::Drop]);
                    } else {
                        locals.push(T::I32);
                        ins.extend([I::I32Const(1), I::LocalSet(0), I::Nop]);
                    }
                    ins.push(I::End);
                    d.bodies.push(BodyD { locals, instrs: ins });
                    d.exports.push(ExportD { name: format!("f{}", k), kind: wasm_encoder::ExportKind::Func, idx: k as u32 });
                }
                out.push(Input { id: format!("manylocals-{}-{}", n, pos), bytes: d.encode(), source: format!("bodysizes:locals:{}:{}", n, pos) });
            }
        }
    }
    out
}

/// modules without a code section (data-only, import-only shims, declarations only, the empty module)
/// unknown custom sections whose *name* is encoded unusually: 127 / 128 / 300 bytes long (the length prefix grows to two
/// bytes), or short with a padded (non-minimal) length prefix; before, between and after the known sections
pub fn custom_name_inputs() -> Vec<Input> {
    fn leb(mut v: u32, pad_to: usize) -> Vec<u8> {
        let mut out = vec![];
        loop {
            let b = (v & 0x7f) as u8;
            v >>= 7;
            if v == 0 && out.len() + 1 >= pad_to {
                out.push(b);
                return out;
            }
            out.push(b | 0x80);
        }
    }
    fn custom(name: &[u8], name_len_bytes: usize, payload: &[u8]) -> Vec<u8> {
        let mut body = leb(name.len() as u32, name_len_bytes);
        body.extend_from_slice(name);
        body.extend_from_slice(payload);
        let mut out = vec![0u8];
        out.extend(leb(body.len() as u32, 1));
        out.extend(body);
        out
    }
    let mut out = vec![];
    for (bk, wat_src) in ["(module (func (export \"f\") (result i32) i32.const 7))", "(module (memory (export \"m\") 1))"].iter().enumerate() {
    let base = wat::parse_str(wat_src).unwrap();
    // header | type | function | export | code     (or, without code: header | memory | export)
    let mut secs: Vec<Vec<u8>> = vec![];
    let mut i = 8;
    while i < base.len() {
        let start = i;
        i += 1;
        let mut len = 0usize;
        let mut shift = 0;
        loop {
            let b = base[i];
            i += 1;
            len |= ((b & 0x7f) as usize) << shift;
            shift += 7;
            if b & 0x80 == 0 {
                break;
            }
        }
        i += len;
        secs.push(base[start..i].to_vec());
    }
    let long = |n: usize| -> Vec<u8> { (0..n).map(|k| b'a' + (k % 26) as u8).collect() };
    let shapes: Vec<(&str, Vec<u8>, usize)> = vec![
        ("n127", long(127), 1), ("n128", long(128), 1), ("n300", long(300), 1),
        ("pad2", b"padded".to_vec(), 2), ("pad5", b"p5".to_vec(), 5), ("pad2-empty", vec![], 2),
    ];
    for (tag, name, nlb) in &shapes {
        for at in [0usize, 2, secs.len()] {
            let mut b = base[..8].to_vec();
            for (k, s) in secs.iter().enumerate() {
                if k == at {
                    b.extend(custom(name, *nlb, b"payload"));
                    b.extend(custom(b"plain", 1, b"x"));
                }
                b.extend_from_slice(s);
            }
            if at == secs.len() {
                b.extend(custom(name, *nlb, b"payload"));
                b.extend(custom(name, *nlb, b""));
            }
            let t = if bk == 0 { tag.to_string() } else { format!("nocode-{}", tag) };
            out.push(Input { id: format!("customname-{}-{}", t, at), bytes: b, source: format!("customname:{}:{}", t, at) });
        }
    }
    }
    out
}

/// modules that only the validator's end-of-module check rejects: a function section without a code section, a data count
/// that the data section does not honour
pub fn end_check_inputs() -> Vec<Input> {
    use wasm_encoder as we;
    let mut out = vec![];
    let mut m = we::Module::new();
    let mut t = we::TypeSection::new();
    t.function([], []);
    m.section(&t);
    let mut f = we::FunctionSection::new();
    f.function(0);
    m.section(&f);
    out.push(("nocode", m.finish()));
    for (tag, count, segs) in [("count2-data1", 2u32, 1usize), ("count0-data1", 0, 1), ("count1-nodata", 1, 0)] {
        let mut m = we::Module::new();
        let mut mem = we::MemorySection::new();
        mem.memory(we::MemoryType { minimum: 1, maximum: None, memory64: false, shared: false, page_size_log2: None });
        m.section(&mem);
        m.section(&we::DataCountSection { count });
        if segs > 0 {
            let mut d = we::DataSection::new();
            for _ in 0..segs {
                d.passive([1u8, 2, 3]);
            }
            m.section(&d);
        }
        out.push((tag, m.finish()));
    }
    out.into_iter().map(|(tag, bytes)| Input { id: format!("endcheck-{}", tag), bytes, source: format!("endcheck:{}", tag) }).collect()
}

pub fn nocode_inputs() -> Vec<Input> {
    let wats = [
        "(module (memory 1) (data (i32.const 0) \"abc\"))",
        // the largest 32-bit limits (65536 pages = 4 GiB), as a maximum and as both bounds
        "(module (memory 1 65536))",
        "(module (memory (export \"m\") 65536 65536))",
        "(module (import \"env\" \"m\" (memory 2 65536)))",
        "(module (import \"env\" \"f\" (func)) (memory 1) (data (i32.const 8) \"x\") (export \"g\" (func 0)))",
        "(module (table 2 funcref) (global (export \"x\") i32 (i32.const 7)))",
        "(module (import \"env\" \"m\" (memory 1)) (data (i32.const 0) \"hello\") (data (i32.const 16) \"\"))",
        "(module (import \"env\" \"t\" (table 4 funcref)) (import \"env\" \"f\" (func)) (elem (i32.const 1) func 0))",
        "(module)",
    ];
    wats.iter().enumerate().map(|(k, w)| Input { id: format!("nocode-{}", k), bytes: wat::parse_str(w).unwrap(), source: format!("nocode:{}", k) }).collect()
}

/// single-memory modules that use the *encodings* of the multi-memory / memory64 proposals although they need neither:
/// a memarg with the memory-index flag and index 0, a memory index as a padded LEB, a memarg offset in more than five
/// LEB bytes.  Valid with those proposals on, invalid with only_stable_features.
pub fn noncanonical_inputs() -> Vec<Input> {
    use wasm_encoder as we;
    let bodies: [(&str, Vec<u8>); 4] = [
        // i32.const 0 ; i32.load align=2 with flag bit 6, memory 0, offset 0 ; drop
        ("memarg-explicit-memory-0", vec![0x41, 0x00, 0x28, 0x42, 0x00, 0x00, 0x1a]),
        // memory.size with the index as a two-byte LEB zero ; drop
        ("memory-index-padded-leb", vec![0x3f, 0x80, 0x00, 0x1a]),
        // i32.const 0 ; i32.load align=2 offset=0 written in six LEB bytes ; drop
        ("memarg-offset-six-leb-bytes", vec![0x41, 0x00, 0x28, 0x02, 0x80, 0x80, 0x80, 0x80, 0x80, 0x00, 0x1a]),
        // control: the canonical forms
        ("canonical", vec![0x41, 0x00, 0x28, 0x02, 0x00, 0x1a, 0x3f, 0x00, 0x1a]),
    ];
    bodies
        .iter()
        .map(|(tag, raw)| {
            let mut m = we::Module::new();
            let mut t = we::TypeSection::new();
            t.function([], []);
            m.section(&t);
            let mut f = we::FunctionSection::new();
            f.function(0);
            m.section(&f);
            let mut mem = we::MemorySection::new();
            mem.memory(we::MemoryType { minimum: 1, maximum: None, memory64: false, shared: false, page_size_log2: None });
            m.section(&mem);
            let mut e = we::ExportSection::new();
            e.export("f", we::ExportKind::Func, 0);
            m.section(&e);
            let mut c = we::CodeSection::new();
            let mut body = we::Function::new([]);
            body.raw(raw.iter().copied());
            body.instruction(&we::Instruction::End);
            c.function(&body);
            m.section(&c);
            Input { id: format!("noncanon-{}", tag), bytes: m.finish(), source: format!("noncanon:{}", tag) }
        })
        .collect()
}

/// function bodies with bytes after the `end` that closes the function (the size field covers them): always invalid
pub fn trailing_operator_inputs() -> Vec<Input> {
    use wasm_encoder as we;
    let tails: [(&str, Vec<u8>); 8] = [
        ("end-nop", vec![0x0b, 0x01]),
        ("end-const-drop-end", vec![0x0b, 0x41, 0x00, 0x1a, 0x0b]),
        ("end-end", vec![0x0b, 0x0b]),
        ("end-unreachable-end", vec![0x0b, 0x00, 0x0b]),
        ("end-return-end", vec![0x0b, 0x0f, 0x0b]),
        ("end-br0-end", vec![0x0b, 0x0c, 0x00, 0x0b]),
        ("nop-end-ff", vec![0x01, 0x0b, 0xff]),
        ("nop-end-truncated-const", vec![0x01, 0x0b, 0x41]),
    ];
    tails
        .iter()
        .map(|(tag, raw)| {
            let mut m = we::Module::new();
            let mut t = we::TypeSection::new();
            t.function([], []);
            m.section(&t);
            let mut f = we::FunctionSection::new();
            f.function(0);
            m.section(&f);
            let mut c = we::CodeSection::new();
            let mut body = we::Function::new([]);
            body.raw(raw.iter().copied());
            c.function(&body);
            m.section(&c);
            Input { id: format!("trailing-{}", tag), bytes: m.finish(), source: format!("trailing:{}", tag) }
        })
        .collect()
}

/// modules whose name section cannot be fully applied (a locals subsection for a function that does not exist -- a
/// known quirk of some producers -- and a truncated section): walrus warns and carries on
pub fn bad_name_inputs() -> Vec<Input> {
    use wasm_encoder as we;
    let base = |tail: &dyn Fn(&mut we::Module)| -> Vec<u8> {
        let mut m = we::Module::new();
        let mut t = we::TypeSection::new();
        t.function([we::ValType::I32], []);
        m.section(&t);
        let mut f = we::FunctionSection::new();
        f.function(0);
        m.section(&f);
        let mut e = we::ExportSection::new();
        e.export("f", we::ExportKind::Func, 0);
        m.section(&e);
        let mut c = we::CodeSection::new();
        let mut body = we::Function::new([(1, we::ValType::I32)]);
        body.instruction(&we::Instruction::LocalGet(0));
        body.instruction(&we::Instruction::LocalSet(1));
        body.instruction(&we::Instruction::End);
        c.function(&body);
        m.section(&c);
        tail(&mut m);
        m.finish()
    };
    let dangling = base(&|m| {
        let mut n = we::NameSection::new();
        let mut fnames = we::NameMap::new();
        fnames.append(0, "named");
        n.functions(&fnames);
        let mut locals = we::IndirectNameMap::new();
        let mut l0 = we::NameMap::new();
        l0.append(0, "x");
        locals.append(0, &l0);
        let mut l99 = we::NameMap::new();
        l99.append(0, "ghost");
        locals.append(99, &l99);
        n.locals(&locals);
        m.section(&n);
    });
    let truncated = base(&|m| {
        // a function-names subsection that announces two entries and holds one
        m.section(&we::CustomSection { name: "name".into(), data: (&[1u8, 6, 2, 0, 3, b'a', b'b', b'c'][..]).into() });
    });
    let mut v = vec![
        Input { id: "badnames-dangling-locals".into(), bytes: dangling, source: "badnames:dangling-locals".into() },
        Input { id: "badnames-truncated".into(), bytes: truncated, source: "badnames:truncated".into() },
    ];
    // the same for the other custom sections walrus interprets: a payload it cannot read is no reason to refuse the module
    for (tag, name, data) in [
        ("producers-empty", "producers", vec![]),
        ("producers-truncated-count", "producers", vec![0x80u8]),
        ("producers-overlong-count", "producers", vec![0xff, 0xff, 0xff, 0xff, 0xff, 0x01]),
        ("producers-field-cut", "producers", vec![1, 8, b'l', b'a', b'n', b'g', b'u', b'a', b'g', b'e', 2, 1, b'x']),
        ("name-empty", "name", vec![]),
        ("name-garbage", "name", vec![9, 200, 1, 2, 3]),
        ("debug-info-garbage", ".debug_info", vec![1, 2, 3, 4, 5]),
    ] {
        let bytes = base(&|m| {
            m.section(&we::CustomSection { name: name.into(), data: data.as_slice().into() });
        });
        v.push(Input { id: format!("badnames-{}", tag), bytes, source: format!("badnames:{}", tag) });
    }
    v
}

/// `ref.func $f` where `$f` is declared by nothing but its export (valid: an export is a declaration)
pub fn ref_func_export_inputs() -> Vec<Input> {
    let wats = [
        "(module (func $f (export \"f\")) (func (export \"g\") ref.func $f drop))",
        "(module (func $f (export \"f\") (param i32) (result i32) local.get 0) (func $h) (func (export \"g\") ref.func $f drop call $h))",
        // a function declared by an unreferenced passive segment only: the GC pass sweeps the segment (the recorded finding)
        "(module (func $f) (func (export \"g\") ref.func $f drop) (func (export \"h\")) (elem func $f))",
    ];
    wats.iter().enumerate().map(|(k, w)| Input { id: format!("reffuncexp-{}", k), bytes: wat::parse_str(w).unwrap(), source: format!("reffuncexp:{}", k) }).collect()
}

/// one module per post-MVP proposal that needs exactly (or at least) that proposal, plus MVP modules
pub fn proposal_inputs(seed: u64, per: u64) -> Vec<Input> {
    let mut out = vec![];
    for name in gen::Feat::names() {
        let mut o = GenOpts::default();
        o.feat = gen::Feat::mvp();
        o.feat.set(name, true);
        if name == "relaxed_simd" {
            o.feat.simd = true;
        }
        out.extend(generated_inputs(seed ^ 0x5eed, per, &o, &format!("only-{}", name)));
    }
    out
}

/// Facts about the independent validator, discovered by probing: which proposals each binary encoding needs.
/// Written as a TLA+ module (spec/FeatureFacts.tla) that Features.tla extends.
pub fn feature_facts() -> String {
    use wasm_encoder as we;
    let base = |elem: Option<Vec<u8>>, data: Option<Vec<u8>>, datacount: bool, two_tables: bool, externref_table: bool, body: Vec<we::Instruction<'static>>| -> Vec<u8> {
        let mut m = we::Module::new();
        let mut t = we::TypeSection::new();
        t.function([], []);
        if body.iter().any(|i| matches!(i, we::Instruction::Block(we::BlockType::FunctionType(1)))) {
            t.function([], [we::ValType::I32, we::ValType::I32]);
        }
        m.section(&t);
        let mut f = we::FunctionSection::new();
        f.function(0);
        m.section(&f);
        let mut tb = we::TableSection::new();
        tb.table(we::TableType { element_type: we::RefType::FUNCREF, table64: false, minimum: 1, maximum: None, shared: false });
        if two_tables {
            tb.table(we::TableType { element_type: if externref_table { we::RefType::EXTERNREF } else { we::RefType::FUNCREF }, table64: false, minimum: 1, maximum: None, shared: false });
        }
        m.section(&tb);
        let mut mem = we::MemorySection::new();
        mem.memory(we::MemoryType { minimum: 1, maximum: None, memory64: false, shared: false, page_size_log2: None });
        m.section(&mem);
        if let Some(e) = elem {
            let mut payload = vec![1u8];
            payload.extend(e);
            m.section(&we::RawSection { id: 9, data: &payload });
        }
        if datacount {
            m.section(&we::DataCountSection { count: if data.is_some() { 1 } else { 0 } });
        }
        let mut c = we::CodeSection::new();
        let mut func = we::Function::new([]);
        for i in &body {
            func.instruction(i);
        }
        func.instruction(&we::Instruction::End);
        c.function(&func);
        m.section(&c);
        if let Some(d) = data {
            let mut payload = vec![1u8];
            payload.extend(d);
            m.section(&we::RawSection { id: 11, data: &payload });
        }
        m.finish()
    };
    let needs = |bytes: &[u8]| -> String {
        if absmod::validate(bytes).is_err() {
            return "{\"INVALID\"}".to_string();
        }
        let f = minimal_features(bytes);
        let v: Vec<String> = gen::Feat::names().into_iter().filter(|n| f.get(n)).map(|n| format!("\"{}\"", n)).collect();
        format!("{{{}}}", v.join(", "))
    };
    let off = [0x41u8, 0x00, 0x0b];
    let fidx = [0x01u8, 0x00];
    let fexpr = [0x01u8, 0xd2, 0x00, 0x0b];
    let cat = |parts: &[&[u8]]| -> Vec<u8> { parts.iter().flat_map(|p| p.iter().copied()).collect() };
    let elem_flags: Vec<Vec<u8>> = vec![
        cat(&[&[0], &off, &fidx]),
        cat(&[&[1, 0], &fidx]),
        cat(&[&[2, 0], &off, &[0], &fidx]),
        cat(&[&[3, 0], &fidx]),
        cat(&[&[4], &off, &fexpr]),
        cat(&[&[5, 0x70], &fexpr]),
        cat(&[&[6, 0], &off, &[0x70], &fexpr]),
        cat(&[&[7, 0x70], &fexpr]),
    ];
    let mut out = String::new();
    out.push_str("---------------------------- MODULE FeatureFacts ----------------------------\n");
    out.push_str("(* GENERATED by `wv feature-facts`: the proposals that wasmparser's validator requires for each\n");
    out.push_str("   binary encoding, found by switching proposals off one at a time (greedy minimisation). *)\n");
    out.push_str("NeedsElemFlag(flag) ==\n  CASE ");
    let rows: Vec<String> = elem_flags.iter().enumerate().map(|(k, e)| format!("flag = {} -> {}", k, needs(&base(Some(e.clone()), None, false, false, false, vec![])))).collect();
    out.push_str(&rows.join("\n    [] "));
    out.push_str("\nNeedsDataFlag(flag) ==\n  CASE ");
    let data_flags: Vec<Vec<u8>> = vec![cat(&[&[0], &off, &[1, 7]]), vec![1, 1, 7], cat(&[&[2, 0], &off, &[1, 7]])];
    let rows: Vec<String> = data_flags.iter().enumerate().map(|(k, d)| format!("flag = {} -> {}", k, needs(&base(None, Some(d.clone()), false, false, false, vec![])))).collect();
    out.push_str(&rows.join("\n    [] "));
    out.push_str(&format!("\nNeedsDataCount == {}\n", needs(&base(None, Some(data_flags[0].clone()), true, false, false, vec![]))));
    use we::Instruction as I;
    let bt = |b: we::BlockType| needs(&base(None, None, false, false, false, vec![I::Block(b), I::End]));
    out.push_str(&format!("NeedsBlockEmpty == {}\n", bt(we::BlockType::Empty)));
    out.push_str(&format!("NeedsBlockFuncTypeSimple == {}\n", bt(we::BlockType::FunctionType(0))));
    out.push_str(&format!("NeedsBlockResult == {}\n", needs(&base(None, None, false, false, false, vec![I::Block(we::BlockType::Result(we::ValType::I32)), I::I32Const(0), I::End, I::Drop]))));
    out.push_str(&format!("NeedsBlockMulti == {}\n", needs(&base(None, None, false, false, false, vec![I::Block(we::BlockType::FunctionType(1)), I::I32Const(0), I::I32Const(0), I::End, I::Drop, I::Drop]))));
    out.push_str(&format!("NeedsCallIndirectTable0 == {}\n", needs(&base(None, None, false, false, false, vec![I::I32Const(0), I::CallIndirect { type_index: 0, table_index: 0 }]))));
    out.push_str(&format!("NeedsCallIndirectTable1 == {}\n", needs(&base(None, None, false, true, false, vec![I::I32Const(0), I::CallIndirect { type_index: 0, table_index: 1 }]))));
    out.push_str("=============================================================================\n");
    out
}

// ---- edits (C18, C02) -------------------------------------------------------------------------

pub fn edit_init(inp: &Input) -> Option<Value> {
    let cfg = Cfg { probe: false, ..Default::default() };
    let p = run::parse(&inp.bytes, &cfg).ok()?;
    let mut high = crate::edits::High::default();
    Some(json!({"id": inp.id, "source": inp.source, "state": crate::edits::slim_state(&p.module, &mut high), "rf": crate::edits::ref_func_targets(&p.module)}))
}

/// replay one TLC-generated edit script on the real module; snapshot after every call; then emit (and gc;emit)
pub fn edits_case(inp: &Input, script: &[Value], tag: &str) -> Value {
    let cfg = Cfg { probe: false, ..Default::default() };
    let mut events = vec![];
    let mut init = Value::Null;
    for gc in [false, true] {
        // the second run (edits, then the pass, then emission) has DWARF generation switched on: replacement functions have no
        // place in the original code section, and the debug emitter must cope with that
        let cfg = Cfg { dwarf: gc, ..cfg.clone() };
        let Ok(p) = run::parse(&inp.bytes, &cfg) else { return json!({"id": inp.id, "source": inp.source, "init": Value::Null, "events": [{"op": "parse-failed"}]}) };
        let mut m = p.module;
        let mut high = crate::edits::High::default();
        let st0 = crate::edits::slim_state(&m, &mut high);
        if !gc {
            init = st0;
        }
        for e in script {
            let ret = crate::edits::apply(&mut m, e);
            if !gc {
                let mut ev = e.clone();
                ev["ret"] = ret;
                ev["state"] = crate::edits::slim_state(&m, &mut high);
                events.push(ev);
            }
        }
        if gc {
            if let Err(e) = run::gc(&mut m) {
                events.push(json!({"op": "emit", "gc": true, "outcome": format!("gc-{}", e), "out_valid": false, "out_error": "", "decl_only_passive": [], "plain_dop": [], "repl_undeclared": []}));
                continue;
            }
        }
        match run::emit(&mut m, false) {
            Ok(e) => {
                let v = absmod::validate(&e.bytes);
                // diagnosis aid for the known GC finding: computed on the module emitted *without* the pass
                let dop = if gc { events.iter().rev().find(|x| x["op"] == "emit").map(|x| x["plain_dop"].clone()).unwrap_or(json!([])) } else { json!([]) };
                let plain_dop = if !gc { absmod::project(&e.bytes).map(|m| declared_only_by_passive(&m)).unwrap_or_default() } else { vec![] };
                // diagnosis aid for the known replace_exported_func finding: functions whose export was retargeted by the
                // script and that a body still names by ref.func while nothing declares them any more
                let replaced: Vec<usize> = script.iter().filter(|e| e["op"] == "replace_exported").filter_map(|e| e["id"].as_u64().map(|x| x as usize)).collect();
                let repl_undeclared: Vec<usize> = crate::edits::undeclared_ref_funcs(&m).into_iter().filter(|f| replaced.contains(f)).collect();
                events.push(json!({"op": "emit", "gc": gc, "outcome": "ok", "out_valid": v.is_ok(), "out_error": run::short(&v.err().unwrap_or_default()), "decl_only_passive": dop, "plain_dop": plain_dop,
                                   "repl_undeclared": repl_undeclared}));
            }
            Err(e) => events.push(json!({"op": "emit", "gc": gc, "outcome": format!("emit-{}", e), "out_valid": false, "out_error": "", "decl_only_passive": [], "plain_dop": [], "repl_undeclared": []})),
        }
    }
    json!({"id": format!("{}~{}", inp.id, tag), "source": inp.source, "init": init, "events": events})
}

// ---- validity (C02) ---------------------------------------------------------------------------

pub fn valid_cases(inp: &Input) -> Vec<Value> {
    let in_valid = absmod::validate(&inp.bytes).is_ok();
    let dop = absmod::project(&inp.bytes).map(|m| declared_only_by_passive(&m)).unwrap_or_default();
    let mut out = vec![];
    for gc in [0u32, 1] {
        for bits in 0..4u32 {
            let cfg = Cfg { names: bits & 1 == 0, producers: bits & 2 == 0, probe: false, ..Default::default() };
            let rt = run::roundtrip(&inp.bytes, &cfg, gc);
            let v = if rt.outcome == "ok" { absmod::validate(&rt.out) } else { Ok(()) };
            out.push(json!({"id": format!("{}~gc{}~c{}", inp.id, gc, bits), "source": inp.source, "in_valid": in_valid, "pass": if gc == 1 { "gc" } else { "none" },
                "cfg": format!("names={} producers={}", cfg.names, cfg.producers), "outcome": rt.outcome, "out_valid": rt.outcome == "ok" && v.is_ok(),
                "out_error": run::short(&v.err().unwrap_or_default()), "decl_only_passive": if gc == 1 { dop.clone() } else { vec![] }}));
        }
    }
    out
}

/// evenly spaced sample of at most n inputs
pub fn sample(inputs: Vec<Input>, n: usize) -> Vec<Input> {
    // only the (large) TLC-enumerated families are thinned out; every other source is kept whole
    if n == 0 {
        return inputs;
    }
    let (fam, rest): (Vec<Input>, Vec<Input>) = inputs.into_iter().partition(|i| i.source.starts_with("fam:"));
    let mut out = rest;
    if fam.len() <= n {
        out.extend(fam);
    } else {
        let step = fam.len() as f64 / n as f64;
        out.extend((0..n).map(|k| fam[(k as f64 * step) as usize].clone()));
    }
    out
}

// ---- parallel vs serial (C09) -------------------------------------------------------------------

/// many-function modules (equal and unequal sizes); a third of them with two corrupted function bodies, so that
/// the error that is reported depends on which failing job the post-pass sees first
pub fn parallel_inputs(seed: u64, n: u64) -> Vec<Input> {
    use rand::Rng;
    let mut out = vec![];
    for k in 0..n {
        let s = seed.wrapping_mul(7_000_003).wrapping_add(k);
        let mut o = profile_opts("many");
        // a spread of function counts: 1, 2, ..., a few hundred, and past the sizes at which a thread pool starts to
        // split the work unevenly
        o.max_funcs = [1usize, 2, 3, 5, 17, 64, 127, 128, 129, 300, 513, 1026][(k % 12) as usize];
        let mut r = gen::rng(s);
        if k % 4 == 0 {
            o.fuel = 0; // equal (minimal) sizes
        }
        let (mut g, _) = gen::gen_valid(s, &o);
        if o.max_funcs > 500 {
            // really that many: try a few seeds until the module has more than 512 local functions
            for extra in 1..40u64 {
                let n = absmod::project(&g.bytes).map(|m| m.funcs.iter().filter(|f| !f.imported).count()).unwrap_or(0);
                if n > 512 && n % 2 == 1 || n > 600 {
                    break;
                }
                g = gen::gen_valid(s.wrapping_add(extra * 1_000_003), &o).0;
            }
        }
        let mut bytes = g.bytes;
        let mut tag = "valid";
        if k % 3 == 2 {
            // corrupt the last `end` of two different bodies
            let mut ranges = vec![];
            for p in wasmparser::Parser::new(0).parse_all(&bytes) {
                if let Ok(wasmparser::Payload::CodeSectionEntry(b)) = p {
                    ranges.push(b.range());
                }
            }
            if ranges.len() >= 2 {
                let a = r.gen_range(0..ranges.len());
                let mut b = r.gen_range(0..ranges.len());
                if b == a {
                    b = (a + 1) % ranges.len();
                }
                for (x, newop) in [(a, 0x1au8), (b, 0x00u8)] {
                    let end = ranges[x].end - 1;
                    if bytes[end] == 0x0b {
                        bytes[end] = newop;
                    }
                }
                tag = "two-bad-bodies";
            }
        }
        if k % 2 == 1 && tag == "valid" {
            // many unknown custom sections behind the module: their order in the output is part of what must not depend on
            // the schedule
            for c in 0..48u32 {
                let name = format!("pc{}", c);
                let payload: Vec<u8> = (0..(c % 7 + 1)).map(|x| (x + c) as u8).collect();
                let mut body = vec![name.len() as u8];
                body.extend_from_slice(name.as_bytes());
                body.extend_from_slice(&payload);
                bytes.push(0);
                bytes.push(body.len() as u8);
                bytes.extend(body);
            }
            tag = "valid-customs";
        }
        out.push(Input { id: format!("par-{}-{}", k, tag), bytes, source: format!("par:{}:{}:{}", seed, k, tag) });
    }
    out
}

/// what one build (serial or parallel) does with an input: decision, digest, and the order in which the
/// per-function jobs were started (hook events)
pub fn par_case(inp: &Input) -> Value {
    let cfg = Cfg { probe: false, ..Default::default() };
    #[cfg(walrus_verif)]
    walrus::verif::enable(true);
    let rt = run::roundtrip(&inp.bytes, &cfg, 0);
    #[cfg(walrus_verif)]
    let (pj, ej, threads): (Vec<i64>, Vec<i64>, usize) = {
        walrus::verif::enable(false);
        let ev = walrus::verif::drain();
        let mut t = std::collections::BTreeSet::new();
        let mut pj = vec![];
        let mut ej = vec![];
        for e in ev.iter().filter(|e| e.name == "job") {
            t.insert(e.thread);
            if e.detail == "parse" {
                pj.push(e.num)
            } else {
                ej.push(e.num)
            }
        }
        (pj, ej, t.len())
    };
    #[cfg(not(walrus_verif))]
    let (pj, ej, threads): (Vec<i64>, Vec<i64>, usize) = (vec![], vec![], 0);
    // a second run with everything a schedule could disturb beyond the code bytes: the code transform and the index map
    // handed to custom sections, and the DWARF sections rewritten from them (synthesized line rows for every instruction)
    let cfg2 = Cfg { probe: true, xform: true, dwarf: true, ..Default::default() };
    let with_dwarf = crate::dwarf::attach(&inp.bytes, crate::dwarf::DwarfOpts { version: 4, spanning: false, nested: inp.bytes.len() % 2 == 0 }).unwrap_or_else(|| inp.bytes.clone());
    let rt2 = run::roundtrip(&with_dwarf, &cfg2, 0);
    let d2 = if rt2.outcome == "ok" {
        format!("{}/{}/{}", absmod::fnv(&rt2.out), absmod::fnv(serde_json::to_string(&rt2.xform).unwrap_or_default().as_bytes()), absmod::fnv(serde_json::to_string(&rt2.emit).unwrap_or_default().as_bytes()))
    } else {
        run::short(&rt2.outcome)
    };
    json!({"id": inp.id, "source": inp.source, "outcome": rt.outcome, "digest": if rt.outcome == "ok" { format!("{}:{}", absmod::fnv(&rt.out), d2) } else { String::new() },
           "parse_jobs": pj, "emit_jobs": ej, "threads_seen": threads})
}

// ---- code transform (C11) -----------------------------------------------------------------------

pub const INSERT_MARK: i32 = 0x5eed;

/// insert `i32.const 0x5eed ; drop` (default locations) into the entry block of some functions
pub fn insert_marked_instructions(m: &mut walrus::Module, seed: u64) -> usize {
    use rand::Rng;
    use walrus::ir::{Const, Drop, Value as V};
    let mut r = gen::rng(seed ^ 0x11);
    let fids: Vec<walrus::FunctionId> = m.funcs.iter_local().map(|(id, _)| id).collect();
    let mut n = 0;
    for fid in fids {
        if r.gen_bool(0.4) {
            continue;
        }
        let lf = m.funcs.get_mut(fid).kind.unwrap_local_mut();
        let entry = lf.entry_block();
        let len = lf.block(entry).instrs.len();
        let times = r.gen_range(1..3);
        for _ in 0..times {
            let pos = r.gen_range(0..=len);
            lf.builder_mut().instr_seq(entry).instr_at(pos, Const { value: V::I32(INSERT_MARK) }).instr_at(pos + 1, Drop {});
            n += 1;
        }
    }
    n
}

pub fn xform_case(inp: &Input, variant: &str) -> Value {
    // "plain-loc": like "plain", with a user callback that assigns the locations (the identity: what the default does)
    // "plain-dwarf": the module carries (synthesized) DWARF and DWARF generation is on: the DWARF rewriter uses the transform
    // before the user's sections get it
    let with_dwarf = variant == "plain-dwarf";
    let cfg = Cfg { xform: true, probe: true, dwarf: with_dwarf, instr_loc: variant == "plain-loc", ..Default::default() };
    let id = format!("{}~{}", inp.id, variant);
    let owned;
    let inp = if with_dwarf {
        let b = crate::dwarf::attach(&inp.bytes, crate::dwarf::DwarfOpts { version: 4, spanning: false, nested: false }).unwrap_or_else(|| inp.bytes.clone());
        owned = Input { id: inp.id.clone(), bytes: b, source: inp.source.clone() };
        &owned
    } else {
        inp
    };
    let parsed = match run::parse(&inp.bytes, &cfg) {
        Ok(p) => p,
        Err(e) => return json!({"id": id, "source": inp.source, "outcome": format!("parse-{}", e)}),
    };
    let mut module = parsed.module;
    let maps = parsed.maps;
    let mut inserted = 0;
    match variant {
        "gc" => {
            if let Err(e) = run::gc(&mut module) {
                return json!({"id": id, "source": inp.source, "outcome": format!("gc-{}", e)});
            }
        }
        "edited" => inserted = insert_marked_instructions(&mut module, absmod::fnv(inp.id.as_bytes()).len() as u64 + inp.bytes.len() as u64),
        _ => {}
    }
    let em = match run::emit(&mut module, true) {
        Ok(e) => e,
        Err(e) => return json!({"id": id, "source": inp.source, "outcome": format!("emit-{}", e)}),
    };
    let sigma = run::sigma(&maps, &em.emit);
    let inm = absmod::project(&inp.bytes).unwrap_or_default();
    let outm = absmod::project(&em.bytes).unwrap_or_default();
    let mut attributed = 0usize;
    let mut funcs = vec![];
    for f in inm.funcs.iter().filter(|f| !f.imported) {
        let fo = sigma.func.get(f.idx as usize).copied().unwrap_or(-1);
        if fo < 0 {
            continue;
        }
        let Some(of) = outm.funcs.get(fo as usize) else { continue };
        // walrus adds an `else` to an if that had none: every output Else beyond the input's count is "inserted";
        // so are the marked const/drop pairs of the edit
        // which output `else` operators were added by walrus: pair up the surviving `if`s of the input with the `if`s of
        // the output, in order, and look at whether the input one had an else arm
        let if_info = |ops: &[absmod::AbsOp], keep: &[bool]| -> Vec<(bool, Option<usize>)> {
            let mut res: Vec<(bool, Option<usize>)> = vec![];
            let mut st: Vec<Option<usize>> = vec![]; // index into res for if-frames
            for (k, o) in ops.iter().enumerate() {
                match o.o.as_str() {
                    "If" => {
                        if keep[k] {
                            res.push((false, None));
                            st.push(Some(res.len() - 1));
                        } else {
                            st.push(None);
                        }
                    }
                    "Block" | "Loop" => st.push(None),
                    "Else" => {
                        if let Some(Some(i)) = st.last() {
                            res[*i] = (true, Some(k));
                        }
                    }
                    "End" => {
                        st.pop();
                    }
                    _ => {}
                }
            }
            res
        };
        let live = absmod::liveness(&f.ops);
        let in_ifs = if_info(&f.ops, &live);
        let out_ifs = if_info(&of.ops, &vec![true; of.ops.len()]);
        let mut added_else: Vec<usize> = vec![];
        if in_ifs.len() == out_ifs.len() {
            for (a, b) in in_ifs.iter().zip(out_ifs.iter()) {
                if !a.0 {
                    if let Some(k) = b.1 {
                        added_else.push(k);
                    }
                }
            }
        }
        let mut outops = vec![];
        let mut open_marks = 0usize; // inserted pairs nest like parentheses (a later insertion may land inside an earlier pair)
        let in_else = f.ops.iter().filter(|o| o.o == "Else").count();
        let out_else = of.ops.iter().filter(|o| o.o == "Else").count();
        for (k, o) in of.ops.iter().enumerate() {
            let marked = o.o == "I32Const" && o.imm == format!("value={}", INSERT_MARK);
            let ins = marked || (open_marks > 0 && o.o == "Drop") || added_else.contains(&k);
            if marked {
                open_marks += 1;
            } else if ins && o.o == "Drop" {
                open_marks -= 1;
            }
            outops.push(json!([o.at, o.o, ins]));
        }
        // the pairs whose input offset lies in this function, each with the (1-based) positions of the operators that
        // start at the two offsets (0 = no operator starts there); looking an offset up is all that happens here
        let lo = f.ops.first().map(|o| o.at).unwrap_or(0);
        let hi = f.ops.last().map(|o| o.at).unwrap_or(0);
        let in_pos: std::collections::HashMap<u32, usize> = f.ops.iter().enumerate().map(|(k, o)| (o.at, k + 1)).collect();
        let out_pos: std::collections::HashMap<u32, usize> = of.ops.iter().enumerate().map(|(k, o)| (o.at, k + 1)).collect();
        let mut fpairs = vec![];
        for (loc, off) in em.xform.instruction_map.iter().filter(|(loc, _)| *loc >= lo && *loc <= hi) {
            attributed += 1;
            fpairs.push(json!([in_pos.get(loc).copied().unwrap_or(0), out_pos.get(off).copied().unwrap_or(0), loc, off]));
        }
        funcs.push(json!({"fi": f.idx, "fo": fo, "inops": f.ops.iter().map(|o| json!([o.at, o.o])).collect::<Vec<_>>(), "outops": outops,
                          "else_added": out_else.saturating_sub(in_else), "pairs": fpairs}));
    }
    let stray = em.xform.instruction_map.len() - attributed;
    // function ranges as (output function index, start, end), via the emit-time map
    let fo_of = |fid: i32| em.emit.func.iter().find(|(i, _)| *i == fid).map(|(_, x)| *x).unwrap_or(-1);
    let mut ranges: Vec<(i32, u32, u32)> = em.xform.function_ranges.iter().map(|(fid, a, b)| (fo_of(*fid), *a, *b)).collect();
    ranges.sort();
    let mut entries: Vec<(i32, u32, u32)> = outm.funcs.iter().filter(|f| !f.imported).map(|f| (f.idx as i32, f.entry_at, f.end_at)).collect();
    entries.sort();
    json!({"id": id, "source": inp.source, "outcome": "ok", "captured": em.xform.captured, "variant": variant, "inserted": inserted,
           "code_section_start": em.xform.code_section_start, "out_code_at": outm.code_at, "nfuncs_out": entries.len(),
           "ranges": ranges, "out_entries": entries, "npairs": em.xform.instruction_map.len(), "stray_pairs": stray, "funcs": funcs})
}

// ---- DWARF (C10) --------------------------------------------------------------------------------

fn norm_rows(rows: Vec<Value>) -> Vec<Value> {
    rows.into_iter()
        .map(|r| {
            let a: u64 = r["addr"].as_str().unwrap_or("0").parse().unwrap_or(0);
            let line = r["line"].as_u64().unwrap_or(0);
            json!({"addr": if a <= 0x7fff_ffff { a as i64 } else { -1 }, "tomb": a == 0xFFFF_FFFF, "line": line,
                   "fi": if line > 0 { ((line - 1) / crate::dwarf::LINE_STRIDE) as i64 } else { -1 }, "k": if line > 0 { ((line - 1) % crate::dwarf::LINE_STRIDE) as i64 + 1 } else { 0 },
                   "col": r["col"], "file": r["file"], "stmt": r["stmt"], "end": r["end"]})
        })
        .collect()
}
fn norm_subs(subs: Vec<Value>) -> Vec<Value> {
    subs.into_iter()
        .map(|r| {
            let low: i64 = r["low"].as_str().unwrap_or("-1").parse().unwrap_or(-1);
            let len: i64 = r["len"].as_str().unwrap_or("-1").parse().unwrap_or(-1);
            let name = r["name"].as_str().unwrap_or("").to_string();
            json!({"name": name, "fi": name.trim_start_matches('f').parse::<i64>().unwrap_or(-1), "low": if low <= 0x7fff_ffff { low } else { -1 }, "tomb": low == 0xFFFF_FFFF, "len": if len <= 0x7fff_ffff { len } else { -1 }})
        })
        .collect()
}

pub fn dwarf_case(inp: &Input, version: u16, spanning: bool, variant: &str) -> Option<Value> {
    dwarf_case_full(inp, version, spanning, false, variant)
}

/// `nested`: subprograms inside a namespace / between other DIEs, with parameters, a lexical block and a variable as children
pub fn dwarf_case_full(inp: &Input, version: u16, spanning: bool, nested: bool, variant: &str) -> Option<Value> {
    let with = crate::dwarf::attach(&inp.bytes, crate::dwarf::DwarfOpts { version, spanning, nested })?;
    // version 5, per-function sequences: every other module gets a row that names file 0
    let with = if version >= 5 && !spanning && inp.bytes.len() % 2 == 0 { crate::dwarf::patch_row_to_file0(&with).unwrap_or(with) } else { with };
    let id = format!("{}~v{}{}{}~{}", inp.id, version, if spanning { "span" } else { "" }, if nested { "nest" } else { "" }, variant);
    let src = format!("dwarf:{}:v{}:{}{}:{}", inp.source, version, spanning, if nested { ":nested" } else { "" }, variant);
    let cfg = Cfg { dwarf: true, xform: true, probe: true, ..Default::default() };
    let parsed = match run::parse(&with, &cfg) {
        Ok(p) => p,
        Err(e) => return Some(json!({"id": id, "source": src, "outcome": format!("parse-{}", e)})),
    };
    let mut module = parsed.module;
    let maps = parsed.maps;
    match variant {
        "gc" => {
            if let Err(e) = run::gc(&mut module) {
                return Some(json!({"id": id, "source": src, "outcome": format!("gc-{}", e)}));
            }
        }
        "edited" => {
            insert_marked_instructions(&mut module, inp.bytes.len() as u64);
        }
        _ => {}
    }
    let em = match run::emit(&mut module, true) {
        Ok(e) => e,
        Err(e) => return Some(json!({"id": id, "source": src, "outcome": format!("emit-{}", e), "version": version, "spanning": spanning, "variant": variant})),
    };
    let sigma = run::sigma(&maps, &em.emit);
    let inm = absmod::project(&with).unwrap_or_default();
    let outm = absmod::project(&em.bytes).unwrap_or_default();
    let (in_rows, in_subs) = crate::dwarf::read_back(&with).unwrap_or_default();
    let (out_rows, out_subs, read_err) = match crate::dwarf::read_back(&em.bytes) {
        Ok((r, s)) => (r, s, String::new()),
        Err(e) => (vec![], vec![], e),
    };
    // per kept function: input operator position (1-based) -> output operator position, from the code transform
    let mut fmap = vec![];
    for f in inm.funcs.iter() {
        let fo = sigma.func.get(f.idx as usize).copied().unwrap_or(-1);
        let mut m: Vec<i64> = vec![0; f.ops.len()];
        if !f.imported && fo >= 0 {
            if let Some(of) = outm.funcs.get(fo as usize) {
                let out_pos: std::collections::HashMap<u32, usize> = of.ops.iter().enumerate().map(|(k, o)| (o.at, k + 1)).collect();
                let in_pos: std::collections::HashMap<u32, usize> = f.ops.iter().enumerate().map(|(k, o)| (o.at, k + 1)).collect();
                for (loc, off) in em.xform.instruction_map.iter() {
                    if let (Some(i), Some(j)) = (in_pos.get(loc), out_pos.get(off)) {
                        m[*i - 1] = *j as i64;
                    }
                }
            }
        }
        // how many operators of the input survive elision (decided from the input alone: reachable and not a nop): every one
        // of them has to have an image, whatever the recorded transform says
        let live = absmod::liveness(&f.ops);
        let survivors = f.ops.iter().zip(live.iter()).filter(|(o, l)| **l && o.o != "Nop").count();
        // the operators themselves, for a judgement of the correspondence that does not rest on the transform
        let ino: Vec<&str> = f.ops.iter().map(|o| o.o.as_str()).collect();
        let outo: Vec<&str> = if !f.imported && fo >= 0 { outm.funcs.get(fo as usize).map(|of| of.ops.iter().map(|o| o.o.as_str()).collect()).unwrap_or_default() } else { vec![] };
        fmap.push(json!({"fi": f.idx, "fo": fo, "imported": f.imported, "map": m, "survivors": survivors, "ino": ino, "outo": outo}));
    }
    Some(json!({"id": id, "source": src, "outcome": "ok", "version": version, "spanning": spanning, "variant": variant, "read_error": read_err,
        "out_valid": absmod::validate(&em.bytes).is_ok(),
        "in_layout": crate::dwarf::layout(&inm), "out_layout": crate::dwarf::layout(&outm), "fmap": fmap,
        "in_rows": norm_rows(in_rows), "out_rows": norm_rows(out_rows), "in_subs": norm_subs(in_subs), "out_subs": norm_subs(out_subs)}))
}

/// small modules whose imports share (module, field) names -- legal wasm, and the shape in which "the import of this
/// function" and "the import with this name" are different things
pub fn duplicate_import_inputs(seed: u64, n: u64) -> Vec<Input> {
    use crate::gen::*;
    use crate::optable::T;
    use rand::Rng;
    use wasm_encoder::Instruction as I;
    let mut out = vec![];
    for k in 0..n {
        let mut r = gen::rng(seed.wrapping_mul(977).wrapping_add(k));
        let mut d = Desc::default();
        d.types.push(Sig { params: vec![], results: vec![] });
        d.types.push(Sig { params: vec![T::I32], results: vec![T::I32] });
        let nimp = r.gen_range(2..5);
        let global_first = r.gen_bool(0.4);
        if global_first {
            d.globals.push(GlobalD { ty: T::I32, mutable: false, imported: true, init: None });
            d.imports.push(Imp { module: "env".into(), field: "f".into(), kind: ImpKind::Global(0) });
            if k % 2 == 0 {
                // a second global import of the same names, another type and mutability
                d.globals.push(GlobalD { ty: T::I64, mutable: true, imported: true, init: None });
                d.imports.push(Imp { module: "env".into(), field: "f".into(), kind: ImpKind::Global(1) });
            }
        }
        for _ in 0..nimp {
            let ty = r.gen_range(0..2);
            d.funcs.push(FuncD { ty, imported: true });
            let field = if r.gen_bool(0.8) { "f".to_string() } else { "g".to_string() };
            d.imports.push(Imp { module: "env".into(), field, kind: ImpKind::Func(d.funcs.len() as u32 - 1) });
        }
        // one local function that calls every imported one, exported; and exports of some imports
        d.funcs.push(FuncD { ty: 0, imported: false });
        let mut ins = vec![];
        for f in 0..nimp {
            if d.funcs[f as usize].ty == 0 {
                ins.push(I::Call(f));
            } else {
                ins.push(I::I32Const(f as i32));
                ins.push(I::Call(f));
                ins.push(I::Drop);
            }
        }
        if global_first {
            ins.push(I::GlobalGet(0));
            ins.push(I::Drop);
            if d.globals.len() > 1 {
                ins.push(I::GlobalGet(1));
                ins.push(I::Drop);
            }
        }
        ins.push(I::End);
        d.bodies.push(BodyD { locals: vec![], instrs: ins });
        d.exports.push(ExportD { name: "run".into(), kind: wasm_encoder::ExportKind::Func, idx: nimp });
        if r.gen_bool(0.5) {
            d.exports.push(ExportD { name: "imp".into(), kind: wasm_encoder::ExportKind::Func, idx: r.gen_range(0..nimp) });
        }
        out.push(Input { id: format!("dupimp-{}", k), bytes: d.encode(), source: format!("dupimp:{}:{}", seed, k) });
    }
    out
}

/// Executable modules with several funcref tables (C01, C06): 2-3 tables (table 0 possibly imported), small functions
/// returning distinct constants, active segments on every table (MVP, explicit-table and expression encodings), and one
/// exported `call_t<k>(i)` per table doing `call_indirect` on it -- which table a segment initialises is observable.
pub fn exec_table_inputs(seed: u64, n: u64) -> Vec<Input> {
    use crate::gen::*;
    use crate::optable::T;
    use rand::Rng;
    use wasm_encoder::Instruction as I;
    let mut out = vec![];
    for k in 0..n {
        let mut r = gen::rng(seed.wrapping_mul(7919).wrapping_add(k));
        let mut d = Desc::default();
        d.types.push(Sig { params: vec![], results: vec![T::I32] });
        d.types.push(Sig { params: vec![T::I32], results: vec![T::I32] });
        let ntab = r.gen_range(2..4usize);
        for t in 0..ntab {
            let imported = t == 0 && r.gen_bool(0.3);
            d.tables.push(TableD { ety: T::FuncRef, min: r.gen_range(4..9), max: None, t64: false, imported });
            if imported {
                d.imports.push(Imp { module: "env".into(), field: "tab".into(), kind: ImpKind::Table(0) });
            }
        }
        let nconst = r.gen_range(3..7u32);
        for c in 0..nconst {
            d.funcs.push(FuncD { ty: 0, imported: false });
            d.bodies.push(BodyD { locals: vec![], instrs: vec![I::I32Const(100 + c as i32), I::End] });
        }
        for t in 0..ntab as u32 {
            d.funcs.push(FuncD { ty: 1, imported: false });
            d.bodies.push(BodyD { locals: vec![], instrs: vec![I::LocalGet(0), I::CallIndirect { type_index: 0, table_index: t }, I::End] });
            d.exports.push(ExportD { name: format!("call_t{}", t), kind: wasm_encoder::ExportKind::Func, idx: nconst + t });
        }
        for _ in 0..r.gen_range(2..6) {
            let table = r.gen_range(0..ntab) as u32;
            let min = d.tables[table as usize].min;
            let nitems = r.gen_range(1..4u64);
            let off = r.gen_range(0..=min - nitems);
            let funcs_form = r.gen_bool(0.6);
            let items = (0..nitems).map(|_| if !funcs_form && r.gen_bool(0.2) { Expr::Null(T::FuncRef) } else { Expr::Func(r.gen_range(0..nconst)) }).collect();
            d.elems.push(ElemD { mode: ElemMode::Active { table, offset: Expr::I32(off as i32), explicit_table: table != 0 || r.gen_bool(0.3) }, ety: T::FuncRef, funcs_form, items });
        }
        if r.gen_bool(0.3) {
            d.exports.push(ExportD { name: "tab".into(), kind: wasm_encoder::ExportKind::Table, idx: r.gen_range(0..ntab) as u32 });
        }
        out.push(Input { id: format!("exectab-{}", k), bytes: d.encode(), source: format!("exectab:{}:{}", seed, k) });
    }
    out
}

/// modules for the bulk memory / table instructions of Exec.tla: two or three tables, two memories, active, passive and
/// declared segments, a host function that may also be the start function, and exported functions that each perform one
/// bulk operation (in and out of bounds); other exported functions read every table slot and memory byte back
pub fn exec_bulk_inputs(seed: u64, n: u64) -> Vec<Input> {
    use crate::gen::*;
    use crate::optable::T;
    use rand::Rng;
    use wasm_encoder::Instruction as I;
    use wasm_encoder::MemArg;
    let mut out = vec![];
    for k in 0..n {
        let mut r = gen::rng(seed.wrapping_mul(104_729).wrapping_add(k));
        let mut d = Desc::default();
        d.types.push(Sig { params: vec![], results: vec![T::I32] });
        d.types.push(Sig { params: vec![T::I32], results: vec![T::I32] });
        d.types.push(Sig { params: vec![], results: vec![] });
        // the host's function; in half of the modules that have it, it is the start function
        if r.gen_bool(0.6) {
            d.funcs.push(FuncD { ty: 2, imported: true });
            d.imports.push(Imp { module: "env".into(), field: "init".into(), kind: ImpKind::Func(0) });
            if r.gen_bool(0.5) {
                d.start = Some(0);
            }
        }
        let base = d.funcs.len() as u32;
        let ntab = r.gen_range(2..4usize);
        for t in 0..ntab {
            let imported = t == 0 && r.gen_bool(0.2);
            d.tables.push(TableD { ety: T::FuncRef, min: r.gen_range(4..8), max: None, t64: false, imported });
            if imported {
                d.imports.push(Imp { module: "env".into(), field: "tab".into(), kind: ImpKind::Table(0) });
            }
        }
        for _ in 0..2 {
            d.mems.push(MemD { min: 1, max: if r.gen_bool(0.5) { Some(3) } else { None }, m64: false, shared: false, imported: false });
        }
        let nconst = r.gen_range(3..6u32);
        for c in 0..nconst {
            d.funcs.push(FuncD { ty: 0, imported: false });
            d.bodies.push(BodyD { locals: vec![], instrs: vec![I::I32Const(100 + c as i32), I::End] });
        }
        let mut export = |d: &mut Desc, name: String| {
            let idx = d.funcs.len() as u32 - 1;
            d.exports.push(ExportD { name, kind: wasm_encoder::ExportKind::Func, idx });
        };
        for t in 0..ntab as u32 {
            d.funcs.push(FuncD { ty: 1, imported: false });
            d.bodies.push(BodyD { locals: vec![], instrs: vec![I::LocalGet(0), I::CallIndirect { type_index: 0, table_index: t }, I::End] });
            export(&mut d, format!("call_t{}", t));
        }
        for m in 0..2u32 {
            d.funcs.push(FuncD { ty: 1, imported: false });
            d.bodies.push(BodyD { locals: vec![], instrs: vec![I::LocalGet(0), I::I32Load8U(MemArg { offset: 0, align: 0, memory_index: m }), I::End] });
            export(&mut d, format!("load_m{}", m));
            d.funcs.push(FuncD { ty: 0, imported: false });
            d.bodies.push(BodyD { locals: vec![], instrs: vec![I::MemorySize(m), I::End] });
            export(&mut d, format!("size_m{}", m));
        }
        // segments
        let item = |r: &mut rand::rngs::StdRng, funcs_form: bool| if !funcs_form && r.gen_bool(0.2) { Expr::Null(T::FuncRef) } else { Expr::Func(base + r.gen_range(0..nconst)) };
        for t in 0..ntab as u32 {
            if r.gen_bool(0.8) {
                let min = d.tables[t as usize].min;
                let nitems = r.gen_range(1..4u64);
                let funcs_form = r.gen_bool(0.6);
                let items = (0..nitems).map(|_| item(&mut r, funcs_form)).collect();
                d.elems.push(ElemD { mode: ElemMode::Active { table: t, offset: Expr::I32(r.gen_range(0..=min - nitems) as i32), explicit_table: t != 0 || r.gen_bool(0.3) }, ety: T::FuncRef, funcs_form, items });
            }
        }
        for _ in 0..r.gen_range(1..4) {
            let funcs_form = r.gen_bool(0.5);
            let items = (0..r.gen_range(2..5)).map(|_| item(&mut r, funcs_form)).collect();
            let mode = if r.gen_bool(0.85) { ElemMode::Passive } else { ElemMode::Declared };
            d.elems.push(ElemD { mode, ety: T::FuncRef, funcs_form, items });
        }
        for m in 0..2u32 {
            if r.gen_bool(0.7) {
                d.data.push(DataD { mode: DataMode::Active { mem: m, offset: Expr::I32(r.gen_range(0..8)) }, bytes: (0..r.gen_range(1..4)).map(|_| r.gen_range(1..250)).collect() });
            }
        }
        for _ in 0..r.gen_range(1..4) {
            d.data.push(DataD { mode: DataMode::Passive, bytes: (0..r.gen_range(3..7)).map(|_| r.gen_range(1..250)).collect() });
        }
        d.datacount = true;
        // every constant function may be named by ref.func: declare them all
        d.elems.push(ElemD { mode: ElemMode::Declared, ety: T::FuncRef, funcs_form: true, items: (0..nconst).map(|c| Expr::Func(base + c)).collect() });
        for t in 0..ntab as u32 {
            d.funcs.push(FuncD { ty: 1, imported: false });
            d.bodies.push(BodyD { locals: vec![], instrs: vec![I::LocalGet(0), I::TableGet(t), I::RefIsNull, I::End] });
            export(&mut d, format!("isnull_t{}", t));
        }
        // the operations
        let (nel, nda) = (d.elems.len() as u32, d.data.len() as u32);
        for j in 0..r.gen_range(5..10) {
            let c = |r: &mut rand::rngs::StdRng, hi: i32| I::I32Const(r.gen_range(0..hi));
            let rf = |r: &mut rand::rngs::StdRng| if r.gen_bool(0.25) { I::RefNull(wasm_encoder::HeapType::Abstract { shared: false, ty: wasm_encoder::AbstractHeapType::Func }) } else { I::RefFunc(base + r.gen_range(0..nconst)) };
            let ins: Vec<I<'static>> = match r.gen_range(0..13) {
                9 => vec![c(&mut r, 8), rf(&mut r), I::TableSet(r.gen_range(0..ntab) as u32)],
                10 => vec![c(&mut r, 7), rf(&mut r), c(&mut r, 4), I::TableFill(r.gen_range(0..ntab) as u32)],
                11 => vec![rf(&mut r), c(&mut r, 3), I::TableGrow(r.gen_range(0..ntab) as u32), I::Drop],
                12 => vec![c(&mut r, 9), I::TableGet(r.gen_range(0..ntab) as u32), I::RefIsNull, I::Drop],
                0 | 1 => vec![c(&mut r, 7), c(&mut r, 7), c(&mut r, 4), I::TableCopy { src_table: r.gen_range(0..ntab) as u32, dst_table: r.gen_range(0..ntab) as u32 }],
                2 => vec![c(&mut r, 7), c(&mut r, 4), c(&mut r, 4), I::TableInit { elem_index: r.gen_range(0..nel), table: r.gen_range(0..ntab) as u32 }],
                3 => vec![I::ElemDrop(r.gen_range(0..nel))],
                4 => vec![c(&mut r, 12), c(&mut r, 12), c(&mut r, 6), I::MemoryCopy { src_mem: r.gen_range(0..2), dst_mem: r.gen_range(0..2) }],
                5 => vec![c(&mut r, 12), c(&mut r, 300), c(&mut r, 5), I::MemoryFill(r.gen_range(0..2))],
                6 => vec![c(&mut r, 12), c(&mut r, 5), c(&mut r, 5), I::MemoryInit { mem: r.gen_range(0..2), data_index: r.gen_range(0..nda) }],
                7 => vec![I::DataDrop(r.gen_range(0..nda))],
                _ => vec![c(&mut r, 3), I::MemoryGrow(r.gen_range(0..2)), I::Drop],
            };
            let mut ins = ins;
            if d.n_imported_funcs() > 0 && r.gen_bool(0.2) {
                ins.push(I::Call(0));
            }
            ins.push(I::End);
            d.funcs.push(FuncD { ty: 2, imported: false });
            d.bodies.push(BodyD { locals: vec![], instrs: ins });
            export(&mut d, format!("op{}", j));
        }
        if r.gen_bool(0.5) {
            d.exports.push(ExportD { name: "tab".into(), kind: wasm_encoder::ExportKind::Table, idx: r.gen_range(0..ntab) as u32 });
        }
        if r.gen_bool(0.5) {
            d.exports.push(ExportD { name: "mem".into(), kind: wasm_encoder::ExportKind::Memory, idx: r.gen_range(0..2) });
        }
        out.push(Input { id: format!("execbulk-{}", k), bytes: d.encode(), source: format!("execbulk:{}:{}", seed, k) });
    }
    out
}

// ---- execution (C01, C06) -------------------------------------------------------------------------

pub fn exec_case(inp: &Input, gc_runs: u32) -> Option<Value> {
    use rand::Rng;
    let cfg = Cfg { probe: true, ..Default::default() };
    let rt = run::roundtrip(&inp.bytes, &cfg, gc_runs);
    if rt.outcome != "ok" {
        return Some(json!({"id": format!("{}~gc{}", inp.id, gc_runs), "source": inp.source, "skip": false, "outcome": rt.outcome}));
    }
    let in_tags = |i: u32| format!("f{}", i);
    let sigma = rt.sigma.func.clone();
    let out_tags = move |j: u32| match sigma.iter().position(|x| *x == j as i32) {
        Some(i) => format!("f{}", i),
        None => format!("new{}", j),
    };
    let gsigma = rt.sigma.global.clone();
    let in_gtag = |i: u32| i as i64;
    let out_gtag = move |j: u32| gsigma.iter().position(|x| *x == j as i32).map(|i| i as i64).unwrap_or(900 + j as i64);
    let inp_prog = crate::execproj::project(&inp.bytes, &in_tags, &in_gtag)?;
    // walrus preserves operators, types and segment forms, so the output of an in-subset module is in the subset too;
    // if it is not, something was changed into another operator or type -- reported, not skipped
    let Some(out_prog) = crate::execproj::project(&rt.out, &out_tags, &out_gtag) else {
        return Some(json!({"id": format!("{}~gc{}", inp.id, gc_runs), "source": inp.source, "skip": false, "outcome": "output-leaves-the-executable-subset-of-its-input"}));
    };
    // calls: exported local functions, small arguments, state carries over between calls
    let mut r = gen::rng(u64::from_str_radix(&absmod::fnv(inp.id.as_bytes()), 16).unwrap_or(1));
    let funcs = inp_prog["funcs"].as_array().unwrap();
    let callable: Vec<(String, usize)> = inp_prog["exports"].as_array().unwrap().iter()
        .filter(|e| e["kind"] == "func" && !funcs[e["idx"].as_u64().unwrap() as usize]["imported"].as_bool().unwrap())
        .map(|e| (e["name"].as_str().unwrap().to_string(), funcs[e["idx"].as_u64().unwrap() as usize]["np"].as_u64().unwrap() as usize))
        .collect();
    // every exported local function is called (twice, different arguments), in a random order
    let mut calls = vec![];
    if inp.source.starts_with("exectab:") {
        // every slot of every table is called
        for (name, _) in callable.iter().filter(|c| c.0.starts_with("call_t")) {
            for a in 0..9 {
                calls.push(json!({"name": name, "args": [a], "round": 0}));
            }
        }
    }
    let bulk = inp.source.starts_with("execbulk:");
    if bulk {
        // after every bulk operation every table slot, the first bytes of every memory and the memory sizes are read back
        let mut ops: Vec<&(String, usize)> = callable.iter().filter(|c| c.0.starts_with("op")).collect();
        ops.sort_by_key(|c| c.0[2..].parse::<u32>().unwrap_or(0));
        for (name, _) in ops {
            calls.push(json!({"name": name, "args": [], "round": 0}));
            for (probe, np) in callable.iter().filter(|c| !c.0.starts_with("op")) {
                let span = if probe.starts_with("call_t") || probe.starts_with("isnull_t") { 10 } else if probe.starts_with("load_m") { 18 } else { 1 };
                for a in 0..span {
                    calls.push(json!({"name": probe, "args": if *np == 1 { vec![a] } else { vec![] }, "round": 0}));
                }
            }
        }
    }
    if inp.source.starts_with("ectl:") {
        // executable control strings: the argument's low three bits decide every condition
        for a in 0..8 {
            calls.push(json!({"name": "f", "args": [a], "round": 0}));
        }
    }
    for round in 0..(if calls.is_empty() { 2 } else { 0 }) {
        let mut order: Vec<usize> = (0..callable.len()).collect();
        for i in (1..order.len()).rev() {
            order.swap(i, r.gen_range(0..=i));
        }
        for k in order.into_iter().take(6) {
            let (name, np) = &callable[k];
            let args: Vec<i64> = (0..*np).map(|_| *[0i64, 1, 2, 3, 7, 64, 255, 1000].iter().nth(r.gen_range(0..8)).unwrap()).collect();
            calls.push(json!({"name": name, "args": args, "round": round}));
        }
    }
    Some(json!({"id": format!("{}~gc{}", inp.id, gc_runs), "source": inp.source, "skip": false, "outcome": "ok", "inp": inp_prog, "outp": out_prog, "calls": calls, "fuel": if bulk { 5000 } else { 40 },
                "lenient_inst": gc_runs > 0}))
}

/// function counts on both sides of the LEB128 length boundaries, split differently between imported and local
/// functions (the function *index space* and the *code section* count are different numbers)
pub fn many_import_inputs() -> Vec<Input> {
    use crate::gen::*;
    use wasm_encoder::Instruction as I;
    let mut out = vec![];
    for (nimp, nloc) in [(0usize, 127usize), (0, 128), (0, 129), (1, 127), (2, 126), (100, 30), (127, 1), (128, 1), (130, 127), (130, 128), (200, 5)] {
        let mut d = Desc::default();
        d.types.push(Sig { params: vec![], results: vec![] });
        for k in 0..nimp {
            d.funcs.push(FuncD { ty: 0, imported: true });
            d.imports.push(Imp { module: "env".into(), field: format!("h{}", k), kind: ImpKind::Func(k as u32) });
        }
        for k in 0..nloc {
            d.funcs.push(FuncD { ty: 0, imported: false });
            // unequal sizes, an if without else, and a call to an import when there is one
            let mut ins = vec![];
            for j in 0..(k % 4) {
                ins.push(I::I32Const(j as i32));
                ins.push(I::Drop);
            }
            if k % 3 == 0 {
                ins.push(I::I32Const(1));
                ins.push(I::If(wasm_encoder::BlockType::Empty));
                ins.push(I::Nop);
                ins.push(I::End);
            }
            if nimp > 0 {
                ins.push(I::Call((k % nimp) as u32));
            }
            ins.push(I::End);
            d.bodies.push(BodyD { locals: vec![], instrs: ins });
        }
        for k in 0..nloc {
            if k % 2 == 0 || nloc < 4 {
                d.exports.push(ExportD { name: format!("e{}", k), kind: wasm_encoder::ExportKind::Func, idx: (nimp + k) as u32 });
            }
        }
        out.push(Input { id: format!("manyimp-{}-{}", nimp, nloc), bytes: d.encode(), source: format!("manyimp:{}:{}", nimp, nloc) });
    }
    out
}
