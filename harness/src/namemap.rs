//! Replay of TLC-generated behaviours of NameMap.tla on a real Module.
//!
//! The history's first operation carries the input module as a list of entity descriptors and a name section; the binary
//! built from it makes every entity recognisable by its *content*, independently of any index or identifier:
//!   imported function / global : the import's field name "u<uid>"
//!   local function             : its body starts with `i32.const <uid>`
//!   table / memory             : initial size <uid>
//!   local global               : initialised with `i32.const <uid>`
//!   element segment            : <uid> items          data segment : <uid> bytes
//! The keeper function (exported) refers to every entity the descriptor marks `root`.  After every operation the names the
//! API shows are logged per uid; on emit the output's name section is decoded and resolved to uids through the output's own
//! index spaces (wasmparser only).

use crate::absmod;
use crate::run;
use serde_json::{json, Value as Json};
use std::panic::{catch_unwind, AssertUnwindSafe};
use walrus::ir::{Instr, Value};
use walrus::*;

struct Desc {
    uid: u64,
    kind: String,
    imp: bool,
    sub: String,
    host: u64,
    root: bool,
}

fn descs(first: &Json) -> Vec<Desc> {
    first["ents"]
        .as_array()
        .map(|a| {
            a.iter()
                .enumerate()
                .map(|(i, d)| Desc {
                    uid: i as u64 + 1,
                    kind: d["kind"].as_str().unwrap_or("").to_string(),
                    imp: d["imp"] == true,
                    sub: d["sub"].as_str().unwrap_or("").to_string(),
                    host: d["host"].as_u64().unwrap_or(0),
                    root: d["root"] == true,
                })
                .collect()
        })
        .unwrap_or_default()
}

/// index of the entity with this uid within its kind's input index space (imports come first in the descriptor list)
fn index_of(ds: &[Desc], uid: u64) -> u32 {
    let k = &ds.iter().find(|d| d.uid == uid).unwrap().kind;
    ds.iter().filter(|d| &d.kind == k).position(|d| d.uid == uid).unwrap() as u32
}

pub fn binary_of(first: &Json) -> Vec<u8> {
    use wasm_encoder as we;
    use wasm_encoder::Instruction as I;
    let ds = descs(first);
    let mut m = we::Module::new();
    let mut ts = we::TypeSection::new();
    ts.function([], []);
    ts.function([], [we::ValType::I32]);
    m.section(&ts);
    let tab = |uid: u64| we::TableType { element_type: we::RefType::FUNCREF, table64: false, minimum: uid, maximum: None, shared: false };
    let mem = |uid: u64| we::MemoryType { minimum: uid, maximum: None, memory64: false, shared: false, page_size_log2: None };
    let glob = we::GlobalType { val_type: we::ValType::I32, mutable: false, shared: false };
    if ds.iter().any(|d| d.imp) {
        let mut is = we::ImportSection::new();
        for d in ds.iter().filter(|d| d.imp) {
            let field = format!("u{}", d.uid);
            match d.kind.as_str() {
                "func" => is.import("env", &field, we::EntityType::Function(0)),
                "table" => is.import("env", &field, we::EntityType::Table(tab(d.uid))),
                "memory" => is.import("env", &field, we::EntityType::Memory(mem(d.uid))),
                _ => is.import("env", &field, we::EntityType::Global(glob)),
            };
        }
        m.section(&is);
    }
    let lfuncs: Vec<&Desc> = ds.iter().filter(|d| d.kind == "func" && !d.imp).collect();
    let mut fs = we::FunctionSection::new();
    for f in &lfuncs {
        fs.function(if f.sub == "keeper" { 0 } else { 1 });
    }
    m.section(&fs);
    if ds.iter().any(|d| d.kind == "table" && !d.imp) {
        let mut s = we::TableSection::new();
        for d in ds.iter().filter(|d| d.kind == "table" && !d.imp) {
            s.table(tab(d.uid));
        }
        m.section(&s);
    }
    if ds.iter().any(|d| d.kind == "memory" && !d.imp) {
        let mut s = we::MemorySection::new();
        for d in ds.iter().filter(|d| d.kind == "memory" && !d.imp) {
            s.memory(mem(d.uid));
        }
        m.section(&s);
    }
    if ds.iter().any(|d| d.kind == "global" && !d.imp) {
        let mut s = we::GlobalSection::new();
        for d in ds.iter().filter(|d| d.kind == "global" && !d.imp) {
            s.global(glob, &we::ConstExpr::i32_const(d.uid as i32));
        }
        m.section(&s);
    }
    let keeper = ds.iter().find(|d| d.sub == "keeper").map(|d| index_of(&ds, d.uid)).unwrap_or(0);
    let mut es = we::ExportSection::new();
    es.export("keep", we::ExportKind::Func, keeper);
    m.section(&es);
    if ds.iter().any(|d| d.kind == "elem") {
        let mut s = we::ElementSection::new();
        for d in ds.iter().filter(|d| d.kind == "elem") {
            let items: Vec<u32> = (0..d.uid).map(|_| keeper).collect();
            let els = we::Elements::Functions(&items);
            match d.sub.as_str() {
                "active" => {
                    let t = index_of(&ds, d.host);
                    s.active(if t == 0 { None } else { Some(t) }, &we::ConstExpr::i32_const(0), els);
                }
                "declared" => {
                    s.declared(els);
                }
                _ => {
                    s.passive(els);
                }
            }
        }
        m.section(&s);
    }
    let ndata = ds.iter().filter(|d| d.kind == "data").count();
    if ndata > 0 {
        m.section(&we::DataCountSection { count: ndata as u32 });
    }
    let mut cs = we::CodeSection::new();
    for f in &lfuncs {
        let mut body = we::Function::new([]);
        body.instruction(&I::I32Const(f.uid as i32));
        if f.sub == "keeper" {
            body.instruction(&I::Drop);
            for d in ds.iter().filter(|d| d.root && d.sub != "keeper") {
                let i = index_of(&ds, d.uid);
                match d.kind.as_str() {
                    "func" => {
                        body.instruction(&I::Call(i));
                        if !d.imp {
                            body.instruction(&I::Drop);
                        }
                    }
                    "table" => {
                        body.instruction(&I::TableSize(i));
                        body.instruction(&I::Drop);
                    }
                    "memory" => {
                        body.instruction(&I::MemorySize(i));
                        body.instruction(&I::Drop);
                    }
                    "global" => {
                        body.instruction(&I::GlobalGet(i));
                        body.instruction(&I::Drop);
                    }
                    "elem" => {
                        body.instruction(&I::ElemDrop(i));
                    }
                    _ => {
                        body.instruction(&I::DataDrop(i));
                    }
                }
            }
        }
        body.instruction(&I::End);
        cs.function(&body);
    }
    m.section(&cs);
    if ndata > 0 {
        let mut s = we::DataSection::new();
        for d in ds.iter().filter(|d| d.kind == "data") {
            let bytes: Vec<u8> = (0..d.uid).map(|_| d.uid as u8).collect();
            if d.sub == "active" {
                s.active(index_of(&ds, d.host), &we::ConstExpr::i32_const(0), bytes);
            } else {
                s.passive(bytes);
            }
        }
        m.section(&s);
    }
    // the name section, one subsection per kind that has entries, indices ascending
    let mut names: Vec<(String, u32, String)> = first["names"]
        .as_array()
        .map(|a| a.iter().map(|t| (t[0].as_str().unwrap_or("").to_string(), t[1].as_u64().unwrap_or(0) as u32, t[2].as_str().unwrap_or("").to_string())).collect())
        .unwrap_or_default();
    names.sort();
    if !names.is_empty() {
        let mut ns = we::NameSection::new();
        let of = |k: &str| {
            let mut nm = we::NameMap::new();
            let mut any = false;
            for (kk, i, n) in &names {
                if kk == k {
                    nm.append(*i, n);
                    any = true;
                }
            }
            (nm, any)
        };
        // subsection ids ascend: functions 1, tables 5, memories 6, globals 7, elements 8, data 9
        let (nm, any) = of("func");
        if any {
            ns.functions(&nm);
        }
        let (nm, any) = of("table");
        if any {
            ns.tables(&nm);
        }
        let (nm, any) = of("memory");
        if any {
            ns.memories(&nm);
        }
        let (nm, any) = of("global");
        if any {
            ns.globals(&nm);
        }
        let (nm, any) = of("elem");
        if any {
            ns.elements(&nm);
        }
        let (nm, any) = of("data");
        if any {
            ns.data(&nm);
        }
        m.section(&ns);
    }
    m.finish()
}

// ---- recognising entities by content through the public API ------------------------------------------------------------

fn field_uid(name: &str) -> Option<u64> {
    name.strip_prefix('u').and_then(|s| s.parse().ok())
}

fn func_uid(m: &Module, f: &Function) -> Option<u64> {
    match &f.kind {
        FunctionKind::Import(i) => field_uid(&m.imports.get(i.import).name),
        FunctionKind::Local(l) => match l.block(l.entry_block()).instrs.first() {
            Some((Instr::Const(c), _)) => match c.value {
                Value::I32(v) => Some(v as u64),
                _ => None,
            },
            _ => None,
        },
        FunctionKind::Uninitialized(_) => None,
    }
}
fn global_uid(m: &Module, g: &Global) -> Option<u64> {
    match &g.kind {
        GlobalKind::Import(i) => field_uid(&m.imports.get(*i).name),
        GlobalKind::Local(ConstExpr::Value(Value::I32(v))) => Some(*v as u64),
        _ => None,
    }
}
fn elem_uid(e: &Element) -> Option<u64> {
    match &e.items {
        ElementItems::Functions(v) => Some(v.len() as u64),
        ElementItems::Expressions(_, v) => Some(v.len() as u64),
    }
}

/// every entity the API shows: (kind, uid or -1, name or "")
fn api_view(m: &Module) -> Vec<(String, i64, String)> {
    let mut out = vec![];
    let nm = |n: &Option<String>| n.clone().unwrap_or_default();
    for f in m.funcs.iter() {
        out.push(("func".to_string(), func_uid(m, f).map(|u| u as i64).unwrap_or(-1), nm(&f.name)));
    }
    for t in m.tables.iter() {
        out.push(("table".to_string(), t.initial as i64, nm(&t.name)));
    }
    for t in m.memories.iter() {
        out.push(("memory".to_string(), t.initial as i64, nm(&t.name)));
    }
    for g in m.globals.iter() {
        out.push(("global".to_string(), global_uid(m, g).map(|u| u as i64).unwrap_or(-1), nm(&g.name)));
    }
    for e in m.elements.iter() {
        out.push(("elem".to_string(), elem_uid(e).map(|u| u as i64).unwrap_or(-1), nm(&e.name)));
    }
    for d in m.data.iter() {
        out.push(("data".to_string(), d.value.len() as i64, nm(&d.name)));
    }
    out
}

fn observe(m: &Module) -> Json {
    match catch_unwind(AssertUnwindSafe(|| api_view(m))) {
        Ok(v) => {
            let mut named: Vec<Json> = v.iter().filter(|t| !t.2.is_empty()).map(|t| json!([t.0, t.1, t.2])).collect();
            named.sort_by_key(|j| j.to_string());
            let mut seen: Vec<Json> = v.iter().map(|t| json!([t.0, t.1])).collect();
            seen.sort_by_key(|j| j.to_string());
            json!({"ok": true, "named": named, "seen": seen})
        }
        Err(p) => json!({"ok": false, "named": [], "seen": [], "panic": run::short(&run::panic_msg(p))}),
    }
}

// ---- the emitted binary, by content (wasmparser only) --------------------------------------------------------------------

fn min_of(ty: &str) -> i64 {
    ty.split_whitespace().find_map(|w| w.strip_prefix("min=")).and_then(|s| s.parse().ok()).unwrap_or(-1)
}
fn i32_of(e: &absmod::AbsExpr) -> i64 {
    e.v.strip_prefix("i32:").and_then(|s| s.parse().ok()).unwrap_or(-1)
}

fn decode(out: &[u8]) -> Json {
    let am = match absmod::project(out) {
        Ok(a) => a,
        Err(e) => return json!({"ok": false, "why": format!("{}", e), "emitted": [], "names": [], "sections": 0}),
    };
    let field = |kind: &str, target: u32| am.imports.iter().find(|i| i.kind == kind && i.target == target).and_then(|i| field_uid(&i.field)).map(|u| u as i64).unwrap_or(-1);
    let mut spaces: std::collections::BTreeMap<&str, Vec<i64>> = Default::default();
    spaces.insert(
        "func",
        am.funcs
            .iter()
            .map(|f| {
                if f.imported {
                    field("func", f.idx)
                } else {
                    match f.ops.first() {
                        Some(o) if o.o == "I32Const" => o.imm.strip_prefix("value=").and_then(|s| s.parse().ok()).unwrap_or(-1),
                        _ => -1,
                    }
                }
            })
            .collect(),
    );
    spaces.insert("table", am.tables.iter().map(|t| min_of(&t.ty)).collect());
    spaces.insert("memory", am.memories.iter().map(|t| min_of(&t.ty)).collect());
    spaces.insert("global", am.globals.iter().map(|g| if g.imported { field("global", g.idx) } else { i32_of(&g.init) }).collect());
    spaces.insert("elem", am.elems.iter().map(|e| e.items.len() as i64).collect());
    spaces.insert("data", am.data.iter().map(|d| d.len as i64).collect());
    let emitted: Vec<Json> = spaces.iter().flat_map(|(k, v)| v.iter().map(move |u| json!([k, u]))).collect();
    // names resolved to uids; an index nothing was emitted at resolves to -1
    let mut names: Vec<Json> = am
        .names
        .iter()
        .filter(|n| n.kind != "module")
        .map(|n| {
            let uid = spaces.get(n.kind.as_str()).and_then(|v| v.get(n.idx as usize)).copied().unwrap_or(-1);
            json!([if n.sub >= 0 { format!("{}-sub", n.kind) } else { n.kind.clone() }, uid, n.name])
        })
        .collect();
    names.sort_by_key(|j| j.to_string());
    let nsections = am.sections.iter().filter(|s| s.name == "name").count();
    json!({"ok": nsections == 0 || am.name_section_ok, "emitted": emitted, "names": names, "sections": nsections, "valid": absmod::validate(out).is_ok()})
}

fn no_out() -> Json {
    json!({"ok": true, "emitted": [], "names": [], "sections": 0, "valid": true})
}

// ---- replay ----------------------------------------------------------------------------------------------------------------

pub fn replay(id: &str, hist: &[Json]) -> Json {
    match catch_unwind(AssertUnwindSafe(|| replay_inner(id, hist))) {
        Ok(j) => j,
        Err(p) => json!({"id": id, "source": format!("namemap:{}", id), "outcome": format!("panic:{}", run::short(&run::panic_msg(p))), "first": hist[0], "events": []}),
    }
}

enum Ent {
    F(FunctionId),
    T(TableId),
    M(MemoryId),
    G(GlobalId),
    E(ElementId),
    D(DataId),
}

fn find(m: &Module, ds: &[Desc], uid: u64) -> Option<Ent> {
    let d = ds.iter().find(|d| d.uid == uid)?;
    match d.kind.as_str() {
        "func" => m.funcs.iter().find(|f| func_uid(m, f) == Some(uid)).map(|f| Ent::F(f.id())),
        "table" => m.tables.iter().find(|t| t.initial == uid).map(|t| Ent::T(t.id())),
        "memory" => m.memories.iter().find(|t| t.initial == uid).map(|t| Ent::M(t.id())),
        "global" => m.globals.iter().find(|g| global_uid(m, g) == Some(uid)).map(|g| Ent::G(g.id())),
        "elem" => m.elements.iter().find(|e| elem_uid(e) == Some(uid)).map(|e| Ent::E(e.id())),
        _ => m.data.iter().find(|x| x.value.len() as u64 == uid).map(|x| Ent::D(x.id())),
    }
}

fn replay_inner(id: &str, hist: &[Json]) -> Json {
    let first = &hist[0];
    let ds = descs(first);
    let bytes = binary_of(first);
    let in_valid = absmod::validate(&bytes).is_ok();
    let on = first["on"].as_bool().unwrap_or(true);
    let mk = || {
        let mut c = ModuleConfig::new();
        c.generate_name_section(on);
        c.generate_producers_section(false);
        c
    };
    let src = format!("namemap:{}", id);
    let mut m = match catch_unwind(AssertUnwindSafe(|| mk().parse(&bytes))) {
        Ok(Ok(m)) => m,
        Ok(Err(e)) => return json!({"id": id, "source": src, "outcome": format!("parse-err:{}", run::short(&format!("{:#}", e))), "in_valid": in_valid, "first": first, "events": []}),
        Err(p) => return json!({"id": id, "source": src, "outcome": format!("parse-panic:{}", run::short(&run::panic_msg(p))), "in_valid": in_valid, "first": first, "events": []}),
    };
    let mut events = vec![json!({"op": "parse", "e": {"op": "parse", "on": on}, "outcome": "ok", "obs": observe(&m), "out": no_out()})];
    let mut last_out: Vec<u8> = vec![];
    for e in &hist[1..] {
        let op = e["op"].as_str().unwrap_or("");
        let uid = e["u"].as_u64().unwrap_or(0);
        let mut out = no_out();
        let r = catch_unwind(AssertUnwindSafe(|| -> String {
            match op {
                "set" => {
                    let n = e["n"].as_str().unwrap_or("");
                    let name = if n.is_empty() { None } else { Some(n.to_string()) };
                    match find(&m, &ds, uid) {
                        Some(Ent::F(x)) => m.funcs.get_mut(x).name = name,
                        Some(Ent::T(x)) => m.tables.get_mut(x).name = name,
                        Some(Ent::M(x)) => m.memories.get_mut(x).name = name,
                        Some(Ent::G(x)) => m.globals.get_mut(x).name = name,
                        Some(Ent::E(x)) => m.elements.get_mut(x).name = name,
                        Some(Ent::D(x)) => m.data.get_mut(x).name = name,
                        None => return "entity-not-found".to_string(),
                    }
                    "ok".to_string()
                }
                "delete" => {
                    match find(&m, &ds, uid) {
                        Some(Ent::F(x)) => {
                            if let Some(i) = m.imports.get_imported_func(x).map(|i| i.id()) {
                                m.imports.delete(i);
                            }
                            m.funcs.delete(x);
                        }
                        Some(Ent::T(x)) => {
                            if let Some(i) = m.tables.get(x).import {
                                m.imports.delete(i);
                            }
                            m.tables.delete(x);
                        }
                        Some(Ent::M(x)) => {
                            if let Some(i) = m.memories.get(x).import {
                                m.imports.delete(i);
                            }
                            m.memories.delete(x);
                        }
                        Some(Ent::G(x)) => {
                            if let GlobalKind::Import(i) = m.globals.get(x).kind {
                                m.imports.delete(i);
                            }
                            m.globals.delete(x);
                        }
                        Some(Ent::E(x)) => m.elements.delete(x),
                        Some(Ent::D(x)) => m.data.delete(x),
                        None => return "entity-not-found".to_string(),
                    }
                    "ok".to_string()
                }
                "gc" => {
                    walrus::passes::gc::run(&mut m);
                    "ok".to_string()
                }
                "emit" => {
                    last_out = m.emit_wasm();
                    out = decode(&last_out);
                    "ok".to_string()
                }
                "reparse" => match mk().parse(&last_out) {
                    Ok(m2) => {
                        m = m2;
                        "ok".to_string()
                    }
                    Err(e) => format!("reparse-err:{}", run::short(&format!("{:#}", e))),
                },
                _ => "unknown-op".to_string(),
            }
        }));
        let outcome = match r {
            Ok(s) => s,
            Err(p) => format!("panic:{}", run::short(&run::panic_msg(p))),
        };
        events.push(json!({"op": op, "e": e, "outcome": outcome, "obs": observe(&m), "out": out}));
    }
    json!({"id": id, "source": src, "outcome": "ok", "in_valid": in_valid, "first": first, "events": events})
}
