//! C17: replay operation histories on every real collection of a `walrus::Module` through the public API.
//!
//! A history is a list of abstract operations (add v / delete k / get k / iter / find v) whose ids are
//! *spec* ids (k = the k-th fresh allocation of the history).  Each adapter maps a payload token v to a
//! concrete item and back, performs the call under catch_unwind (a panic is "absent") and logs what came back.

use serde_json::{json, Value};
use std::panic::{catch_unwind, AssertUnwindSafe};
use walrus::ir::Value as IrValue;
use walrus::*;

#[derive(Clone, Debug)]
pub struct Op {
    pub op: String,
    pub v: u32,
    pub id: usize,
}

pub const COLLECTIONS: [&str; 15] = ["types", "exports", "imports", "memories", "tables", "globals", "data", "elements", "funcs", "customs", "locals",
    // the same collections driven through their by-name / typed entry points
    "exports_by_name", "imports_by_name", "customs_by_name", "customs_typed"];

pub fn kind_of(coll: &str) -> &'static str {
    match coll {
        "types" => "dedup",
        "locals" => "nodelete",
        _ => "plain",
    }
}

fn quiet<T>(f: impl FnOnce() -> T) -> Option<T> {
    catch_unwind(AssertUnwindSafe(f)).ok()
}

/// One typed collection behind a uniform interface; real ids are `Id::index()`.
trait Coll {
    fn add(&mut self, m: &mut Module, v: u32) -> usize;
    fn delete(&mut self, m: &mut Module, rid: usize) -> bool;
    fn get(&self, m: &Module, rid: usize) -> Option<u32>;
    fn iter(&self, m: &Module) -> Vec<(usize, u32)>;
    /// the same lookup through the collection's `get_mut` (None: it has none; Some(None): the id is reported absent)
    fn get_mut(&self, _m: &mut Module, _rid: usize) -> Option<Option<u32>> {
        None
    }
    /// the same listing through the collection's `iter_mut` (None: it has none)
    fn iter_mut(&self, _m: &mut Module) -> Option<Vec<(usize, u32)>> {
        None
    }
    fn len(&self, _m: &Module) -> i64 {
        -1
    }
    /// None: the collection has no lookup by value
    fn find(&self, _m: &Module, _v: u32) -> Option<i64> {
        None
    }
}

macro_rules! simple_coll {
    ($name:ident, $idty:ty, $field:ident, add: |$m:ident, $v:ident| $add:expr, tok: |$it:ident| $tok:expr $(, len: |$lm:ident| $len:expr)? $(, find: |$fm:ident, $fv:ident| $find:expr)? $(, muti: $muti:ident)?) => {
        #[derive(Default)]
        struct $name {
            ids: Vec<$idty>,
        }
        impl $name {
            fn real(&self, rid: usize) -> Option<$idty> {
                self.ids.iter().copied().find(|i| i.index() == rid)
            }
        }
        impl Coll for $name {
            fn add(&mut self, $m: &mut Module, $v: u32) -> usize {
                let id: $idty = $add;
                if !self.ids.contains(&id) {
                    self.ids.push(id);
                }
                id.index()
            }
            fn delete(&mut self, m: &mut Module, rid: usize) -> bool {
                let Some(id) = self.real(rid) else { return false };
                quiet(|| m.$field.delete(id)).is_some()
            }
            fn get(&self, m: &Module, rid: usize) -> Option<u32> {
                let id = self.real(rid)?;
                quiet(|| {
                    let $it = m.$field.get(id);
                    $tok
                })
            }
            fn get_mut(&self, m: &mut Module, rid: usize) -> Option<Option<u32>> {
                let Some(id) = self.real(rid) else { return Some(None) };
                Some(quiet(|| {
                    let $it = &*m.$field.get_mut(id);
                    $tok
                }))
            }
            fn iter(&self, m: &Module) -> Vec<(usize, u32)> {
                m.$field.iter().map(|$it| ($it.id().index(), $tok)).collect()
            }
            $( fn iter_mut(&self, m: &mut Module) -> Option<Vec<(usize, u32)>> {
                let $muti = ();
                let _ = $muti;
                Some(m.$field.iter_mut().map(|$it| ($it.id().index(), $tok)).collect())
            } )?
            $( fn len(&self, $lm: &Module) -> i64 { $len } )?
            $( fn find(&self, $fm: &Module, $fv: u32) -> Option<i64> { Some($find) } )?
        }
    };
}

fn tyvec(v: u32) -> Vec<ValType> {
    vec![ValType::I32; v as usize]
}

simple_coll!(Types, TypeId, types,
    add: |m, v| m.types.add(&tyvec(v), &[]),
    tok: |it| it.params().len() as u32,
    find: |m, v| m.types.find(&tyvec(v), &[]).map(|i| i.index() as i64).unwrap_or(-1));
simple_coll!(Memories, MemoryId, memories,
    add: |m, v| m.memories.add_local(false, false, v as u64, None, None),
    tok: |it| it.initial as u32,
    len: |m| m.memories.len() as i64,
    muti: yes);
simple_coll!(Tables, TableId, tables,
    add: |m, v| m.tables.add_local(false, v as u64, None, RefType::Funcref),
    tok: |it| it.initial as u32,
    muti: yes);
simple_coll!(Globals, GlobalId, globals,
    add: |m, v| m.globals.add_local(ValType::I32, false, false, ConstExpr::Value(IrValue::I32(v as i32))),
    tok: |it| match it.kind { GlobalKind::Local(ConstExpr::Value(IrValue::I32(x))) => x as u32, _ => 9999 });
simple_coll!(Datas, DataId, data,
    add: |m, v| m.data.add(DataKind::Passive, vec![v as u8]),
    tok: |it| it.value.first().copied().unwrap_or(255) as u32);
simple_coll!(Elements, ElementId, elements,
    add: |m, v| m.elements.add(ElementKind::Passive, ElementItems::Expressions(RefType::Funcref, vec![ConstExpr::RefNull(RefType::Funcref); v as usize])),
    tok: |it| match &it.items { ElementItems::Expressions(_, x) => x.len() as u32, ElementItems::Functions(x) => x.len() as u32 },
    muti: yes);
simple_coll!(Exports, ExportId, exports,
    add: |m, v| {
        let g = m.globals.add_local(ValType::I32, false, false, ConstExpr::Value(IrValue::I32(0)));
        m.exports.add(&format!("e{}", v), g)
    },
    tok: |it| it.name[1..].parse().unwrap_or(9999),
    muti: yes);
simple_coll!(Imports, ImportId, imports,
    add: |m, v| {
        let ty = m.types.add(&[], &[]);
        m.add_import_func("env", &format!("i{}", v), ty).1
    },
    tok: |it| it.name[1..].parse().unwrap_or(9999),
    find: |m, v| m.imports.find("env", &format!("i{}", v)).map(|i| i.index() as i64).unwrap_or(-1),
    muti: yes);
fn func_tok(f: &Function) -> u32 {
    // the value a function of the history was made with: the constant its body starts with
    match &f.kind {
        FunctionKind::Local(l) => match l.block(l.entry_block()).instrs.first() {
            Some((walrus::ir::Instr::Const(c), _)) => match c.value {
                IrValue::I32(v) => v as u32,
                _ => 9999,
            },
            _ => 9999,
        },
        _ => 9999,
    }
}
simple_coll!(Funcs, FunctionId, funcs,
    add: |m, v| {
        // every other function has no name: by_name must look past it
        let mut b = FunctionBuilder::new(&mut m.types, &[], &[]);
        if v % 2 == 0 {
            b.name(format!("f{}", v));
        }
        b.func_body().i32_const(v as i32).drop();
        b.finish(vec![], &mut m.funcs)
    },
    tok: |it| func_tok(it),
    find: |m, v| if v % 2 == 0 { m.funcs.by_name(&format!("f{}", v)).map(|i| i.index() as i64).unwrap_or(-1) } else { m.funcs.iter().find(|f| func_tok(f) == v).map(|f| f.id().index() as i64).unwrap_or(-1) },
    muti: yes);

// locals: no delete
#[derive(Default)]
struct Locals {
    ids: Vec<LocalId>,
}
fn local_ty(v: u32) -> ValType {
    match v % 4 {
        0 => ValType::I32,
        1 => ValType::I64,
        2 => ValType::F32,
        _ => ValType::F64,
    }
}
fn local_tok(t: ValType) -> u32 {
    match t {
        ValType::I32 => 0,
        ValType::I64 => 1,
        ValType::F32 => 2,
        ValType::F64 => 3,
        _ => 9,
    }
}
impl Coll for Locals {
    fn add(&mut self, m: &mut Module, v: u32) -> usize {
        let id = m.locals.add(local_ty(v));
        self.ids.push(id);
        id.index()
    }
    fn delete(&mut self, _m: &mut Module, _rid: usize) -> bool {
        false
    }
    fn get(&self, m: &Module, rid: usize) -> Option<u32> {
        let id = self.ids.iter().copied().find(|i| i.index() == rid)?;
        quiet(|| local_tok(m.locals.get(id).ty()))
    }
    fn iter(&self, m: &Module) -> Vec<(usize, u32)> {
        m.locals.iter().map(|l| (l.id().index(), local_tok(l.ty()))).collect()
    }
}

// custom sections: typed ids, Option-returning accessors
#[derive(Default)]
struct Customs {
    ids: Vec<UntypedCustomSectionId>,
    idx: Vec<usize>,
}
impl Coll for Customs {
    fn add(&mut self, m: &mut Module, v: u32) -> usize {
        let id: UntypedCustomSectionId = m.customs.add(RawCustomSection { name: format!("c{}", v), data: vec![v as u8] }).into();
        // UntypedCustomSectionId does not expose its arena index; its Debug output does
        let dbg = format!("{:?}", id);
        let n: usize = dbg.rsplit("idx: ").next().map(|t| t.chars().take_while(|c| c.is_ascii_digit()).collect::<String>()).and_then(|t| t.parse().ok()).unwrap_or(usize::MAX);
        if let Some(p) = self.ids.iter().position(|x| *x == id) {
            return self.idx[p];
        }
        self.ids.push(id);
        self.idx.push(n);
        n
    }
    fn delete(&mut self, m: &mut Module, rid: usize) -> bool {
        let Some(p) = self.idx.iter().position(|x| *x == rid) else { return false };
        let id = self.ids[p];
        matches!(quiet(|| m.customs.delete(id)), Some(Some(_)))
    }
    fn get(&self, m: &Module, rid: usize) -> Option<u32> {
        let p = self.idx.iter().position(|x| *x == rid)?;
        let id = self.ids[p];
        quiet(|| m.customs.get(id).map(|s| s.name()[1..].parse().unwrap_or(9999))).flatten()
    }
    fn iter(&self, m: &Module) -> Vec<(usize, u32)> {
        m.customs
            .iter()
            .map(|(id, s)| {
                let p = self.ids.iter().position(|x| *x == id).map(|p| self.idx[p]).unwrap_or(usize::MAX);
                (p, s.name()[1..].parse().unwrap_or(9999))
            })
            .collect()
    }
    fn iter_mut(&self, m: &mut Module) -> Option<Vec<(usize, u32)>> {
        Some(
            m.customs
                .iter_mut()
                .map(|(id, s)| {
                    let p = self.ids.iter().position(|x| *x == id).map(|p| self.idx[p]).unwrap_or(usize::MAX);
                    (p, s.name()[1..].parse().unwrap_or(9999))
                })
                .collect(),
        )
    }
}

// exports of functions, looked up by name (get_func + get_exported_func) and removed by name when the name is unique
#[derive(Default)]
struct ExportsByName {
    ids: Vec<ExportId>,
    last: Option<FunctionId>,
}
impl Coll for ExportsByName {
    fn add(&mut self, m: &mut Module, v: u32) -> usize {
        // every other export names the function the previous one names: one function under two names
        let f = match self.last {
            Some(f) if self.ids.len() % 2 == 1 => f,
            _ => {
                let mut b = FunctionBuilder::new(&mut m.types, &[], &[]);
                b.func_body().i32_const(v as i32).drop();
                b.finish(vec![], &mut m.funcs)
            }
        };
        self.last = Some(f);
        let id = m.exports.add(&format!("e{}", v), f);
        self.ids.push(id);
        id.index()
    }
    fn delete(&mut self, m: &mut Module, rid: usize) -> bool {
        let Some(id) = self.ids.iter().copied().find(|i| i.index() == rid) else { return false };
        let name = quiet(|| m.exports.get(id).name.clone());
        match name {
            Some(n) if m.exports.iter().filter(|e| e.name == n).count() == 1 => m.exports.remove(&n).is_ok(),
            _ => quiet(|| m.exports.delete(id)).is_some(),
        }
    }
    fn get(&self, m: &Module, rid: usize) -> Option<u32> {
        let id = self.ids.iter().copied().find(|i| i.index() == rid)?;
        quiet(|| m.exports.get(id).name[1..].parse().unwrap_or(9999))
    }
    fn iter(&self, m: &Module) -> Vec<(usize, u32)> {
        m.exports.iter().map(|e| (e.id().index(), e.name[1..].parse().unwrap_or(9999))).collect()
    }
    fn iter_mut(&self, m: &mut Module) -> Option<Vec<(usize, u32)>> {
        Some(m.exports.iter_mut().map(|e| (e.id().index(), e.name[1..].parse().unwrap_or(9999))).collect())
    }
    fn find(&self, m: &Module, v: u32) -> Option<i64> {
        let name = format!("e{}", v);
        Some(match m.exports.get_func(&name) {
            // a function exported once: its export, as get_exported_func finds it; exported under several names: the
            // export of that name (get_exported_func may return any of them)
            Ok(f) if m.exports.iter().filter(|e| matches!(e.item, ExportItem::Function(g) if g == f)).count() == 1 => m.exports.get_exported_func(f).map(|e| e.id().index() as i64).unwrap_or(-2),
            Ok(_) => m.exports.iter().find(|e| e.name == name).map(|e| e.id().index() as i64).unwrap_or(-2),
            Err(_) => -1,
        })
    }
}

// imports of functions, looked up by name (get_func + get_imported_func) and removed by name when the name is unique
#[derive(Default)]
struct ImportsByName {
    ids: Vec<ImportId>,
}
impl Coll for ImportsByName {
    fn add(&mut self, m: &mut Module, v: u32) -> usize {
        // the same field name appears under two module names (every other import goes to "alt")
        let ty = m.types.add(&[], &[]);
        let module = if self.ids.len() % 2 == 0 { "env" } else { "alt" };
        // import names need not be unique across kinds: every third function import is preceded by a global import of
        // the same (module, field) pair, which the by-name lookups of *function* imports must step over
        if self.ids.len() % 3 == 1 {
            m.add_import_global(module, &format!("i{}", v), ValType::I32, false, false);
        }
        let id = m.add_import_func(module, &format!("i{}", v), ty).1;
        self.ids.push(id);
        id.index()
    }
    fn delete(&mut self, m: &mut Module, rid: usize) -> bool {
        let Some(id) = self.ids.iter().copied().find(|i| i.index() == rid) else { return false };
        let key = quiet(|| (m.imports.get(id).module.clone(), m.imports.get(id).name.clone()));
        match key {
            Some((md, n)) if m.imports.iter().filter(|e| e.module == md && e.name == n).count() == 1 => m.imports.remove(&md, &n).is_ok(),
            _ => quiet(|| m.imports.delete(id)).is_some(),
        }
    }
    fn get(&self, m: &Module, rid: usize) -> Option<u32> {
        let id = self.ids.iter().copied().find(|i| i.index() == rid)?;
        quiet(|| m.imports.get(id).name[1..].parse().unwrap_or(9999))
    }
    fn iter(&self, m: &Module) -> Vec<(usize, u32)> {
        let f = |e: &Import| matches!(e.kind, ImportKind::Function(_));
        m.imports.iter().filter(|e| f(e)).map(|e| (e.id().index(), e.name[1..].parse().unwrap_or(9999))).collect()
    }
    fn iter_mut(&self, m: &mut Module) -> Option<Vec<(usize, u32)>> {
        let f = |e: &Import| matches!(e.kind, ImportKind::Function(_));
        Some(m.imports.iter_mut().filter(|e| f(e)).map(|e| (e.id().index(), e.name[1..].parse().unwrap_or(9999))).collect())
    }
    fn find(&self, m: &Module, v: u32) -> Option<i64> {
        for md in ["env", "alt"] {
            if let Ok(f) = m.imports.get_func(md, format!("i{}", v)) {
                return Some(m.imports.get_imported_func(f).map(|e| e.id().index() as i64).unwrap_or(-2));
            }
        }
        Some(-1)
    }
}

// raw custom sections removed by name (remove_raw) when the name is unique
#[derive(Default)]
struct CustomsByName {
    inner: Customs,
}
impl Coll for CustomsByName {
    fn add(&mut self, m: &mut Module, v: u32) -> usize {
        self.inner.add(m, v)
    }
    fn delete(&mut self, m: &mut Module, rid: usize) -> bool {
        match self.inner.get(m, rid) {
            Some(v) if m.customs.iter().filter(|(_, s)| s.name() == format!("c{}", v)).count() == 1 => {
                matches!(m.customs.remove_raw(&format!("c{}", v)), Some(r) if r.data == vec![v as u8])
            }
            _ => self.inner.delete(m, rid),
        }
    }
    fn get(&self, m: &Module, rid: usize) -> Option<u32> {
        self.inner.get(m, rid)
    }
    fn iter(&self, m: &Module) -> Vec<(usize, u32)> {
        self.inner.iter(m)
    }
}

/// a custom section type of the harness's own, reached through typed ids (get / get_mut / delete)
#[derive(Debug)]
struct Tagged {
    v: u32,
}
impl CustomSection for Tagged {
    fn name(&self) -> &str {
        "wv.tagged"
    }
    fn data(&self, _: &IdsToIndices) -> std::borrow::Cow<'_, [u8]> {
        vec![self.v as u8].into()
    }
}
#[derive(Default)]
struct CustomsTyped {
    ids: Vec<TypedCustomSectionId<Tagged>>,
    idx: Vec<usize>,
}
impl Coll for CustomsTyped {
    fn add(&mut self, m: &mut Module, v: u32) -> usize {
        let id = m.customs.add(Tagged { v });
        let un: UntypedCustomSectionId = id.into();
        let dbg = format!("{:?}", un);
        let n: usize = dbg.rsplit("idx: ").next().map(|t| t.chars().take_while(|c| c.is_ascii_digit()).collect::<String>()).and_then(|t| t.parse().ok()).unwrap_or(usize::MAX);
        self.ids.push(id);
        self.idx.push(n);
        n
    }
    fn delete(&mut self, m: &mut Module, rid: usize) -> bool {
        let Some(p) = self.idx.iter().position(|x| *x == rid) else { return false };
        let id = self.ids[p];
        matches!(quiet(|| m.customs.delete(id)), Some(Some(_)))
    }
    fn get(&self, m: &Module, rid: usize) -> Option<u32> {
        let p = self.idx.iter().position(|x| *x == rid)?;
        let id = self.ids[p];
        quiet(|| m.customs.get(id).map(|s| s.v)).flatten()
    }
    fn len(&self, m: &Module) -> i64 {
        // how many sections of the harness's type the module holds (get_typed sees the first of them)
        m.customs.iter().filter(|(_, s)| s.as_any().is::<Tagged>()).count() as i64
    }
    fn iter(&self, m: &Module) -> Vec<(usize, u32)> {
        m.customs
            .iter()
            .map(|(id, s)| {
                let p = self.ids.iter().position(|x| UntypedCustomSectionId::from(*x) == id).map(|p| self.idx[p]).unwrap_or(usize::MAX);
                (p, s.as_any().downcast_ref::<Tagged>().map(|t| t.v).unwrap_or(9999))
            })
            .collect()
    }
    fn find(&self, m: &Module, v: u32) -> Option<i64> {
        // get_typed: the first live section of the type; reported only when its value is the one asked for
        match m.customs.get_typed::<Tagged>() {
            Some(t) if t.v == v => {
                let first = self.iter(m).into_iter().next().map(|x| x.0 as i64).unwrap_or(-2);
                Some(first)
            }
            _ => None,
        }
    }
}

fn make(coll: &str) -> Box<dyn Coll> {
    match coll {
        "types" => Box::new(Types::default()),
        "exports" => Box::new(Exports::default()),
        "imports" => Box::new(Imports::default()),
        "memories" => Box::new(Memories::default()),
        "tables" => Box::new(Tables::default()),
        "globals" => Box::new(Globals::default()),
        "data" => Box::new(Datas::default()),
        "elements" => Box::new(Elements::default()),
        "funcs" => Box::new(Funcs::default()),
        "customs" => Box::new(Customs::default()),
        "locals" => Box::new(Locals::default()),
        "exports_by_name" => Box::new(ExportsByName::default()),
        "imports_by_name" => Box::new(ImportsByName::default()),
        "customs_by_name" => Box::new(CustomsByName::default()),
        "customs_typed" => Box::new(CustomsTyped::default()),
        _ => panic!("unknown collection {}", coll),
    }
}

/// Replay one history on one collection of a fresh Module; returns the trace line.
pub fn replay(coll: &str, hid: &str, ops: &[Op]) -> Value {
    let mut m = Module::default();
    let mut c = make(coll);
    // spec id (k-th fresh allocation) -> real id
    let mut fresh: Vec<usize> = vec![];
    let mut events = vec![];
    for op in ops {
        match op.op.as_str() {
            "add" => {
                let rid = c.add(&mut m, op.v);
                if !fresh.contains(&rid) {
                    fresh.push(rid);
                }
                events.push(json!({"op": "add", "v": op.v, "rid": rid}));
            }
            "delete" => {
                if coll == "locals" {
                    continue;
                }
                let Some(rid) = fresh.get(op.id - 1).copied() else { continue };
                let ok = c.delete(&mut m, rid);
                events.push(json!({"op": "delete", "rid": rid, "res": if ok { "ok" } else { "absent" }}));
            }
            "get" => {
                let Some(rid) = fresh.get(op.id - 1).copied() else { continue };
                let r = c.get(&m, rid);
                let mut ev = json!({"op": "get", "rid": rid, "found": r.is_some(), "v": r.unwrap_or(0)});
                if let Some(rm) = c.get_mut(&mut m, rid) {
                    ev["found_mut"] = json!(rm.is_some());
                    ev["v_mut"] = json!(rm.unwrap_or(0));
                }
                events.push(ev);
            }
            "iter" => {
                if coll == "customs_typed" {
                    // there is no raw section of that name: the answer is None and nothing else happens
                    let r = quiet(|| m.customs.remove_raw("wv.tagged"));
                    if !matches!(r, Some(None)) {
                        events.push(json!({"op": "iter", "items": [[usize::MAX, 0]], "len": -1}));
                        continue;
                    }
                }
                let items = c.iter(&m);
                let mut ev = json!({"op": "iter", "items": items, "len": c.len(&m)});
                if let Some(im) = quiet(|| c.iter_mut(&mut m)).unwrap_or(Some(vec![(usize::MAX, 0)])) {
                    ev["items_mut"] = json!(im);
                }
                events.push(ev);
            }
            "find" => {
                if let Some(r) = c.find(&m, op.v) {
                    events.push(json!({"op": "find", "v": op.v, "rid": r}));
                }
            }
            _ => {}
        }
    }
    json!({"id": format!("{}:{}", coll, hid), "coll": coll, "source": format!("arena:{}:{}", coll, hid), "events": events})
}

/// parse the `"CASE [...]"` lines TLC printed (Enum_Arena.tla)
pub fn read_histories(path: &str) -> Vec<Vec<Op>> {
    let text = std::fs::read_to_string(path).expect("history file");
    let mut out = vec![];
    for l in text.lines() {
        let l = l.trim();
        if !l.starts_with('"') {
            continue;
        }
        let Ok(inner) = serde_json::from_str::<String>(l) else { continue };
        let Some(payload) = inner.strip_prefix("CASE ") else { continue };
        let v: Value = serde_json::from_str(payload).unwrap();
        out.push(v.as_array().unwrap().iter().map(|o| Op { op: o["op"].as_str().unwrap().to_string(), v: o["v"].as_u64().unwrap() as u32, id: o["id"].as_u64().unwrap() as usize }).collect());
    }
    out
}

/// random histories of a given length
pub fn random_history(seed: u64, len: usize, nvalues: u32) -> Vec<Op> {
    use rand::Rng;
    let mut r = crate::gen::rng(seed);
    let mut ops = vec![];
    let mut allocated = 0usize;
    for _ in 0..len {
        let k = r.gen_range(0..10);
        let op = match k {
            0..=3 => {
                allocated += 1; // upper bound on the number of fresh allocations
                Op { op: "add".into(), v: r.gen_range(1..=nvalues), id: 0 }
            }
            4..=5 if allocated > 0 => Op { op: "delete".into(), v: 0, id: r.gen_range(1..=allocated) },
            6..=7 if allocated > 0 => Op { op: "get".into(), v: 0, id: r.gen_range(1..=allocated) },
            8 => Op { op: "find".into(), v: r.gen_range(1..=nvalues), id: 0 },
            _ => Op { op: "iter".into(), v: 0, id: 0 },
        };
        ops.push(op);
    }
    ops
}
