use std::collections::HashMap;
use std::time::Instant;
use rayon::prelude::*;
use wv::cases;

fn kv(args: &[String]) -> HashMap<String, String> {
    args.iter().filter_map(|a| a.split_once('=').map(|(k, v)| (k.to_string(), v.to_string()))).collect()
}

fn main() {
    let args: Vec<String> = std::env::args().collect();
    let a = kv(&args);
    let get = |k: &str, d: &str| a.get(k).cloned().unwrap_or(d.to_string());
    let seed: u64 = get("seed", "1").parse().unwrap();
    let n: u64 = get("n", "100").parse().unwrap();
    let out = get("out", "/dev/stdout");
    wv::run::silence_panics();
    match args.get(1).map(|s| s.as_str()) {
        Some("optable") => {
            let t = Instant::now();
            let tab = wv::optable::table();
            println!("candidates {} insts {} names_all {} names_ok {} in {:?}", tab.candidates, tab.insts.len(), tab.names_all.len(), tab.names_ok.len(), t.elapsed());
        }
        Some("gentest") => {
            let o = wv::gen::GenOpts::default();
            let mut bad = 0;
            let mut errs = std::collections::BTreeMap::new();
            for s in 0..n {
                let g = wv::gen::gen_module(s, &o);
                if let Err(e) = wv::absmod::validate(&g.bytes) {
                    bad += 1;
                    *errs.entry(e.split(" (at").next().unwrap().to_string()).or_insert(0) += 1;
                }
            }
            println!("n {} invalid {}", n, bad);
            for (e, c) in errs {
                println!("{:5} {}", c, e);
            }
        }
        Some("trace-structure") => {
            let inputs = cases::resolve_inputs(&get("inputs", "gen:100"), seed);
            let cfg = wv::run::Cfg::default();
            let lines: Vec<_> = inputs.par_iter().map(|i| cases::structure_case(i, &cfg)).collect();
            cases::write_lines(&out, &lines);
            println!("cases {}", lines.len());
        }
        Some("trace-bodies") => {
            let inputs = cases::resolve_inputs(&get("inputs", "gen:100"), seed);
            let cfg = wv::run::Cfg::default();
            let gc: u32 = get("gc", "0").parse().unwrap();
            let shards: usize = get("shards", "1").parse().unwrap();
            let lines: Vec<_> = inputs.par_iter().map(|i| cases::bodies_case(i, &cfg, gc)).collect();
            // outcomes that are not "ok" are reported on a side channel (the matcher only sees bodies)
            let mut bad = vec![];
            let mut good = vec![];
            for l in lines {
                if l["outcome"] != "ok" { bad.push(l) } else { good.push(l) }
            }
            let per = (good.len() + shards - 1) / shards.max(1);
            for (s, chunk) in good.chunks_mut(per.max(1)).enumerate() {
                cases::assign_bases(chunk);
                cases::write_lines(&format!("{}.{}", out, s), chunk);
            }
            cases::write_lines(&format!("{}.bad", out), &bad);
            println!("cases {} bad {}", good.len(), bad.len());
        }
        Some("trace-gc") => {
            let inputs = cases::resolve_inputs(&get("inputs", "gen:100"), seed);
            let cfg = wv::run::Cfg::default();
            let lines: Vec<_> = inputs.par_iter().map(|i| cases::gc_case(i, &cfg)).collect();
            cases::write_lines(&out, &lines);
            println!("cases {}", lines.len());
        }
        Some("input") => {
            // print the bytes of one input (hex) given its source string
            let src = get("source", "");
            let f: Vec<&str> = src.split(':').collect();
            let bytes = match f[0] {
                "gen" => wv::gen::gen_valid(f[2].parse().unwrap(), &cases::profile_opts(f[1])).0.bytes,
                "fixture" => cases::fixture_inputs().into_iter().find(|i| i.source == src).map(|i| i.bytes).unwrap_or_default(),
                "file" => std::fs::read(f[1]).unwrap(),
                _ => vec![],
            };
            println!("{}", cases::hex(&bytes));
        }
        _ => {
            eprintln!("usage: wv <cmd> key=value...");
            std::process::exit(2);
        }
    }
}
