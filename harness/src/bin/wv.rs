use std::collections::HashMap;
use std::time::Instant;
use rayon::prelude::*;
use wv::cases;

fn kv(args: &[String]) -> HashMap<String, String> {
    args.iter().filter_map(|a| a.split_once('=').map(|(k, v)| (k.to_string(), v.to_string()))).collect()
}

fn main() {
    // a panic that no producer caught (code under test panicked where the harness did not expect it) must not look like a
    // tool failure: it is reported on one line, which the driver turns into a finding
    if std::panic::catch_unwind(real_main).is_err() {
        let last = wv::run::LAST_PANIC.lock().map(|g| g.clone()).unwrap_or_default();
        println!("WV-PANIC {}", last);
        std::process::exit(101);
    }
}

fn real_main() {
    let args: Vec<String> = std::env::args().collect();
    let a = kv(&args);
    let get = |k: &str, d: &str| a.get(k).cloned().unwrap_or(d.to_string());
    let seed: u64 = get("seed", "1").parse().unwrap();
    let n: u64 = get("n", "100").parse().unwrap();
    let out = get("out", "/dev/stdout");
    wv::run::silence_panics();
    match args.get(1).map(|s| s.as_str()) {
        Some("optable") => {
            let t = Instant::now();
            let tab = wv::optable::table();
            println!("candidates {} insts {} names_all {} names_ok {} in {:?}", tab.candidates, tab.insts.len(), tab.names_all.len(), tab.names_ok.len(), t.elapsed());
        }
        Some("gentest") => {
            let o = wv::gen::GenOpts::default();
            let mut bad = 0;
            let mut errs = std::collections::BTreeMap::new();
            for s in 0..n {
                let g = wv::gen::gen_module(s, &o);
                if let Err(e) = wv::absmod::validate(&g.bytes) {
                    bad += 1;
                    *errs.entry(e.split(" (at").next().unwrap().to_string()).or_insert(0) += 1;
                }
            }
            println!("n {} invalid {}", n, bad);
            for (e, c) in errs {
                println!("{:5} {}", c, e);
            }
        }
        Some("trace-structure") => {
            let inputs = cases::resolve_inputs(&get("inputs", "gen:100"), seed);
            let cfg = wv::run::Cfg::default();
            let xcfg = wv::run::Cfg { xform: true, ..Default::default() };
            let lines: Vec<_> = inputs
                .par_iter()
                .enumerate()
                .flat_map(|(k, i)| {
                    let mut v = vec![cases::structure_case(i, &cfg)];
                    if k % 5 == 0 && !i.source.starts_with("fam:") {
                        let mut x = cases::structure_case(i, &xcfg);
                        x["id"] = serde_json::json!(format!("{}~xform", x["id"].as_str().unwrap_or("")));
                        v.push(x);
                    }
                    v
                })
                .collect();
            cases::write_lines(&out, &lines);
            println!("cases {}", lines.len());
        }
        Some("trace-bodies") => {
            let inputs = cases::resolve_inputs(&get("inputs", "gen:100"), seed);
            let cfg = wv::run::Cfg::default();
            let gc: u32 = get("gc", "0").parse().unwrap();
            let shards: usize = get("shards", "1").parse().unwrap();
            // every fourth input (the operator sweep aside) is emitted with preserve_code_transform on as well: the code
            // section is then assembled along another path
            let xcfg = wv::run::Cfg { xform: true, ..Default::default() };
            let lines: Vec<_> = inputs
                .par_iter()
                .enumerate()
                .flat_map(|(k, i)| {
                    let mut v = vec![cases::bodies_case(i, &cfg, gc)];
                    if k % 4 == 0 && !i.source.starts_with("ops") {
                        let mut x = cases::bodies_case(i, &xcfg, gc);
                        x["id"] = serde_json::json!(format!("{}~xform", x["id"].as_str().unwrap_or("")));
                        v.push(x);
                    }
                    v
                })
                .collect();
            // outcomes that are not "ok" are reported on a side channel (the matcher only sees bodies)
            let mut bad = vec![];
            let mut good = vec![];
            for l in lines {
                if l["outcome"] != "ok" { bad.push(l) } else { good.push(l) }
            }
            let per = (good.len() + shards - 1) / shards.max(1);
            for (s, chunk) in good.chunks_mut(per.max(1)).enumerate() {
                cases::assign_bases(chunk);
                cases::write_lines(&format!("{}.{}", out, s), chunk);
            }
            cases::write_lines(&format!("{}.bad", out), &bad);
            println!("cases {} bad {}", good.len(), bad.len());
        }
        Some("trace-gc") => {
            let inputs = cases::resolve_inputs(&get("inputs", "gen:100"), seed);
            let cfg = wv::run::Cfg::default();
            let mut lines: Vec<_> = inputs.par_iter().map(|i| cases::gc_case(i, &cfg)).collect();
            // modules built / edited through the API
            let built: u64 = get("built", "0").parse().unwrap();
            lines.extend((0..built).into_par_iter().map(|k| cases::built_gc_case(seed, k)).collect::<Vec<_>>());
            cases::write_lines(&out, &lines);
            println!("cases {}", lines.len());
        }
        Some("trace-lifecycle") => {
            let inputs = cases::resolve_inputs(&get("inputs", "gen:100"), seed);
            let shards: usize = get("shards", "1").parse().unwrap();
            let scripts: Vec<(&str, Vec<&str>)> = vec![
                ("A", vec!["parse", "emit", "emit", "reparse", "emit"]),
                ("B", vec!["parse", "gc", "emit", "emit"]),
                ("C", vec!["parse", "emit", "gc", "emit", "reparse", "emit", "emit"]),
            ];
            // digests of the same inputs computed by other processes: id -> [digest, ...]
            let mut procs: std::collections::HashMap<String, Vec<String>> = Default::default();
            for f in get("procs", "").split(',').filter(|x| !x.is_empty()) {
                for l in std::fs::read_to_string(f).unwrap().lines() {
                    let v: serde_json::Value = serde_json::from_str(l).unwrap();
                    procs.entry(v["id"].as_str().unwrap().to_string()).or_default().push(v["digest"].as_str().unwrap().to_string());
                }
            }
            let lines: Vec<_> = inputs
                .par_iter()
                .enumerate()
                .flat_map(|(n, i)| {
                    let mut v = vec![];
                    for (k, (tag, sc)) in scripts.iter().enumerate() {
                        // default switches for every input; one other switch vector per input and script
                        let mut cfgs = vec![wv::run::Cfg { probe: false, ..Default::default() }];
                        let x = (n * 7 + k * 3 + seed as usize) % 4;
                        cfgs.push(wv::run::Cfg { probe: false, names: x & 1 == 0, producers: x & 2 == 0, ..Default::default() });
                        if (n + k) % 2 == 0 {
                            // the code transform kept for custom sections: it is none of the business of which sections survive
                            cfgs.push(wv::run::Cfg { probe: false, xform: true, ..Default::default() });
                        }
                        for (ci, c) in cfgs.iter().enumerate() {
                            let mut h = cases::lifecycle_case(i, c, sc, &format!("{}{}", tag, ci));
                            h["procs"] = serde_json::json!(if ci == 0 { procs.get(&i.id).cloned().unwrap_or_default() } else { vec![] });
                            v.push(h);
                        }
                    }
                    v
                })
                .collect();
            let per = (lines.len() + shards - 1) / shards.max(1);
            for (s, chunk) in lines.chunks(per.max(1)).enumerate() {
                cases::write_lines(&format!("{}.{}", out, s), chunk);
            }
            println!("histories {}", lines.len());
        }
        Some("trace-config") => {
            let inputs = cases::resolve_inputs(&get("inputs", "gen:100"), seed);
            let lines: Vec<_> = inputs
                .par_iter()
                .map(|i| {
                    // DWARF generation is only switched on for inputs without debug sections or with well-formed synthesized ones
                    let has_debug = wv::absmod::project(&i.bytes).map(|m| m.sections.iter().any(|s| s.name.starts_with(".debug"))).unwrap_or(false);
                    cases::config_case(i, !has_debug || i.source.starts_with("dwarf:"))
                })
                .collect();
            cases::write_lines(&out, &lines);
            println!("cases {}", lines.len());
        }
        Some("trace-names") => {
            let inputs = cases::resolve_inputs(&get("inputs", "gen:100"), seed);
            let cfg = wv::run::Cfg::default();
            // every third input also with synthetic names for anonymous items switched on (names the input gives must win)
            let synth = wv::run::Cfg { synth: true, ..Default::default() };
            let lines: Vec<_> = inputs
                .par_iter()
                .enumerate()
                .flat_map(|(k, i)| {
                    let mut v = vec![cases::names_case(i, &cfg, 0), cases::names_case(i, &cfg, 1)];
                    if k % 3 == 0 {
                        v.push(cases::names_case(i, &synth, (k as u32 / 3) % 2));
                    }
                    if k % 3 == 1 {
                        // the other switches are none of the name section's business
                        let noprod = wv::run::Cfg { producers: false, ..Default::default() };
                        v.push(cases::names_case(i, &noprod, (k as u32 / 3) % 2));
                    }
                    v
                })
                .collect();
            cases::write_lines(&out, &lines);
            println!("cases {}", lines.len());
        }
        Some("trace-maps") => {
            let inputs = cases::resolve_inputs(&get("inputs", "gen:100"), seed);
            let lines: Vec<_> = inputs
                .par_iter()
                .enumerate()
                .flat_map(|(k, i)| {
                    let mut v = vec![cases::maps_case(i, 0), cases::maps_case(i, 1)];
                    if k % 3 == 0 {
                        v.push(cases::maps_case_cfg(i, 0, true));
                    }
                    if k % 3 == 1 || i.source.starts_with("dupimp") {
                        let c = cases::maps_case_full(i, 0, false, true);
                        if c["outcome"] != "skip-no-imported-function" {
                            v.push(c);
                        }
                    }
                    v
                })
                .collect();
            cases::write_lines(&out, &lines);
            println!("cases {}", lines.len());
        }
        Some("trace-features") => {
            let inputs = cases::resolve_inputs(&get("inputs", "gen:100"), seed);
            let lines: Vec<_> = inputs.par_iter().flat_map(|i| vec![cases::features_case(i, 0), cases::features_case(i, 1)]).collect();
            cases::write_lines(&out, &lines);
            println!("cases {}", lines.len());
        }
        Some("feature-facts") => {
            std::fs::write(&out, cases::feature_facts()).unwrap();
        }
        Some("trace-arena") => {
            // histories=<file of TLC CASE lines> random=<n>:<len>  -> one trace file per arena kind (plain, dedup, nodelete)
            let mut hs: Vec<(String, Vec<wv::arena::Op>)> = vec![];
            if let Some(f) = a.get("histories") {
                for (k, h) in wv::arena::read_histories(f).into_iter().enumerate() {
                    hs.push((format!("h{}", k), h));
                }
            }
            if let Some(r) = a.get("random") {
                let (cnt, len) = r.split_once(':').unwrap();
                for k in 0..cnt.parse::<u64>().unwrap() {
                    hs.push((format!("r{}-{}", seed, k), wv::arena::random_history(seed.wrapping_mul(7919).wrapping_add(k), len.parse().unwrap(), 3)));
                }
            }
            let mut by_kind: std::collections::BTreeMap<&str, Vec<serde_json::Value>> = Default::default();
            for coll in wv::arena::COLLECTIONS {
                let lines: Vec<_> = hs.par_iter().map(|(id, h)| wv::arena::replay(coll, id, h)).collect();
                by_kind.entry(wv::arena::kind_of(coll)).or_default().extend(lines);
            }
            let shards: usize = get("shards", "1").parse().unwrap();
            for (kind, lines) in by_kind {
                let per = (lines.len() + shards - 1) / shards.max(1);
                for (s, chunk) in lines.chunks(per.max(1)).enumerate() {
                    cases::write_lines(&format!("{}.{}.{}", out, kind, s), chunk);
                }
                println!("{} histories {}", kind, lines.len());
            }
        }
        Some("trace-valid") => {
            let inputs = cases::resolve_inputs(&get("inputs", "gen:100"), seed);
            let lines: Vec<_> = inputs.par_iter().flat_map(cases::valid_cases).collect();
            cases::write_lines(&out, &lines);
            println!("cases {}", lines.len());
        }
        Some("edit-inits") => {
            let inputs = cases::sample(cases::resolve_inputs(&get("inputs", "gen:100"), seed), get("sample", "0").parse().unwrap());
            let lines: Vec<_> = inputs.par_iter().filter_map(cases::edit_init).collect();
            cases::write_lines(&out, &lines);
            println!("inits {}", lines.len());
        }
        Some("trace-edits") => {
            // scripts=<file of TLC "CASE {id, edits}" lines>; inputs must be the same source list used for edit-inits
            let inputs = cases::sample(cases::resolve_inputs(&get("inputs", "gen:100"), seed), get("sample", "0").parse().unwrap());
            let by_id: std::collections::HashMap<String, &cases::Input> = inputs.iter().map(|i| (i.id.clone(), i)).collect();
            let text = std::fs::read_to_string(get("scripts", "")).unwrap();
            let mut jobs = vec![];
            for (n, l) in text.lines().enumerate() {
                let l = l.trim();
                if !l.starts_with('"') { continue; }
                let Ok(inner) = serde_json::from_str::<String>(l) else { continue };
                let Some(payload) = inner.strip_prefix("CASE ") else { continue };
                let v: serde_json::Value = serde_json::from_str(payload).unwrap();
                jobs.push((n, v));
            }
            let lines: Vec<_> = jobs.par_iter().filter_map(|(n, v)| {
                let inp = by_id.get(v["id"].as_str()?)?;
                Some(cases::edits_case(inp, v["edits"].as_array()?, &format!("s{}", n)))
            }).collect();
            let shards: usize = get("shards", "1").parse().unwrap();
            let per = (lines.len() + shards - 1) / shards.max(1);
            for (s, chunk) in lines.chunks(per.max(1)).enumerate() {
                cases::write_lines(&format!("{}.{}", out, s), chunk);
            }
            println!("histories {}", lines.len());
        }
        Some("trace-builder") => {
            let hs = wv::builder::read_histories(&get("histories", ""));
            let lines: Vec<_> = hs.par_iter().enumerate().map(|(k, h)| wv::builder::replay(&format!("b{}", k), h)).collect();
            let shards: usize = get("shards", "1").parse().unwrap();
            let per = (lines.len() + shards - 1) / shards.max(1);
            for (s, chunk) in lines.chunks(per.max(1)).enumerate() {
                cases::write_lines(&format!("{}.{}", out, s), chunk);
            }
            println!("histories {}", lines.len());
        }
        Some("trace-traversal") => {
            // functions of parsed inputs and of builder-made trees (TLC build histories)
            let inputs = cases::resolve_inputs(&get("inputs", "gen:100"), seed);
            let mut lines: Vec<serde_json::Value> = inputs
                .par_iter()
                .flat_map(|i| {
                    let cfg = wv::run::Cfg { probe: false, ..Default::default() };
                    match wv::run::parse(&i.bytes, &cfg) {
                        Ok(mut p) => wv::traversal::cases_of(&i.id, &i.source, &mut p.module),
                        Err(_) => vec![],
                    }
                })
                .collect();
            if let Some(h) = a.get("histories") {
                let hs = wv::builder::read_histories(h);
                let more: Vec<serde_json::Value> = hs
                    .par_iter()
                    .enumerate()
                    .flat_map(|(k, h)| {
                        let mut m = wv::builder::build_module(h);
                        wv::traversal::cases_of(&format!("built{}", k), &format!("builder:{}", k), &mut m)
                    })
                    .collect();
                lines.extend(more);
            }
            cases::write_lines(&out, &lines);
            println!("cases {}", lines.len());
        }
        Some("deep") => {
            // run in a process of its own: a stack overflow kills the process, which the driver reports
            let depth: usize = get("depth", "100000").parse().unwrap();
            let stack: usize = get("stack", "256").parse().unwrap();
            println!("{}", wv::traversal::deep_nesting(depth, stack));
        }
        Some("trace-parse") => {
            // sequential, one flushed line per case, so that a crash or hang identifies its input:
            // start=<k> skips the first k cases; a watchdog ends the process (exit 77) when a case takes too long
            use std::io::Write;
            let valid = cases::resolve_inputs(&get("inputs", "fixtures,gen:50"), seed);
            let all = cases::resolve_inputs(&get("extra", ""), seed);
            let mut corpus = wv::parsegate::corpus(seed, n as usize, &valid);
            corpus.extend(all);
            let start: usize = get("start", "0").parse().unwrap();
            let mut f = std::fs::OpenOptions::new().create(true).append(true).open(&out).unwrap();
            let beat = std::sync::Arc::new(std::sync::atomic::AtomicU64::new(0));
            let b2 = beat.clone();
            let limit: u64 = get("limit_s", "20").parse().unwrap();
            std::thread::spawn(move || {
                let mut last = 0u64;
                let mut since = std::time::Instant::now();
                loop {
                    std::thread::sleep(std::time::Duration::from_millis(200));
                    let now = b2.load(std::sync::atomic::Ordering::SeqCst);
                    if now != last {
                        last = now;
                        since = std::time::Instant::now();
                    } else if since.elapsed().as_secs() >= limit {
                        eprintln!("watchdog: case {} exceeded {}s", now, limit);
                        std::process::exit(77);
                    }
                }
            });
            let total = corpus.len() * 2;
            for (k, (inp, stable)) in corpus.iter().flat_map(|i| [(i, false), (i, true)]).enumerate() {
                if k < start {
                    continue;
                }
                beat.store(k as u64 + 1, std::sync::atomic::Ordering::SeqCst);
                let line = wv::parsegate::parse_case(inp, stable);
                serde_json::to_writer(&mut f, &line).unwrap();
                f.write_all(b"\n").unwrap();
                f.flush().unwrap();
            }
            println!("cases {}", total);
        }
        Some("parse-one") => {
            // describe case number k of the corpus (used for crash / hang records)
            let valid = cases::resolve_inputs(&get("inputs", "fixtures,gen:50"), seed);
            let mut corpus = wv::parsegate::corpus(seed, n as usize, &valid);
            corpus.extend(cases::resolve_inputs(&get("extra", ""), seed));
            let k: usize = get("k", "0").parse().unwrap();
            let inp = &corpus[k / 2];
            println!("{}", serde_json::json!({"id": format!("{}~{}", inp.id, if k % 2 == 1 { "stable" } else { "default" }), "source": inp.source, "hex": cases::hex(&inp.bytes[..inp.bytes.len().min(4096)])}));
        }
        Some("par-digests") => {
            let inputs = cases::resolve_inputs(&get("inputs", "par:20"), seed);
            // inputs are processed one after the other; the parallelism under test is walrus's own
            let lines: Vec<_> = inputs.iter().map(cases::par_case).collect();
            cases::write_lines(&out, &lines);
            println!("cases {} parallel_feature {}", lines.len(), cfg!(feature = "parallel"));
        }
        Some("trace-xform") => {
            let inputs = cases::resolve_inputs(&get("inputs", "gen:100"), seed);
            let lines: Vec<_> = inputs
                .par_iter()
                .enumerate()
                .flat_map(|(k, i)| {
                    let mut v = vec![cases::xform_case(i, "plain"), cases::xform_case(i, "gc"), cases::xform_case(i, "edited"), cases::xform_case(i, "plain-loc")];
                    if k % 3 == 0 {
                        v.push(cases::xform_case(i, "plain-dwarf"));
                    }
                    v
                })
                .collect();
            cases::write_lines(&out, &lines);
            println!("cases {}", lines.len());
        }
        Some("trace-dwarf") => {
            let inputs = cases::resolve_inputs(&get("inputs", "gen:100"), seed);
            let lines: Vec<_> = inputs
                .par_iter()
                .flat_map(|i| {
                    let mut v = vec![];
                    for (ver, span, nested) in [(4u16, false, false), (5, false, false), (4, true, false), (5, true, false), (4, false, true), (5, true, true)] {
                        for variant in ["plain", "gc", "edited"] {
                            if let Some(c) = cases::dwarf_case_full(i, ver, span, nested, variant) {
                                v.push(c);
                            }
                        }
                    }
                    v
                })
                .collect();
            cases::write_lines(&out, &lines);
            println!("cases {}", lines.len());
        }
        Some("trace-exec") => {
            let inputs = cases::resolve_inputs(&get("inputs", "gen:100:exec"), seed);
            let shards: usize = get("shards", "1").parse().unwrap();
            let gc: u32 = get("gc", "0").parse().unwrap();
            let all: Vec<Option<serde_json::Value>> = inputs.par_iter().map(|i| cases::exec_case(i, gc)).collect();
            let skipped = all.iter().filter(|x| x.is_none()).count();
            let (good, bad): (Vec<_>, Vec<_>) = all.into_iter().flatten().partition(|c| c["outcome"] == "ok");
            let per = (good.len() + shards - 1) / shards.max(1);
            for (s, chunk) in good.chunks(per.max(1)).enumerate() {
                cases::write_lines(&format!("{}.{}", out, s), chunk);
            }
            cases::write_lines(&format!("{}.bad", out), &bad);
            println!("cases {} outside_subset {} bad {}", good.len(), skipped, bad.len());
        }
        Some("digests") => {
            // one line per input: id and digest of  parse ; emit  with the default switches (separate process per call)
            let inputs = cases::resolve_inputs(&get("inputs", "gen:100"), seed);
            let cfg = wv::run::Cfg { probe: false, ..Default::default() };
            let lines: Vec<_> = inputs
                .par_iter()
                .map(|i| {
                    let rt = wv::run::roundtrip(&i.bytes, &cfg, 0);
                    serde_json::json!({"id": i.id, "digest": if rt.outcome == "ok" { wv::absmod::fnv(&rt.out) } else { rt.outcome.clone() }})
                })
                .collect();
            cases::write_lines(&out, &lines);
        }
        Some("trace-locals") => {
            // replay TLC-generated behaviours of Locals.tla on real Modules
            let hists = wv::builder::read_histories(&get("histories", ""));
            let lines: Vec<_> = hists.par_iter().enumerate().map(|(k, h)| wv::locals::replay(&format!("l{}", k), h)).collect();
            cases::write_lines(&out, &lines);
            println!("histories {}", lines.len());
        }
        Some("trace-producers") => {
            // replay TLC-generated behaviours of Producers.tla on real Modules
            let hists = wv::builder::read_histories(&get("histories", ""));
            let lines: Vec<_> = hists.par_iter().enumerate().map(|(k, h)| wv::producers::replay(&format!("p{}", k), h)).collect();
            cases::write_lines(&out, &lines);
            println!("histories {}", lines.len());
        }
        Some("trace-types") => {
            // replay TLC-generated behaviours of Types.tla on real Modules
            let hists = wv::builder::read_histories(&get("histories", ""));
            let shards: usize = get("shards", "1").parse().unwrap();
            // in pieces, so that the results of a large batch are never all in memory
            use std::io::Write;
            let mut files: Vec<_> = (0..shards).map(|s| std::io::BufWriter::new(std::fs::File::create(format!("{}.{}", out, s)).unwrap())).collect();
            let mut base = 0usize;
            for piece in hists.chunks(20_000) {
                let lines: Vec<_> = piece.par_iter().enumerate().map(|(k, h)| wv::types::replay(&format!("t{}", base + k), h)).collect();
                for (k, l) in lines.iter().enumerate() {
                    let f = &mut files[(base + k) % shards];
                    serde_json::to_writer(&mut *f, l).unwrap();
                    f.write_all(b"\n").unwrap();
                }
                base += piece.len();
            }
            for f in files.iter_mut() {
                f.flush().unwrap();
            }
            println!("histories {}", base);
        }
        Some("trace-namemap") => {
            // replay TLC-generated behaviours of NameMap.tla on real Modules
            let hists = wv::builder::read_histories(&get("histories", ""));
            let shards: usize = get("shards", "1").parse().unwrap();
            let lines: Vec<_> = hists.par_iter().enumerate().map(|(k, h)| wv::namemap::replay(&format!("n{}", k), h)).collect();
            for s in 0..shards {
                let part: Vec<_> = lines.iter().enumerate().filter(|(k, _)| k % shards == s).map(|(_, l)| l.clone()).collect();
                cases::write_lines(&format!("{}.{}", out, s), &part);
            }
            println!("histories {}", lines.len());
        }
        Some("input") => {
            // print the bytes of one input (hex) given its source string
            let src = get("source", "");
            let f: Vec<&str> = src.split(':').collect();
            let bytes = match f[0] {
                "gen" => wv::gen::gen_valid(f[2].parse().unwrap(), &cases::profile_opts(f[1])).0.bytes,
                "fixture" => cases::fixture_inputs().into_iter().find(|i| i.source == src).map(|i| i.bytes).unwrap_or_default(),
                "file" => std::fs::read(f[1]).unwrap(),
                // deterministic families: regenerate the family and pick the member with this source string
                "offsets" | "manyimp" | "ops" | "bodysizes" | "bodysizes-big" | "nocode" | "customname" | "endcheck" | "noncanon" | "trailing" | "badnames" | "reffuncexp" => cases::resolve_inputs(f[0], 0).into_iter().chain(cases::resolve_inputs("bodysizes-big", 0)).find(|i| i.source == src).map(|i| i.bytes).unwrap_or_default(),
                "exectab" | "dupimp" | "execbulk" => {
                    let (seed, k): (u64, u64) = (f[1].parse().unwrap(), f[2].parse().unwrap());
                    cases::resolve_inputs(&format!("{}:{}", f[0], k + 1), seed).into_iter().find(|i| i.source == src).map(|i| i.bytes).unwrap_or_default()
                }
                _ => vec![],
            };
            println!("{}", cases::hex(&bytes));
        }
        _ => {
            eprintln!("usage: wv <cmd> key=value...");
            std::process::exit(2);
        }
    }
}
