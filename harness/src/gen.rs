//! Actuator: structure-aware random generator of valid wasm modules (wasm-encoder only).
//!
//! Validity is by construction and re-checked by the independent validator; invalid products are
//! discarded and counted by the callers.

use crate::optable::{extern_heap, func_heap, table, OpInst, RefClass, Remap, T, TS};
use rand::rngs::StdRng;
use rand::seq::SliceRandom;
use rand::{Rng, SeedableRng};
use wasm_encoder as we;
use wasm_encoder::reencode::Reencode;
use wasm_encoder::Instruction as I;

#[derive(Clone, Debug, PartialEq)]
pub struct Feat {
    pub multi_value: bool,
    pub mutable_global: bool,
    pub sign_ext: bool,
    pub sat_float: bool,
    pub bulk: bool,
    pub reftypes: bool,
    pub simd: bool,
    pub relaxed_simd: bool,
    pub tail_call: bool,
    pub multi_memory: bool,
    pub memory64: bool,
    pub threads: bool,
}
impl Feat {
    pub fn all() -> Feat {
        Feat { multi_value: true, mutable_global: true, sign_ext: true, sat_float: true, bulk: true, reftypes: true, simd: true, relaxed_simd: true, tail_call: true, multi_memory: true, memory64: true, threads: true }
    }
    pub fn mvp() -> Feat {
        Feat { multi_value: false, mutable_global: false, sign_ext: false, sat_float: false, bulk: false, reftypes: false, simd: false, relaxed_simd: false, tail_call: false, multi_memory: false, memory64: false, threads: false }
    }
    pub fn stable() -> Feat {
        Feat { multi_memory: false, memory64: false, threads: false, ..Feat::all() }
    }
    pub fn allows_proposal(&self, p: &str) -> bool {
        match p {
            "mvp" => true,
            "sign_extension" => self.sign_ext,
            "saturating_float_to_int" => self.sat_float,
            "bulk_memory" => self.bulk,
            "reference_types" => self.reftypes,
            "simd" => self.simd,
            "relaxed_simd" => self.relaxed_simd,
            "threads" => self.threads,
            "tail_call" => self.tail_call,
            _ => false,
        }
    }
    pub fn names() -> [&'static str; 12] {
        ["multi_value", "mutable_global", "sign_ext", "sat_float", "bulk", "reftypes", "simd", "relaxed_simd", "tail_call", "multi_memory", "memory64", "threads"]
    }
    pub fn get(&self, n: &str) -> bool {
        match n {
            "multi_value" => self.multi_value,
            "mutable_global" => self.mutable_global,
            "sign_ext" => self.sign_ext,
            "sat_float" => self.sat_float,
            "bulk" => self.bulk,
            "reftypes" => self.reftypes,
            "simd" => self.simd,
            "relaxed_simd" => self.relaxed_simd,
            "tail_call" => self.tail_call,
            "multi_memory" => self.multi_memory,
            "memory64" => self.memory64,
            "threads" => self.threads,
            _ => false,
        }
    }
    pub fn set(&mut self, n: &str, v: bool) {
        match n {
            "multi_value" => self.multi_value = v,
            "mutable_global" => self.mutable_global = v,
            "sign_ext" => self.sign_ext = v,
            "sat_float" => self.sat_float = v,
            "bulk" => self.bulk = v,
            "reftypes" => self.reftypes = v,
            "simd" => self.simd = v,
            "relaxed_simd" => self.relaxed_simd = v,
            "tail_call" => self.tail_call = v,
            "multi_memory" => self.multi_memory = v,
            "memory64" => self.memory64 = v,
            "threads" => self.threads = v,
            _ => {}
        }
    }
    pub fn to_wasmparser(&self) -> wasmparser::WasmFeatures {
        use wasmparser::WasmFeatures as W;
        let mut f = W::empty();
        f.insert(W::FLOATS);
        let pairs = [
            (self.multi_value, W::MULTI_VALUE),
            (self.mutable_global, W::MUTABLE_GLOBAL),
            (self.sign_ext, W::SIGN_EXTENSION),
            (self.sat_float, W::SATURATING_FLOAT_TO_INT),
            (self.bulk, W::BULK_MEMORY),
            (self.reftypes, W::REFERENCE_TYPES),
            (self.simd, W::SIMD),
            (self.relaxed_simd, W::RELAXED_SIMD),
            (self.tail_call, W::TAIL_CALL),
            (self.multi_memory, W::MULTI_MEMORY),
            (self.memory64, W::MEMORY64),
            (self.threads, W::THREADS),
        ];
        for (on, flag) in pairs {
            if on {
                f.insert(flag);
            }
        }
        f
    }
}

#[derive(Clone, Debug)]
pub struct GenOpts {
    pub feat: Feat,
    /// restrict bodies to the instruction subset that Exec.tla interprets
    pub exec_subset: bool,
    pub max_funcs: usize,
    pub fuel: usize,
    pub names: bool,
    pub producers: bool,
    pub customs: bool,
    /// make active segments fit their targets (instantiation succeeds)
    pub instantiable: bool,
}
impl Default for GenOpts {
    fn default() -> Self {
        GenOpts { feat: Feat::all(), exec_subset: false, max_funcs: 6, fuel: 60, names: true, producers: true, customs: true, instantiable: false }
    }
}

#[derive(Clone, Debug, PartialEq)]
pub struct Sig {
    pub params: Vec<T>,
    pub results: Vec<T>,
}
#[derive(Clone, Debug)]
pub enum Expr {
    I32(i32),
    I64(i64),
    F32(u32),
    F64(u64),
    V128(u128),
    Global(u32),
    Func(u32),
    Null(T),
}
impl Expr {
    fn we(&self) -> we::ConstExpr {
        match self {
            Expr::I32(v) => we::ConstExpr::i32_const(*v),
            Expr::I64(v) => we::ConstExpr::i64_const(*v),
            Expr::F32(v) => we::ConstExpr::f32_const(f32::from_bits(*v)),
            Expr::F64(v) => we::ConstExpr::f64_const(f64::from_bits(*v)),
            Expr::V128(v) => we::ConstExpr::v128_const(*v as i128),
            Expr::Global(g) => we::ConstExpr::global_get(*g),
            Expr::Func(f) => we::ConstExpr::ref_func(*f),
            Expr::Null(T::FuncRef) => we::ConstExpr::ref_null(func_heap()),
            Expr::Null(_) => we::ConstExpr::ref_null(extern_heap()),
        }
    }
}
#[derive(Clone, Debug)]
pub struct FuncD {
    pub ty: u32,
    pub imported: bool,
}
#[derive(Clone, Debug)]
pub struct TableD {
    pub ety: T,
    pub min: u64,
    pub max: Option<u64>,
    pub t64: bool,
    pub imported: bool,
}
#[derive(Clone, Debug)]
pub struct MemD {
    pub min: u64,
    pub max: Option<u64>,
    pub m64: bool,
    pub shared: bool,
    pub imported: bool,
}
#[derive(Clone, Debug)]
pub struct GlobalD {
    pub ty: T,
    pub mutable: bool,
    pub imported: bool,
    pub init: Option<Expr>,
}
#[derive(Clone, Debug)]
pub enum ImpKind {
    Func(u32),
    Table(u32),
    Mem(u32),
    Global(u32),
}
#[derive(Clone, Debug)]
pub struct Imp {
    pub module: String,
    pub field: String,
    pub kind: ImpKind,
}
#[derive(Clone, Debug)]
pub struct ExportD {
    pub name: String,
    pub kind: we::ExportKind,
    pub idx: u32,
}
#[derive(Clone, Debug)]
pub enum ElemMode {
    Passive,
    Declared,
    Active { table: u32, offset: Expr, explicit_table: bool },
}
#[derive(Clone, Debug)]
pub struct ElemD {
    pub mode: ElemMode,
    pub ety: T,
    /// funcs form (indices) or expression form
    pub funcs_form: bool,
    pub items: Vec<Expr>,
}
#[derive(Clone, Debug)]
pub enum DataMode {
    Passive,
    Active { mem: u32, offset: Expr },
}
#[derive(Clone, Debug)]
pub struct DataD {
    pub mode: DataMode,
    pub bytes: Vec<u8>,
}
#[derive(Clone, Debug, Default)]
pub struct BodyD {
    pub locals: Vec<T>,
    pub instrs: Vec<I<'static>>,
}
#[derive(Clone, Debug)]
pub struct CustomD {
    /// section id after which this custom section is placed (0 = first)
    pub after: u8,
    pub name: String,
    pub data: Vec<u8>,
}
#[derive(Clone, Debug, Default)]
pub struct NamesD {
    pub module: Option<String>,
    pub funcs: Vec<(u32, String)>,
    pub locals: Vec<(u32, Vec<(u32, String)>)>,
    pub labels: Vec<(u32, Vec<(u32, String)>)>,
    pub types: Vec<(u32, String)>,
    pub tables: Vec<(u32, String)>,
    pub memories: Vec<(u32, String)>,
    pub globals: Vec<(u32, String)>,
    pub elems: Vec<(u32, String)>,
    pub data: Vec<(u32, String)>,
    pub present: bool,
}

#[derive(Clone, Debug, Default)]
pub struct Desc {
    pub types: Vec<Sig>,
    pub imports: Vec<Imp>,
    pub funcs: Vec<FuncD>,
    pub tables: Vec<TableD>,
    pub mems: Vec<MemD>,
    pub globals: Vec<GlobalD>,
    pub exports: Vec<ExportD>,
    pub start: Option<u32>,
    pub elems: Vec<ElemD>,
    pub data: Vec<DataD>,
    pub datacount: bool,
    pub bodies: Vec<BodyD>,
    pub customs: Vec<CustomD>,
    pub names: NamesD,
    pub producers: Option<Vec<(String, Vec<(String, String)>)>>,
}

impl Desc {
    pub fn n_imported_funcs(&self) -> usize {
        self.funcs.iter().filter(|f| f.imported).count()
    }
    pub fn intern(&mut self, s: Sig) -> u32 {
        if let Some(i) = self.types.iter().position(|t| *t == s) {
            return i as u32;
        }
        self.types.push(s);
        (self.types.len() - 1) as u32
    }
    pub fn encode(&self) -> Vec<u8> {
        let mut m = we::Module::new();
        let customs = |m: &mut we::Module, after: u8| {
            for c in self.customs.iter().filter(|c| c.after == after) {
                m.section(&we::CustomSection { name: c.name.as_str().into(), data: c.data.as_slice().into() });
            }
        };
        customs(&mut m, 0);
        if !self.types.is_empty() {
            let mut s = we::TypeSection::new();
            for t in &self.types {
                s.function(t.params.iter().map(|t| t.we()), t.results.iter().map(|t| t.we()));
            }
            m.section(&s);
        }
        customs(&mut m, 1);
        if !self.imports.is_empty() {
            let mut s = we::ImportSection::new();
            for imp in &self.imports {
                let ty: we::EntityType = match imp.kind {
                    ImpKind::Func(f) => we::EntityType::Function(self.funcs[f as usize].ty),
                    ImpKind::Table(t) => we::EntityType::Table(self.table_ty(t)),
                    ImpKind::Mem(t) => we::EntityType::Memory(self.mem_ty(t)),
                    ImpKind::Global(g) => we::EntityType::Global(self.global_ty(g)),
                };
                s.import(&imp.module, &imp.field, ty);
            }
            m.section(&s);
        }
        customs(&mut m, 2);
        if self.funcs.iter().any(|f| !f.imported) {
            let mut s = we::FunctionSection::new();
            for f in self.funcs.iter().filter(|f| !f.imported) {
                s.function(f.ty);
            }
            m.section(&s);
        }
        customs(&mut m, 3);
        if self.tables.iter().any(|t| !t.imported) {
            let mut s = we::TableSection::new();
            for (i, t) in self.tables.iter().enumerate() {
                if !t.imported {
                    s.table(self.table_ty(i as u32));
                }
            }
            m.section(&s);
        }
        customs(&mut m, 4);
        if self.mems.iter().any(|t| !t.imported) {
            let mut s = we::MemorySection::new();
            for (i, t) in self.mems.iter().enumerate() {
                if !t.imported {
                    s.memory(self.mem_ty(i as u32));
                }
            }
            m.section(&s);
        }
        customs(&mut m, 5);
        if self.globals.iter().any(|t| !t.imported) {
            let mut s = we::GlobalSection::new();
            for (i, g) in self.globals.iter().enumerate() {
                if !g.imported {
                    s.global(self.global_ty(i as u32), &g.init.as_ref().unwrap().we());
                }
            }
            m.section(&s);
        }
        customs(&mut m, 6);
        if !self.exports.is_empty() {
            let mut s = we::ExportSection::new();
            for e in &self.exports {
                s.export(&e.name, e.kind, e.idx);
            }
            m.section(&s);
        }
        customs(&mut m, 7);
        if let Some(f) = self.start {
            m.section(&we::StartSection { function_index: f });
        }
        customs(&mut m, 8);
        if !self.elems.is_empty() {
            let mut s = we::ElementSection::new();
            for e in &self.elems {
                let idxs: Vec<u32> = e.items.iter().map(|x| if let Expr::Func(f) = x { *f } else { 0 }).collect();
                let exprs: Vec<we::ConstExpr> = e.items.iter().map(|x| x.we()).collect();
                let rt = if e.ety == T::FuncRef { we::RefType::FUNCREF } else { we::RefType::EXTERNREF };
                let els = if e.funcs_form { we::Elements::Functions(&idxs) } else { we::Elements::Expressions(rt, &exprs) };
                match &e.mode {
                    ElemMode::Passive => {
                        s.passive(els);
                    }
                    ElemMode::Declared => {
                        s.declared(els);
                    }
                    ElemMode::Active { table, offset, explicit_table } => {
                        let t = if *table == 0 && !explicit_table { None } else { Some(*table) };
                        s.active(t, &offset.we(), els);
                    }
                }
            }
            m.section(&s);
        }
        customs(&mut m, 9);
        if self.datacount {
            m.section(&we::DataCountSection { count: self.data.len() as u32 });
        }
        customs(&mut m, 12);
        if !self.bodies.is_empty() {
            let mut s = we::CodeSection::new();
            for b in &self.bodies {
                // run-length encode the declared locals
                let mut decl: Vec<(u32, we::ValType)> = vec![];
                for t in &b.locals {
                    match decl.last_mut() {
                        Some((n, ty)) if *ty == t.we() => *n += 1,
                        _ => decl.push((1, t.we())),
                    }
                }
                let mut f = we::Function::new(decl);
                for i in &b.instrs {
                    f.instruction(i);
                }
                s.function(&f);
            }
            m.section(&s);
        }
        customs(&mut m, 10);
        if !self.data.is_empty() {
            let mut s = we::DataSection::new();
            for d in &self.data {
                match &d.mode {
                    DataMode::Passive => {
                        s.passive(d.bytes.iter().copied());
                    }
                    DataMode::Active { mem, offset } => {
                        s.active(*mem, &offset.we(), d.bytes.iter().copied());
                    }
                }
            }
            m.section(&s);
        }
        customs(&mut m, 11);
        if self.names.present {
            let n = &self.names;
            let mut s = we::NameSection::new();
            if let Some(x) = &n.module {
                s.module(x);
            }
            let nm = |v: &Vec<(u32, String)>| {
                let mut m = we::NameMap::new();
                for (i, s) in v {
                    m.append(*i, s);
                }
                m
            };
            let inm = |v: &Vec<(u32, Vec<(u32, String)>)>| {
                let mut m = we::IndirectNameMap::new();
                for (i, v) in v {
                    m.append(*i, &nm(v));
                }
                m
            };
            if !n.funcs.is_empty() {
                s.functions(&nm(&n.funcs));
            }
            if !n.locals.is_empty() {
                s.locals(&inm(&n.locals));
            }
            if !n.labels.is_empty() {
                s.labels(&inm(&n.labels));
            }
            if !n.types.is_empty() {
                s.types(&nm(&n.types));
            }
            if !n.tables.is_empty() {
                s.tables(&nm(&n.tables));
            }
            if !n.memories.is_empty() {
                s.memories(&nm(&n.memories));
            }
            if !n.globals.is_empty() {
                s.globals(&nm(&n.globals));
            }
            if !n.elems.is_empty() {
                s.elements(&nm(&n.elems));
            }
            if !n.data.is_empty() {
                s.data(&nm(&n.data));
            }
            m.section(&s);
        }
        if let Some(p) = &self.producers {
            let mut s = we::ProducersSection::new();
            for (field, vals) in p {
                let mut f = we::ProducersField::new();
                for (n, v) in vals {
                    f.value(n, v);
                }
                s.field(field, &f);
            }
            m.section(&s);
        }
        customs(&mut m, 13);
        m.finish()
    }
    fn table_ty(&self, i: u32) -> we::TableType {
        let t = &self.tables[i as usize];
        we::TableType { element_type: if t.ety == T::FuncRef { we::RefType::FUNCREF } else { we::RefType::EXTERNREF }, table64: t.t64, minimum: t.min, maximum: t.max, shared: false }
    }
    fn mem_ty(&self, i: u32) -> we::MemoryType {
        let t = &self.mems[i as usize];
        we::MemoryType { minimum: t.min, maximum: t.max, memory64: t.m64, shared: t.shared, page_size_log2: None }
    }
    fn global_ty(&self, i: u32) -> we::GlobalType {
        let g = &self.globals[i as usize];
        we::GlobalType { val_type: g.ty.we(), mutable: g.mutable, shared: false }
    }
}

pub fn rng(seed: u64) -> StdRng {
    StdRng::seed_from_u64(seed)
}

fn name(r: &mut StdRng, prefix: &str) -> String {
    const ALPH: &[&str] = &["a", "b", "x", "y", "foo", "bar", "mem", "tbl", "é", "_", "$", "0", ".", "long_name_with_many_chars"];
    let mut s = String::from(prefix);
    for _ in 0..r.gen_range(0..3) {
        s.push_str(ALPH.choose(r).unwrap());
    }
    s
}

fn value_types(o: &GenOpts) -> Vec<T> {
    if o.exec_subset {
        return vec![T::I32];
    }
    let mut v = vec![T::I32, T::I64, T::F32, T::F64];
    if o.feat.simd {
        v.push(T::V128);
    }
    if o.feat.reftypes {
        v.push(T::FuncRef);
        v.push(T::ExternRef);
    }
    v
}

fn rand_const(r: &mut StdRng, t: T, exec: bool) -> Expr {
    match t {
        T::I32 => {
            if exec {
                Expr::I32(*[0, 1, 2, 3, 5, 7, 8, 16, 100, 255, 1000, 32767, -1, -2].choose(r).unwrap())
            } else {
                Expr::I32(*[0, 1, -1, 2, 7, 63, 64, 65, 127, 128, 255, 8191, 8192, i32::MAX, i32::MIN, 0x1234_5678].choose(r).unwrap())
            }
        }
        T::I64 => Expr::I64(*[0i64, 1, -1, 64, 127, 128, 1 << 32, i64::MAX, i64::MIN, 0x1234_5678_9abc_def0].choose(r).unwrap()),
        T::F32 => Expr::F32(*[0u32, 0x8000_0000, 0x3f80_0000, 0x7f80_0000, 0x7fc0_0000, 0x7fa0_0001, 0xffc1_2345, 0x4049_0fdb].choose(r).unwrap()),
        T::F64 => Expr::F64(*[0u64, 1 << 63, 0x3ff0_0000_0000_0000, 0x7ff0_0000_0000_0000, 0x7ff8_0000_0000_0000, 0x7ff4_0000_0000_0001, 0x4009_21fb_5444_2d18].choose(r).unwrap()),
        T::V128 => Expr::V128(*[0u128, u128::MAX, 0x0102_0304_0506_0708_090a_0b0c_0d0e_0f80, 0x7fc0_0000_7fa0_0001_8000_0000_ffff_ffff].choose(r).unwrap()),
        T::FuncRef | T::ExternRef => Expr::Null(t),
    }
}

fn const_instr(e: &Expr) -> I<'static> {
    match e {
        Expr::I32(v) => I::I32Const(*v),
        Expr::I64(v) => I::I64Const(*v),
        Expr::F32(v) => I::F32Const(f32::from_bits(*v)),
        Expr::F64(v) => I::F64Const(f64::from_bits(*v)),
        Expr::V128(v) => I::V128Const(*v as i128),
        Expr::Global(g) => I::GlobalGet(*g),
        Expr::Func(f) => I::RefFunc(*f),
        Expr::Null(T::FuncRef) => I::RefNull(func_heap()),
        Expr::Null(_) => I::RefNull(extern_heap()),
    }
}

/// Generate a module description.
pub fn gen_desc(r: &mut StdRng, o: &GenOpts) -> Desc {
    let mut d = Desc::default();
    let vts = value_types(o);
    let ft = &o.feat;
    // ---- types
    d.types.push(Sig { params: vec![], results: vec![] });
    let ntypes = r.gen_range(1..6);
    for _ in 0..ntypes {
        let np = r.gen_range(0..4);
        let nr = if ft.multi_value && r.gen_bool(0.25) { r.gen_range(2..4) } else { r.gen_range(0..2) };
        let s = Sig { params: (0..np).map(|_| *vts.choose(r).unwrap()).collect(), results: (0..nr).map(|_| *vts.choose(r).unwrap()).collect() };
        // allow duplicate types now and then (type de-duplication)
        if r.gen_bool(0.15) {
            d.types.push(s);
        } else {
            d.intern(s);
        }
    }
    // ---- imports
    let nimp = if r.gen_bool(0.7) { r.gen_range(0..5) } else { 0 };
    for k in 0..nimp {
        let module = if r.gen_bool(0.5) { "env".to_string() } else { name(r, "m") };
        let field = format!("{}{}", name(r, "i"), k);
        let choice = r.gen_range(0..4);
        let kind = match choice {
            0 => {
                d.funcs.push(FuncD { ty: r.gen_range(0..d.types.len()) as u32, imported: true });
                ImpKind::Func(d.funcs.len() as u32 - 1)
            }
            1 if d.tables.is_empty() || ft.reftypes => {
                let t = gen_table(r, o, true);
                d.tables.push(t);
                ImpKind::Table(d.tables.len() as u32 - 1)
            }
            2 if d.mems.is_empty() || ft.multi_memory => {
                let m = gen_mem(r, o, true);
                d.mems.push(m);
                ImpKind::Mem(d.mems.len() as u32 - 1)
            }
            _ => {
                let ty = if o.exec_subset { T::I32 } else { *vts.choose(r).unwrap() };
                let mutable = ft.mutable_global && r.gen_bool(0.3);
                d.globals.push(GlobalD { ty, mutable, imported: true, init: None });
                ImpKind::Global(d.globals.len() as u32 - 1)
            }
        };
        // import names need not be unique: now and then reuse the (module, field) of an earlier import
        let (module, field) = if !d.imports.is_empty() && r.gen_bool(0.2) {
            let prev = d.imports.choose(r).unwrap();
            (prev.module.clone(), prev.field.clone())
        } else {
            (module, field)
        };
        d.imports.push(Imp { module, field, kind });
    }
    // ---- local funcs (declared now, bodies later)
    let nfuncs = r.gen_range(1..=o.max_funcs.max(1));
    for _ in 0..nfuncs {
        d.funcs.push(FuncD { ty: r.gen_range(0..d.types.len()) as u32, imported: false });
    }
    // ---- tables
    let ntab = if d.tables.is_empty() { r.gen_range(0..3) } else { r.gen_range(0..2) };
    for _ in 0..ntab {
        if d.tables.is_empty() || ft.reftypes {
            let t = gen_table(r, o, false);
            d.tables.push(t);
        }
    }
    // ---- memories
    let nmem = if d.mems.is_empty() { r.gen_range(0..3) } else { r.gen_range(0..2) };
    for _ in 0..nmem {
        if d.mems.is_empty() || ft.multi_memory {
            let m = gen_mem(r, o, false);
            d.mems.push(m);
        }
    }
    // ---- globals
    let nglob = if o.exec_subset { r.gen_range(1..5) } else { r.gen_range(0..5) };
    for _ in 0..nglob {
        let ty = if o.exec_subset { T::I32 } else { *vts.choose(r).unwrap() };
        let mutable = r.gen_bool(if o.exec_subset { 0.85 } else { 0.6 });
        // initialiser: const | global.get of an imported immutable global of the same type | ref.func | ref.null
        let imp_same: Vec<u32> = d.globals.iter().enumerate().filter(|(_, g)| g.imported && !g.mutable && g.ty == ty).map(|(i, _)| i as u32).collect();
        let init = if !imp_same.is_empty() && r.gen_bool(0.4) {
            Expr::Global(*imp_same.choose(r).unwrap())
        } else if ty == T::FuncRef && r.gen_bool(0.6) {
            Expr::Func(r.gen_range(0..d.funcs.len()) as u32)
        } else {
            rand_const(r, ty, o.exec_subset)
        };
        d.globals.push(GlobalD { ty, mutable, imported: false, init: Some(init) });
    }
    // ---- elements
    let nelem = if d.tables.is_empty() && !ft.bulk { 0 } else { r.gen_range(0..4) };
    for _ in 0..nelem {
        let mut modes = vec![];
        if !d.tables.is_empty() {
            modes.push(0);
            modes.push(0);
        }
        if ft.bulk {
            modes.push(1);
        }
        if ft.reftypes {
            modes.push(2);
        }
        if modes.is_empty() {
            break;
        }
        let mode_k = *modes.choose(r).unwrap();
        let (mode, ety) = match mode_k {
            0 => {
                let table = if ft.reftypes { r.gen_range(0..d.tables.len()) as u32 } else { 0 };
                let t = &d.tables[table as usize];
                let n_hint = r.gen_range(0..4u64);
                let offv = if o.instantiable { r.gen_range(0..=t.min.saturating_sub(n_hint).min(1000)) } else { r.gen_range(0..6) };
                let offty = if t.t64 { T::I64 } else { T::I32 };
                let imp_same: Vec<u32> = d.globals.iter().enumerate().filter(|(_, g)| g.imported && !g.mutable && g.ty == offty).map(|(i, _)| i as u32).collect();
                let offset = if !imp_same.is_empty() && r.gen_bool(0.3) && !o.instantiable {
                    Expr::Global(*imp_same.choose(r).unwrap())
                } else if t.t64 {
                    Expr::I64(offv as i64)
                } else {
                    Expr::I32(offv as i32)
                };
                (ElemMode::Active { table, offset, explicit_table: ft.reftypes && r.gen_bool(0.3) }, t.ety)
            }
            1 => (ElemMode::Passive, if ft.reftypes && !o.exec_subset && r.gen_bool(0.25) { T::ExternRef } else { T::FuncRef }),
            _ => (ElemMode::Declared, T::FuncRef),
        };
        let funcs_form = ety == T::FuncRef && (!ft.reftypes || r.gen_bool(0.5));
        // explicit-table or externref active segments only exist with the expression/explicit encodings
        let nitems = match (&mode, o.instantiable) {
            (ElemMode::Active { table, offset, .. }, true) => {
                let t = &d.tables[*table as usize];
                let off = match offset {
                    Expr::I32(v) => *v as u64,
                    Expr::I64(v) => *v as u64,
                    _ => 0,
                };
                r.gen_range(0..=t.min.saturating_sub(off).min(4))
            }
            _ => r.gen_range(0..5),
        };
        let mut items = vec![];
        for _ in 0..nitems {
            if ety == T::FuncRef {
                if funcs_form || r.gen_bool(0.7) {
                    items.push(Expr::Func(r.gen_range(0..d.funcs.len()) as u32));
                } else {
                    let gs: Vec<u32> = d.globals.iter().enumerate().filter(|(_, g)| g.imported && !g.mutable && g.ty == T::FuncRef).map(|(i, _)| i as u32).collect();
                    if !gs.is_empty() && r.gen_bool(0.5) {
                        items.push(Expr::Global(*gs.choose(r).unwrap()));
                    } else {
                        items.push(Expr::Null(T::FuncRef));
                    }
                }
            } else {
                let gs: Vec<u32> = d.globals.iter().enumerate().filter(|(_, g)| g.imported && !g.mutable && g.ty == T::ExternRef).map(|(i, _)| i as u32).collect();
                if !gs.is_empty() && r.gen_bool(0.6) {
                    items.push(Expr::Global(*gs.choose(r).unwrap()));
                } else {
                    items.push(Expr::Null(T::ExternRef));
                }
            }
        }
        let mut e = ElemD { mode, ety, funcs_form, items };
        if let ElemMode::Active { table, explicit_table, .. } = &mut e.mode {
            // MVP encoding (flag 0) requires table 0, funcref, function-index form
            if !ft.reftypes {
                *table = 0;
                *explicit_table = false;
                e.funcs_form = true;
            }
        }
        d.elems.push(e);
    }
    // ---- data
    let ndata = if d.mems.is_empty() && !ft.bulk { 0 } else { r.gen_range(0..4) };
    for _ in 0..ndata {
        let len = *[0usize, 1, 2, 3, 8, 127, 128, 300].choose(r).unwrap();
        let bytes: Vec<u8> = (0..len).map(|_| r.gen()).collect();
        let active = !d.mems.is_empty() && (!ft.bulk || r.gen_bool(0.6));
        let mode = if active {
            let mem = r.gen_range(0..d.mems.len()) as u32;
            let m = &d.mems[mem as usize];
            let cap = m.min * 65536;
            let offv = if o.instantiable { r.gen_range(0..=cap.saturating_sub(len as u64).min(70000)) } else { *[0u64, 1, 100, 65535, 65536, 70000].choose(r).unwrap() };
            let offty = if m.m64 { T::I64 } else { T::I32 };
            let imp_same: Vec<u32> = d.globals.iter().enumerate().filter(|(_, g)| g.imported && !g.mutable && g.ty == offty).map(|(i, _)| i as u32).collect();
            // instantiable modules too: the host gives an imported global a small value (Exec.tla: 11 + its tag), so the
            // segment fits whenever the memory has a page
            let offset = if !imp_same.is_empty() && r.gen_bool(0.3) && (!o.instantiable || m.min >= 1) {
                Expr::Global(*imp_same.choose(r).unwrap())
            } else if m.m64 {
                Expr::I64(offv as i64)
            } else {
                Expr::I32(offv as i32)
            };
            let bytes = if o.instantiable && (len as u64) > cap { vec![] } else { bytes };
            d.data.push(DataD { mode: DataMode::Active { mem, offset }, bytes });
            continue;
        } else {
            DataMode::Passive
        };
        if ft.bulk {
            d.data.push(DataD { mode, bytes });
        }
    }
    // ---- bodies
    let nimp = d.n_imported_funcs();
    let nf = d.funcs.len();
    for fi in nimp..nf {
        let b = BodyGen::run(r, o, &mut d, fi as u32);
        d.bodies.push(b);
    }
    // functions referenced by ref.func must be declared: add a declared/passive segment when needed
    let mut refd: Vec<u32> = vec![];
    for b in &d.bodies {
        for i in &b.instrs {
            if let I::RefFunc(f) = i {
                if !refd.contains(f) {
                    refd.push(*f);
                }
            }
        }
    }
    if !refd.is_empty() {
        let mode = if r.gen_bool(0.7) { ElemMode::Declared } else { ElemMode::Passive };
        let funcs_form = r.gen_bool(0.5);
        d.elems.push(ElemD { mode, ety: T::FuncRef, funcs_form, items: refd.iter().map(|f| Expr::Func(*f)).collect() });
    }
    // data count: required when bodies use memory.init / data.drop; optional otherwise
    let uses_data_ops = d.bodies.iter().any(|b| b.instrs.iter().any(|i| matches!(i, I::MemoryInit { .. } | I::DataDrop(_))));
    d.datacount = uses_data_ops || (ft.bulk && !d.data.is_empty() && r.gen_bool(0.3));
    // ---- exports
    let mut used = std::collections::HashSet::new();
    let mut add_export = |d: &mut Desc, r: &mut StdRng, kind: we::ExportKind, idx: u32| {
        let mut n = name(r, "e");
        while !used.insert(n.clone()) {
            n.push('_');
        }
        d.exports.push(ExportD { name: n, kind, idx });
    };
    let ex = o.exec_subset;
    for i in 0..d.funcs.len() {
        if r.gen_bool(if i >= nimp { if ex { 1.0 } else { 0.5 } } else { 0.15 }) {
            add_export(&mut d, r, we::ExportKind::Func, i as u32);
        }
    }
    if d.exports.is_empty() && r.gen_bool(0.9) {
        let last = (d.funcs.len() - 1) as u32;
        add_export(&mut d, r, we::ExportKind::Func, last);
    }
    for i in 0..d.tables.len() {
        if r.gen_bool(if ex { 0.9 } else { 0.3 }) {
            add_export(&mut d, r, we::ExportKind::Table, i as u32);
        }
    }
    for i in 0..d.mems.len() {
        if r.gen_bool(if ex { 0.9 } else { 0.4 }) {
            add_export(&mut d, r, we::ExportKind::Memory, i as u32);
        }
    }
    for i in 0..d.globals.len() {
        if r.gen_bool(if ex { 0.9 } else { 0.3 }) && (ft.mutable_global || !d.globals[i].mutable) {
            add_export(&mut d, r, we::ExportKind::Global, i as u32);
        }
    }
    // same entity exported twice now and then
    if !d.exports.is_empty() && r.gen_bool(0.15) {
        let e = d.exports.choose(r).unwrap().clone();
        add_export(&mut d, r, e.kind, e.idx);
    }
    // ---- start
    let voids: Vec<u32> = d.funcs.iter().enumerate().filter(|(_, f)| d.types[f.ty as usize] == Sig { params: vec![], results: vec![] }).map(|(i, _)| i as u32).collect();
    if !voids.is_empty() && r.gen_bool(0.25) {
        d.start = Some(*voids.choose(r).unwrap());
    }
    // ---- names
    if o.names && r.gen_bool(0.7) {
        let p = *[0.3, 0.6, 1.0].choose(r).unwrap();
        let n = &mut d.names;
        n.present = true;
        if r.gen_bool(0.6) {
            n.module = Some(name(r, "mod"));
        }
        for i in 0..d.funcs.len() {
            if r.gen_bool(p) {
                // now and then the name of the previous named function again (names need not be unique)
                let nm = match n.funcs.last() {
                    Some((_, prev)) if r.gen_bool(0.2) => prev.clone(),
                    _ => format!("f{}{}", i, name(r, "")),
                };
                n.funcs.push((i as u32, nm));
            }
        }
        for (k, b) in d.bodies.iter().enumerate() {
            let fi = nimp + k;
            let np = d.types[d.funcs[fi].ty as usize].params.len();
            let mut v = vec![];
            for l in 0..(np + b.locals.len()) {
                if r.gen_bool(p) {
                    v.push((l as u32, format!("l{}_{}{}", fi, l, name(r, ""))));
                }
            }
            if !v.is_empty() {
                n.locals.push((fi as u32, v));
            }
        }
        if r.gen_bool(0.2) && !d.bodies.is_empty() {
            n.labels.push((nimp as u32, vec![(0, "lbl".to_string())]));
        }
        for i in 0..d.types.len() {
            if r.gen_bool(p * 0.5) {
                n.types.push((i as u32, format!("t{}", i)));
            }
        }
        for i in 0..d.tables.len() {
            if r.gen_bool(p) {
                n.tables.push((i as u32, format!("tab{}", i)));
            }
        }
        for i in 0..d.mems.len() {
            if r.gen_bool(p) {
                n.memories.push((i as u32, format!("mem{}", i)));
            }
        }
        for i in 0..d.globals.len() {
            if r.gen_bool(p) {
                n.globals.push((i as u32, format!("g{}", i)));
            }
        }
        for i in 0..d.elems.len() {
            if r.gen_bool(p) {
                n.elems.push((i as u32, format!("el{}", i)));
            }
        }
        for i in 0..d.data.len() {
            if r.gen_bool(p) {
                n.data.push((i as u32, format!("d{}", i)));
            }
        }
        // a quarter of the name sections name entities of one kind only (every per-kind list but one is empty)
        if r.gen_bool(0.25) {
            let keep = r.gen_range(0..10);
            if keep != 0 {
                n.module = None;
            }
            if keep != 1 {
                n.funcs.clear();
            }
            if keep != 2 {
                n.locals.clear();
            }
            if keep != 3 {
                n.labels.clear();
            }
            if keep != 4 {
                n.types.clear();
            }
            if keep != 5 {
                n.tables.clear();
            }
            if keep != 6 {
                n.memories.clear();
            }
            if keep != 7 {
                n.globals.clear();
            }
            if keep != 8 {
                n.elems.clear();
            }
            if keep != 9 {
                n.data.clear();
            }
        }
    }
    // ---- producers
    if o.producers && r.gen_bool(0.5) {
        let mut fields = vec![];
        if r.gen_bool(0.7) {
            fields.push(("language".to_string(), vec![("Rust".to_string(), "".to_string())]));
        }
        if r.gen_bool(0.7) {
            let mut v = vec![("rustc".to_string(), "1.70.0".to_string())];
            if r.gen_bool(0.3) {
                v.push(("walrus".to_string(), "0.1.0".to_string()));
            }
            fields.push(("processed-by".to_string(), v));
        }
        if r.gen_bool(0.3) {
            fields.push(("sdk".to_string(), vec![("x".to_string(), "1".to_string()), ("y".to_string(), "2".to_string())]));
        }
        d.producers = Some(fields);
    }
    // ---- unknown custom sections
    if o.customs && r.gen_bool(0.5) {
        for k in 0..r.gen_range(1..4) {
            let after = r.gen_range(0..14) as u8;
            // names walrus does not interpret, including ones that merely resemble the names it does interpret
            // look-alikes of the names walrus interprets, and the names other tools' readers know (a delegated classifier may)
            const TRICKY: [&str; 25] = ["reloc..debug_info", "notes.debug", "x.debug_line", "reloc.name", "names", "name ", "producers2", "producer", "target_features", "sourceMappingURL", "linking", "dylink.0", "", "debug",
                "dylink", "reloc.CODE", "reloc.DATA", "metadata.code.branch_hint", "component-name", "core", "corestack", "coremodules", "coreinstances", "build_id", "external_debug_info"];
            let nm = if r.gen_bool(0.2) { "dup".to_string() } else if r.gen_bool(0.3) { TRICKY[r.gen_range(0..TRICKY.len())].to_string() } else { format!("{}{}", name(r, "c"), k) };
            let len = *[0usize, 1, 5, 200].choose(r).unwrap();
            // random bytes, or a few bytes such a reader would accept (a version, a section index, an empty vector)
            let data: Vec<u8> = if r.gen_bool(0.3) { [&[2u8][..], &[2, 0], &[1, 0], &[0], &[0, 0, 0], &[1, 4, 16, 4, 0, 0]].choose(r).unwrap().to_vec() } else { (0..len).map(|_| r.gen()).collect() };
            d.customs.push(CustomD { after, name: nm, data });
        }
    }
    d
}

fn gen_table(r: &mut StdRng, o: &GenOpts, _imported: bool) -> TableD {
    let ety = if o.feat.reftypes && !o.exec_subset && r.gen_bool(0.3) { T::ExternRef } else { T::FuncRef };
    let min = r.gen_range(0..8);
    let max = if r.gen_bool(0.5) { Some(min + r.gen_range(0..8)) } else { None };
    let t64 = o.feat.memory64 && !o.exec_subset && r.gen_bool(0.15);
    TableD { ety, min, max, t64, imported: _imported }
}
fn gen_mem(r: &mut StdRng, o: &GenOpts, imported: bool) -> MemD {
    let m64 = o.feat.memory64 && !o.exec_subset && r.gen_bool(0.3);
    let shared = o.feat.threads && !o.exec_subset && r.gen_bool(0.3);
    let min = r.gen_range(0..3);
    let max = if shared || r.gen_bool(0.5) { Some(min + r.gen_range(0..3)) } else { None };
    MemD { min, max, m64, shared, imported }
}

// ---- function bodies -------------------------------------------------------------------------

struct Label {
    /// types a branch to this label must provide
    tys: Vec<T>,
}

pub struct BodyGen<'a> {
    r: &'a mut StdRng,
    o: &'a GenOpts,
    d: &'a mut Desc,
    locals: Vec<T>,
    nparams: usize,
    labels: Vec<Label>,
    out: Vec<I<'static>>,
    fuel: i64,
    results: Vec<T>,
}

const EXEC_BIN: &[&str] = &["I32Add", "I32Sub", "I32Mul", "I32And", "I32Or", "I32Xor", "I32Eq", "I32Ne", "I32LtU", "I32GtU", "I32LeU", "I32GeU"];
const EXEC_UN: &[&str] = &["I32Eqz"];

impl<'a> BodyGen<'a> {
    pub fn run(r: &'a mut StdRng, o: &'a GenOpts, d: &'a mut Desc, fidx: u32) -> BodyD {
        let sig = d.types[d.funcs[fidx as usize].ty as usize].clone();
        let vts = value_types(o);
        let mut locals = sig.params.clone();
        let ndecl = r.gen_range(0..5);
        for _ in 0..ndecl {
            locals.push(*vts.choose(r).unwrap());
        }
        let fuel = r.gen_range(0..=o.fuel as i64);
        let mut g = BodyGen { r, o, d, nparams: sig.params.len(), locals, labels: vec![Label { tys: sig.results.clone() }], out: vec![], fuel, results: sig.results.clone() };
        let n = g.r.gen_range(0..6);
        for _ in 0..n {
            g.stmt(0);
        }
        for t in sig.results.clone() {
            g.expr(t, 0);
        }
        g.out.push(I::End);
        BodyD { locals: g.locals[g.nparams..].to_vec(), instrs: g.out }
    }

    fn feat(&self) -> &Feat {
        &self.o.feat
    }

    fn leaf(&mut self, t: T) {
        let ls: Vec<u32> = self.locals.iter().enumerate().filter(|(_, x)| **x == t).map(|(i, _)| i as u32).collect();
        let gs: Vec<u32> = self.d.globals.iter().enumerate().filter(|(_, g)| g.ty == t).map(|(i, _)| i as u32).collect();
        let k = self.r.gen_range(0..10);
        if k < 4 && !ls.is_empty() {
            let l = *ls.choose(self.r).unwrap();
            self.out.push(I::LocalGet(l));
        } else if k < 6 && !gs.is_empty() {
            let g = *gs.choose(self.r).unwrap();
            self.out.push(I::GlobalGet(g));
        } else if t == T::FuncRef && k < 8 {
            let f = self.r.gen_range(0..self.d.funcs.len()) as u32;
            self.out.push(I::RefFunc(f));
        } else {
            let c = rand_const(self.r, t, self.o.exec_subset);
            self.out.push(const_instr(&c));
        }
    }

    fn classes_available(&self, refs: &[(RefClass, u32)]) -> bool {
        refs.iter().all(|(c, _)| !self.candidates(*c).is_empty())
    }
    fn candidates(&self, c: RefClass) -> Vec<u32> {
        let d = &*self.d;
        match c {
            RefClass::FuncVoid => d.funcs.iter().enumerate().filter(|(_, f)| d.types[f.ty as usize].params.is_empty() && d.types[f.ty as usize].results.is_empty()).map(|(i, _)| i as u32).collect(),
            RefClass::TypeVoid => vec![0],
            RefClass::TableFunc => d.tables.iter().enumerate().filter(|(_, t)| t.ety == T::FuncRef && !t.t64).map(|(i, _)| i as u32).collect(),
            RefClass::TableExtern => d.tables.iter().enumerate().filter(|(_, t)| t.ety == T::ExternRef && !t.t64).map(|(i, _)| i as u32).collect(),
            RefClass::Mem32 => d.mems.iter().enumerate().filter(|(_, t)| !t.m64).map(|(i, _)| i as u32).collect(),
            RefClass::Mem64 => d.mems.iter().enumerate().filter(|(_, t)| t.m64).map(|(i, _)| i as u32).collect(),
            RefClass::Global(t) => d.globals.iter().enumerate().filter(|(_, g)| g.ty == t && g.mutable).map(|(i, _)| i as u32).collect(),
            RefClass::Data => (0..d.data.len() as u32).collect(),
            RefClass::ElemFunc => d.elems.iter().enumerate().filter(|(_, e)| e.ety == T::FuncRef).map(|(i, _)| i as u32).collect(),
            RefClass::ElemExtern => d.elems.iter().enumerate().filter(|(_, e)| e.ety == T::ExternRef).map(|(i, _)| i as u32).collect(),
        }
    }

    fn eligible(&self, inst: &OpInst) -> bool {
        if !self.feat().allows_proposal(inst.proposal) {
            return false;
        }
        if !self.feat().reftypes && (inst.inputs.iter().chain(inst.outputs.iter()).any(|t| t.is_ref())) {
            return false;
        }
        if !self.feat().simd && inst.inputs.iter().chain(inst.outputs.iter()).any(|t| *t == T::V128) {
            return false;
        }
        // multi-byte table/memory immediates need reference-types / multi-memory
        for (c, _) in &inst.refs {
            match c {
                RefClass::Mem64 if !self.feat().memory64 => return false,
                RefClass::TableExtern if !self.feat().reftypes => return false,
                _ => {}
            }
        }
        if self.o.exec_subset {
            return false;
        }
        self.classes_available(&inst.refs)
    }

    /// emit a table-driven operator with freshly generated operands; returns false if none was eligible
    fn table_op(&mut self, out: Option<T>, depth: usize) -> bool {
        let tab = table();
        let Some(pool) = tab.by_output.get(&out) else { return false };
        for _ in 0..8 {
            let k = *pool.choose(self.r).unwrap();
            let inst = &tab.insts[k];
            if !self.eligible(inst) {
                continue;
            }
            let mut remap = Remap {
                func: self.candidates(RefClass::FuncVoid),
                ty: 0,
                table_func: self.candidates(RefClass::TableFunc),
                table_extern: self.candidates(RefClass::TableExtern),
                mem32: self.candidates(RefClass::Mem32),
                mem64: self.candidates(RefClass::Mem64),
                global: [vec![], vec![], vec![], vec![], vec![], vec![], vec![]],
                data: self.candidates(RefClass::Data),
                elem_func: self.candidates(RefClass::ElemFunc),
                elem_extern: self.candidates(RefClass::ElemExtern),
                state: self.r.gen(),
            };
            for t in TS {
                remap.global[t.idx()] = self.candidates(RefClass::Global(t));
            }
            // single-memory / single-table modules without the relevant proposal must use index 0
            let Ok(ins) = remap.instruction(inst.op.clone()) else { continue };
            for t in inst.inputs.clone() {
                self.expr(t, depth + 1);
            }
            self.out.push(ins);
            return true;
        }
        false
    }

    /// a bulk memory / table statement of the Exec.tla subset: (destination, source, count) are small constants or expressions
    fn exec_bulk_stmt(&mut self, depth: usize) {
        let tabs = self.candidates(RefClass::TableFunc);
        let mems = self.candidates(RefClass::Mem32);
        let elems = self.candidates(RefClass::ElemFunc);
        let ndata = self.d.data.len() as u32;
        let multi_t = self.feat().reftypes;
        let multi_m = self.feat().multi_memory;
        let pick = |r: &mut StdRng, v: &[u32], multi: bool| if multi { *v.choose(r).unwrap() } else { v[0] };
        let mut small = |s: &mut Self, hi: i32| {
            if s.r.gen_bool(0.8) {
                let v = s.r.gen_range(0..hi);
                s.out.push(I::I32Const(v));
            } else {
                s.expr(T::I32, depth + 1);
            }
        };
        let nfuncs = self.d.funcs.len() as u32;
        let reff = |s: &mut Self| {
            if s.r.gen_bool(0.25) || nfuncs == 0 {
                s.out.push(I::RefNull(we::HeapType::Abstract { shared: false, ty: we::AbstractHeapType::Func }));
            } else {
                let f = s.r.gen_range(0..nfuncs);
                s.out.push(I::RefFunc(f));
            }
        };
        match self.r.gen_range(0..12) {
            8 if !tabs.is_empty() && multi_t => {
                small(self, 6);
                reff(self);
                let t = pick(self.r, &tabs, multi_t);
                self.out.push(I::TableSet(t));
            }
            9 if !tabs.is_empty() && multi_t => {
                small(self, 6);
                reff(self);
                small(self, 3);
                let t = pick(self.r, &tabs, multi_t);
                self.out.push(I::TableFill(t));
            }
            10 if !tabs.is_empty() && multi_t => {
                reff(self);
                small(self, 3);
                let t = pick(self.r, &tabs, multi_t);
                self.out.push(I::TableGrow(t));
                self.out.push(I::Drop);
            }
            11 if !tabs.is_empty() && multi_t => {
                small(self, 8);
                let t = pick(self.r, &tabs, multi_t);
                self.out.push(I::TableGet(t));
                self.out.push(I::RefIsNull);
                self.out.push(I::Drop);
            }
            0 | 1 if !tabs.is_empty() && (multi_t || tabs[0] == 0) => {
                small(self, 6);
                small(self, 6);
                small(self, 3);
                let (a, b) = (pick(self.r, &tabs, multi_t), pick(self.r, &tabs, multi_t));
                self.out.push(I::TableCopy { src_table: a, dst_table: b });
            }
            2 if !tabs.is_empty() && !elems.is_empty() && (multi_t || tabs[0] == 0) => {
                small(self, 6);
                small(self, 3);
                small(self, 3);
                let (t, e) = (pick(self.r, &tabs, multi_t), *elems.choose(self.r).unwrap());
                self.out.push(I::TableInit { elem_index: e, table: t });
            }
            3 if !elems.is_empty() => {
                let e = *elems.choose(self.r).unwrap();
                self.out.push(I::ElemDrop(e));
            }
            4 if !mems.is_empty() && (multi_m || mems[0] == 0) => {
                small(self, 16);
                small(self, 16);
                small(self, 6);
                let (a, b) = (pick(self.r, &mems, multi_m), pick(self.r, &mems, multi_m));
                self.out.push(I::MemoryCopy { src_mem: a, dst_mem: b });
            }
            5 if !mems.is_empty() && (multi_m || mems[0] == 0) => {
                small(self, 16);
                small(self, 300);
                small(self, 6);
                let m = pick(self.r, &mems, multi_m);
                self.out.push(I::MemoryFill(m));
            }
            6 if !mems.is_empty() && ndata > 0 && (multi_m || mems[0] == 0) => {
                small(self, 16);
                small(self, 4);
                small(self, 4);
                let m = pick(self.r, &mems, multi_m);
                let dseg = self.r.gen_range(0..ndata);
                self.out.push(I::MemoryInit { mem: m, data_index: dseg });
            }
            7 if ndata > 0 => {
                let dseg = self.r.gen_range(0..ndata);
                self.out.push(I::DataDrop(dseg));
            }
            _ => {}
        }
    }

    fn exec_op(&mut self, depth: usize) {
        // i32 expression of the Exec.tla subset
        let k = self.r.gen_range(0..10);
        let tabs = self.candidates(RefClass::TableFunc);
        if k == 9 && self.feat().reftypes && !tabs.is_empty() && self.r.gen_bool(0.5) {
            let t = *tabs.choose(self.r).unwrap();
            self.out.push(I::TableSize(t));
            return;
        }
        let mems32 = self.candidates(RefClass::Mem32);
        if k == 8 && !mems32.is_empty() && self.r.gen_bool(0.25) && (self.feat().multi_memory || mems32[0] == 0) {
            let m = if self.feat().multi_memory { *mems32.choose(self.r).unwrap() } else { mems32[0] };
            let delta = self.r.gen_range(0..3);
            self.out.push(I::I32Const(delta));
            self.out.push(I::MemoryGrow(m));
            return;
        }
        if k < 6 {
            let name = *EXEC_BIN.choose(self.r).unwrap();
            self.expr(T::I32, depth + 1);
            self.expr(T::I32, depth + 1);
            self.out.push(match name {
                "I32Add" => I::I32Add,
                "I32Sub" => I::I32Sub,
                "I32Mul" => I::I32Mul,
                "I32And" => I::I32And,
                "I32Or" => I::I32Or,
                "I32Xor" => I::I32Xor,
                "I32Eq" => I::I32Eq,
                "I32Ne" => I::I32Ne,
                "I32LtU" => I::I32LtU,
                "I32GtU" => I::I32GtU,
                "I32LeU" => I::I32LeU,
                _ => I::I32GeU,
            });
        } else if k < 7 {
            let _ = EXEC_UN;
            self.expr(T::I32, depth + 1);
            self.out.push(I::I32Eqz);
        } else if k < 9 && !self.d.mems.is_empty() {
            // address kept small so loads usually stay in bounds
            self.expr(T::I32, depth + 1);
            let m = self.r.gen_range(0..self.d.mems.len()) as u32;
            let ma = we::MemArg { offset: self.r.gen_range(0..4), align: 0, memory_index: m };
            if self.r.gen_bool(0.5) {
                self.out.push(I::I32Load8U(ma));
            } else {
                self.out.push(I::I32Load(ma));
            }
        } else if !self.d.mems.is_empty() && self.r.gen_bool(0.5) {
            let m = self.r.gen_range(0..self.d.mems.len()) as u32;
            self.out.push(I::MemorySize(m));
        } else {
            self.leaf(T::I32);
        }
    }

    fn block_type(&mut self, params: &[T], results: &[T]) -> we::BlockType {
        if params.is_empty() && results.is_empty() {
            we::BlockType::Empty
        } else if params.is_empty() && results.len() == 1 && !(self.feat().multi_value && self.r.gen_bool(0.2)) {
            we::BlockType::Result(results[0].we())
        } else {
            we::BlockType::FunctionType(self.d.intern(Sig { params: params.to_vec(), results: results.to_vec() }))
        }
    }

    pub fn expr(&mut self, t: T, depth: usize) {
        self.fuel -= 1;
        if self.fuel <= 0 || depth > 5 {
            self.leaf(t);
            return;
        }
        let k = self.r.gen_range(0..100);
        match k {
            0..=24 => self.leaf(t),
            25..=54 => {
                if self.o.exec_subset {
                    self.exec_op(depth);
                } else if !self.table_op(Some(t), depth) {
                    self.leaf(t);
                }
            }
            55..=59 => {
                // local.tee
                let ls: Vec<u32> = self.locals.iter().enumerate().filter(|(_, x)| **x == t).map(|(i, _)| i as u32).collect();
                if ls.is_empty() {
                    self.leaf(t);
                } else {
                    self.expr(t, depth + 1);
                    let l = *ls.choose(self.r).unwrap();
                    self.out.push(I::LocalTee(l));
                }
            }
            60..=66 => {
                // block (result t)
                let bt = self.block_type(&[], &[t]);
                self.out.push(I::Block(bt));
                self.labels.push(Label { tys: vec![t] });
                let n = self.r.gen_range(0..3);
                for _ in 0..n {
                    self.stmt(depth + 1);
                }
                self.expr(t, depth + 1);
                self.labels.pop();
                self.out.push(I::End);
            }
            67..=73 => {
                // if (result t)
                self.expr(T::I32, depth + 1);
                let bt = self.block_type(&[], &[t]);
                self.out.push(I::If(bt));
                self.labels.push(Label { tys: vec![t] });
                if self.r.gen_bool(0.4) {
                    self.stmt(depth + 1);
                }
                self.expr(t, depth + 1);
                self.out.push(I::Else);
                if self.r.gen_bool(0.4) {
                    self.stmt(depth + 1);
                }
                self.expr(t, depth + 1);
                self.labels.pop();
                self.out.push(I::End);
            }
            74..=80 => {
                // call a function whose single result is t
                let fs: Vec<u32> = self.d.funcs.iter().enumerate().filter(|(_, f)| self.d.types[f.ty as usize].results == vec![t]).map(|(i, _)| i as u32).collect();
                if fs.is_empty() {
                    self.leaf(t);
                } else {
                    let f = *fs.choose(self.r).unwrap();
                    let sig = self.d.types[self.d.funcs[f as usize].ty as usize].clone();
                    let tabs = self.candidates(RefClass::TableFunc);
                    if !tabs.is_empty() && self.r.gen_bool(0.3) {
                        for p in &sig.params {
                            self.expr(*p, depth + 1);
                        }
                        self.expr(T::I32, depth + 1);
                        let tb = if self.feat().reftypes { *tabs.choose(self.r).unwrap() } else { tabs[0] };
                        if tb != 0 && !self.feat().reftypes {
                            self.out.push(I::Drop);
                            self.out.push(I::Call(f));
                        } else {
                            self.out.push(I::CallIndirect { type_index: self.d.funcs[f as usize].ty, table_index: tb });
                        }
                    } else {
                        for p in &sig.params {
                            self.expr(*p, depth + 1);
                        }
                        self.out.push(I::Call(f));
                    }
                }
            }
            81..=86 => {
                // select
                self.expr(t, depth + 1);
                self.expr(t, depth + 1);
                self.expr(T::I32, depth + 1);
                if t.is_ref() || (self.feat().reftypes && self.r.gen_bool(0.2)) {
                    self.out.push(I::TypedSelect(t.we()));
                } else {
                    self.out.push(I::Select);
                }
            }
            87..=91 => {
                // loop (result t)
                let bt = self.block_type(&[], &[t]);
                self.out.push(I::Loop(bt));
                self.labels.push(Label { tys: vec![] });
                if self.r.gen_bool(0.5) {
                    self.stmt(depth + 1);
                }
                self.expr(t, depth + 1);
                self.labels.pop();
                self.out.push(I::End);
            }
            92..=95 => {
                // value carried across a br_if to an enclosing label of type [t]
                let ls: Vec<usize> = self.labels.iter().enumerate().filter(|(_, l)| l.tys == vec![t]).map(|(i, _)| i).collect();
                if ls.is_empty() {
                    self.leaf(t);
                } else {
                    let li = *ls.choose(self.r).unwrap();
                    let depth_rel = (self.labels.len() - 1 - li) as u32;
                    self.expr(t, depth + 1);
                    self.expr(T::I32, depth + 1);
                    self.out.push(I::BrIf(depth_rel));
                }
            }
            _ => {
                // block with parameters (multi-value)
                if self.feat().multi_value && !self.o.exec_subset && self.r.gen_bool(0.35) {
                    // an *empty* construct (or one holding only nops) whose block type is a function type that
                    // probably nothing else in the module names: (t, p2) -> (t, p2) is the identity
                    let p2 = *value_types(self.o).choose(self.r).unwrap();
                    self.expr(t, depth + 1);
                    self.expr(p2, depth + 1);
                    let bt = self.block_type(&[t, p2], &[t, p2]);
                    match self.r.gen_range(0..3) {
                        0 => self.out.push(I::Block(bt)),
                        1 => self.out.push(I::Loop(bt)),
                        _ => {
                            self.expr(T::I32, depth + 1);
                            self.out.push(I::If(bt));
                            if self.r.gen_bool(0.5) {
                                self.out.push(I::Nop);
                            }
                            self.out.push(I::Else);
                        }
                    }
                    if self.r.gen_bool(0.3) {
                        self.out.push(I::Nop);
                    }
                    self.out.push(I::End);
                    self.out.push(I::Drop);
                } else if self.feat().multi_value && !self.o.exec_subset {
                    let p = *value_types(self.o).choose(self.r).unwrap();
                    self.expr(p, depth + 1);
                    let bt = self.block_type(&[p], &[t]);
                    self.out.push(I::Block(bt));
                    self.labels.push(Label { tys: vec![t] });
                    self.out.push(I::Drop);
                    self.expr(t, depth + 1);
                    self.labels.pop();
                    self.out.push(I::End);
                } else {
                    self.leaf(t);
                }
            }
        }
    }

    fn branch_values(&mut self, li: usize, depth: usize) {
        let tys = self.labels[li].tys.clone();
        for t in tys {
            self.expr(t, depth + 1);
        }
    }

    fn dead_tail(&mut self, depth: usize) {
        // code after a terminator: still type-correct, never executed
        if self.r.gen_bool(0.5) {
            let n = self.r.gen_range(1..3);
            for _ in 0..n {
                self.stmt(depth + 1);
            }
        }
    }

    pub fn stmt(&mut self, depth: usize) {
        self.fuel -= 1;
        if self.fuel <= 0 || depth > 5 {
            if self.r.gen_bool(0.3) {
                self.out.push(I::Nop);
            }
            return;
        }
        let vts = value_types(self.o);
        let k = self.r.gen_range(0..100);
        match k {
            0..=5 => self.out.push(I::Nop),
            6..=15 if self.feat().multi_value && !self.o.exec_subset && self.r.gen_bool(0.15) => {
                // a construct that takes parameters and returns nothing: (p) -> ()
                let p = *vts.choose(self.r).unwrap();
                self.expr(p, depth + 1);
                let bt = self.block_type(&[p], &[]);
                match self.r.gen_range(0..3) {
                    0 => {
                        self.out.push(I::Block(bt));
                        self.out.push(I::Drop);
                    }
                    1 => {
                        self.out.push(I::Loop(bt));
                        self.out.push(I::Drop);
                    }
                    _ => {
                        self.expr(T::I32, depth + 1);
                        self.out.push(I::If(bt));
                        self.out.push(I::Drop);
                        self.out.push(I::Else);
                        self.out.push(I::Drop);
                    }
                }
                self.out.push(I::End);
            }
            6..=15 => {
                let t = *vts.choose(self.r).unwrap();
                self.expr(t, depth + 1);
                // in the executable subset a computed value should be observable: prefer a global over dropping it
                let gs: Vec<u32> = self.d.globals.iter().enumerate().filter(|(_, g)| g.mutable && g.ty == t).map(|(i, _)| i as u32).collect();
                if self.o.exec_subset && !gs.is_empty() && self.r.gen_bool(0.8) {
                    let g = *gs.choose(self.r).unwrap();
                    self.out.push(I::GlobalSet(g));
                } else {
                    self.out.push(I::Drop);
                }
            }
            16..=27 => {
                if self.locals.is_empty() {
                    return;
                }
                let l = self.r.gen_range(0..self.locals.len());
                self.expr(self.locals[l], depth + 1);
                self.out.push(I::LocalSet(l as u32));
            }
            28..=34 => {
                let gs: Vec<u32> = self.d.globals.iter().enumerate().filter(|(_, g)| g.mutable).map(|(i, _)| i as u32).collect();
                if gs.is_empty() {
                    return;
                }
                let g = *gs.choose(self.r).unwrap();
                self.expr(self.d.globals[g as usize].ty, depth + 1);
                self.out.push(I::GlobalSet(g));
            }
            35..=46 => {
                if self.o.exec_subset && self.feat().bulk && self.r.gen_bool(0.3) {
                    self.exec_bulk_stmt(depth);
                } else if self.o.exec_subset {
                    if !self.d.mems.is_empty() {
                        self.expr(T::I32, depth + 1);
                        self.expr(T::I32, depth + 1);
                        let m = self.r.gen_range(0..self.d.mems.len()) as u32;
                        let ma = we::MemArg { offset: self.r.gen_range(0..4), align: 0, memory_index: m };
                        if self.r.gen_bool(0.5) {
                            self.out.push(I::I32Store8(ma));
                        } else {
                            self.out.push(I::I32Store(ma));
                        }
                    }
                } else {
                    self.table_op(None, depth);
                }
            }
            47..=53 => {
                let bt = self.block_type(&[], &[]);
                self.out.push(I::Block(bt));
                self.labels.push(Label { tys: vec![] });
                let n = self.r.gen_range(0..4);
                for _ in 0..n {
                    self.stmt(depth + 1);
                }
                self.labels.pop();
                self.out.push(I::End);
            }
            54..=58 => {
                let bt = self.block_type(&[], &[]);
                self.out.push(I::Loop(bt));
                self.labels.push(Label { tys: vec![] });
                let n = self.r.gen_range(0..3);
                for _ in 0..n {
                    self.stmt(depth + 1);
                }
                // a conditional back edge
                if self.r.gen_bool(0.5) {
                    self.expr(T::I32, depth + 1);
                    self.out.push(I::BrIf(0));
                }
                self.labels.pop();
                self.out.push(I::End);
            }
            59..=66 => {
                self.expr(T::I32, depth + 1);
                let bt = self.block_type(&[], &[]);
                self.out.push(I::If(bt));
                self.labels.push(Label { tys: vec![] });
                let n = self.r.gen_range(0..3);
                for _ in 0..n {
                    self.stmt(depth + 1);
                }
                if self.r.gen_bool(0.6) {
                    self.out.push(I::Else);
                    let n = self.r.gen_range(0..3);
                    for _ in 0..n {
                        self.stmt(depth + 1);
                    }
                }
                self.labels.pop();
                self.out.push(I::End);
            }
            67..=72 => {
                // br_if to any label, values dropped afterwards
                let li = self.r.gen_range(0..self.labels.len());
                let rel = (self.labels.len() - 1 - li) as u32;
                self.branch_values(li, depth);
                self.expr(T::I32, depth + 1);
                self.out.push(I::BrIf(rel));
                for _ in 0..self.labels[li].tys.len() {
                    self.out.push(I::Drop);
                }
            }
            73..=77 => {
                let li = self.r.gen_range(0..self.labels.len());
                let rel = (self.labels.len() - 1 - li) as u32;
                self.branch_values(li, depth);
                self.out.push(I::Br(rel));
                self.dead_tail(depth);
            }
            78..=81 => {
                // br_table over labels that share the default's types
                let li = self.r.gen_range(0..self.labels.len());
                let tys = self.labels[li].tys.clone();
                let same: Vec<usize> = self.labels.iter().enumerate().filter(|(_, l)| l.tys == tys).map(|(i, _)| i).collect();
                self.branch_values(li, depth);
                self.expr(T::I32, depth + 1);
                let n = self.r.gen_range(0..4);
                let top = self.labels.len() - 1;
                let targets: Vec<u32> = (0..n).map(|_| (top - *same.choose(self.r).unwrap()) as u32).collect();
                self.out.push(I::BrTable(targets.into(), (top - li) as u32));
                self.dead_tail(depth);
            }
            82..=84 => {
                for t in self.results.clone() {
                    self.expr(t, depth + 1);
                }
                self.out.push(I::Return);
                self.dead_tail(depth);
            }
            85..=86 => {
                self.out.push(I::Unreachable);
                self.dead_tail(depth);
            }
            87..=93 => {
                // call anything, drop its results
                let f = self.r.gen_range(0..self.d.funcs.len()) as u32;
                let sig = self.d.types[self.d.funcs[f as usize].ty as usize].clone();
                for p in &sig.params {
                    self.expr(*p, depth + 1);
                }
                self.out.push(I::Call(f));
                for _ in &sig.results {
                    self.out.push(I::Drop);
                }
            }
            94..=96 => {
                // tail call to a function with the same results
                if !self.feat().tail_call || self.o.exec_subset {
                    return;
                }
                let fs: Vec<u32> = self.d.funcs.iter().enumerate().filter(|(_, f)| self.d.types[f.ty as usize].results == self.results).map(|(i, _)| i as u32).collect();
                if fs.is_empty() {
                    return;
                }
                let f = *fs.choose(self.r).unwrap();
                let sig = self.d.types[self.d.funcs[f as usize].ty as usize].clone();
                for p in &sig.params {
                    self.expr(*p, depth + 1);
                }
                let tabs = self.candidates(RefClass::TableFunc);
                if !tabs.is_empty() && self.r.gen_bool(0.3) {
                    self.expr(T::I32, depth + 1);
                    self.out.push(I::ReturnCallIndirect { type_index: self.d.funcs[f as usize].ty, table_index: *tabs.choose(self.r).unwrap() });
                } else {
                    self.out.push(I::ReturnCall(f));
                }
                self.dead_tail(depth);
            }
            _ => {
                // multi-value block with parameters and several results
                if !self.feat().multi_value || self.o.exec_subset {
                    return;
                }
                let p = *vts.choose(self.r).unwrap();
                let r1 = *vts.choose(self.r).unwrap();
                let r2 = *vts.choose(self.r).unwrap();
                self.expr(p, depth + 1);
                let bt = self.block_type(&[p], &[r1, r2]);
                let is_loop = self.r.gen_bool(0.3);
                self.out.push(if is_loop { I::Loop(bt) } else { I::Block(bt) });
                self.labels.push(Label { tys: if is_loop { vec![p] } else { vec![r1, r2] } });
                self.out.push(I::Drop);
                self.expr(r1, depth + 1);
                self.expr(r2, depth + 1);
                self.labels.pop();
                self.out.push(I::End);
                self.out.push(I::Drop);
                self.out.push(I::Drop);
            }
        }
    }
}

/// A generated module: bytes plus the description it came from.
pub struct Generated {
    pub desc: Desc,
    pub bytes: Vec<u8>,
}

pub fn gen_module(seed: u64, o: &GenOpts) -> Generated {
    let mut r = rng(seed);
    let desc = gen_desc(&mut r, o);
    let bytes = desc.encode();
    Generated { desc, bytes }
}

/// Generate until the independent validator accepts (under the generator's own feature set).
/// Returns (module, number of discarded invalid products).
pub fn gen_valid(seed: u64, o: &GenOpts) -> (Generated, u32) {
    let mut discarded = 0;
    let mut s = seed;
    loop {
        let g = gen_module(s, o);
        if crate::absmod::validate_with(&g.bytes, o.feat.to_wasmparser()).is_ok() {
            return (g, discarded);
        }
        discarded += 1;
        s = s.wrapping_mul(6364136223846793005).wrapping_add(1442695040888963407);
        if discarded > 200 {
            panic!("generator cannot produce a valid module for seed {}", seed);
        }
    }
}
