"""Shared machinery of ./check: building, running TLC, collecting verdicts, evidence, findings."""
import json, os, re, subprocess, sys, time, hashlib, shutil

ROOT = os.path.dirname(os.path.dirname(os.path.abspath(__file__)))
SPEC = os.path.join(ROOT, "spec")
HARNESS = os.path.join(ROOT, "harness")
WORK = os.path.join(ROOT, ".work")
WV = os.path.join(HARNESS, "target", "release", "wv")
WV_PAR = os.path.join(HARNESS, "target-par", "release", "wv")
REPO = "/repo"


class ToolError(Exception):
    pass


def log(*a):
    print(*a, flush=True)


class HarnessPanic(Exception):
    def __init__(self, cmd, msg):
        Exception.__init__(self, msg)
        self.cmd, self.msg = cmd, msg


def _limit_harness_memory():
    # the harness (with the code under test inside) may not take the machine down: an unbounded allocation fails inside
    # the child, which then dies and is reported like a panic
    import resource
    resource.setrlimit(resource.RLIMIT_AS, (24 << 30, 24 << 30))


def sh(cmd, timeout=1800, env=None, cwd=None, check=True):
    e = dict(os.environ)
    if env:
        e.update(env)
    is_wv = (not isinstance(cmd, str)) and os.path.basename(cmd[0]) == "wv"
    try:
        p = subprocess.run(cmd, shell=isinstance(cmd, str), stdout=subprocess.PIPE, stderr=subprocess.STDOUT, text=True, timeout=timeout, env=e, cwd=cwd,
                           preexec_fn=_limit_harness_memory if is_wv else None)
    except subprocess.TimeoutExpired:
        raise ToolError("timeout: %s" % (cmd if isinstance(cmd, str) else " ".join(cmd)))
    if check and ((p.returncode == 101 and "WV-PANIC" in p.stdout) or p.returncode in (-6, -11, 134, 139)) and not isinstance(cmd, str) and os.path.basename(cmd[0]) == "wv":
        # the code under test panicked (or overflowed its stack) where no producer caught it: a finding, not a tool failure
        msg = next((l for l in p.stdout.splitlines() if l.startswith("WV-PANIC")), "process died with status %d" % p.returncode)
        raise HarnessPanic(" ".join(cmd), msg)
    if check and p.returncode != 0:
        raise ToolError("command failed (%d): %s\n%s" % (p.returncode, cmd if isinstance(cmd, str) else " ".join(cmd), p.stdout[-4000:]))
    return p.stdout


_built = set()


def build(parallel=False):
    """(Re)build the harness against /repo's current working tree with the hook guard on."""
    key = "par" if parallel else "ser"
    if key in _built:
        return
    env = {"CARGO_NET_OFFLINE": "true"}
    cmd = ["cargo", "build", "--release", "--offline", "-q"]
    if parallel:
        cmd += ["--features", "parallel", "--target-dir", "target-par"]
    t = time.time()
    out = sh(cmd, cwd=HARNESS, env=env, timeout=3000, check=False)
    if not os.path.exists(WV_PAR if parallel else WV) or "error" in out and "could not compile" in out:
        raise ToolError("harness build failed:\n" + out[-6000:])
    log("[build] harness (%s) %.1fs" % (key, time.time() - t))
    _built.add(key)


def wv(args, timeout=3000, parallel=False, env=None, check=True):
    build(parallel)
    # tools/coverage.sh substitutes a coverage-instrumented build of the same harness (serial flavour only)
    binary = WV_PAR if parallel else (os.environ.get("VERIF_WV_BIN") or WV)
    return sh([binary] + list(args), timeout=timeout, env=env, check=check)


# ------------------------------------------------------------------------------------------------
# TLC


class TlcResult:
    def __init__(self):
        self.generated = 0
        self.distinct = 0
        self.rejects = []  # list of tuples parsed from <<"REJECT", ...>> lines
        self.prints = []  # other PrintT tuples
        self.out = ""
        self.coverage = {}
        self.invariant_violated = False
        self.wall = 0.0


_TUPLE = re.compile(r'^<<"([A-Z]+)",(.*)>>\s*$')


def _parse_tla_value(s):
    """Very small parser for the TLA+ values our specs print: strings, ints, tuples, sets, records, booleans."""
    pos = [0]

    def ws():
        while pos[0] < len(s) and s[pos[0]] in " \n\t":
            pos[0] += 1

    def val():
        ws()
        c = s[pos[0]]
        if c == '"':
            j = pos[0] + 1
            buf = []
            while s[j] != '"':
                if s[j] == "\\":
                    j += 1
                buf.append(s[j])
                j += 1
            pos[0] = j + 1
            return "".join(buf)
        if s.startswith("<<", pos[0]):
            pos[0] += 2
            items = []
            ws()
            if s.startswith(">>", pos[0]):
                pos[0] += 2
                return items
            while True:
                items.append(val())
                ws()
                if s.startswith(">>", pos[0]):
                    pos[0] += 2
                    return items
                assert s[pos[0]] == ",", s[pos[0]:pos[0] + 20]
                pos[0] += 1
        if c == "{":
            pos[0] += 1
            items = []
            ws()
            if s[pos[0]] == "}":
                pos[0] += 1
                return items
            while True:
                items.append(val())
                ws()
                if s[pos[0]] == "}":
                    pos[0] += 1
                    return items
                pos[0] += 1
        if c == "[":
            pos[0] += 1
            rec = {}
            while True:
                ws()
                j = pos[0]
                while s[j] not in " |":
                    j += 1
                name = s[pos[0]:j]
                pos[0] = s.index("|->", j) + 3
                rec[name] = val()
                ws()
                if s[pos[0]] == "]":
                    pos[0] += 1
                    return rec
                pos[0] += 1
        m = re.match(r"-?\d+|TRUE|FALSE", s[pos[0]:])
        if m:
            pos[0] += len(m.group(0))
            t = m.group(0)
            return True if t == "TRUE" else False if t == "FALSE" else int(t)
        raise ValueError("cannot parse TLA value at %r" % s[pos[0]:pos[0] + 40])

    return val()


def tlc(spec, cfg=None, workers=8, tracefile=None, env=None, timeout=1800, cont=True, simulate=None, coverage=False, xmx="8g", deque=False, extra=None, name=None, capture=None):
    """Run TLC on spec/<spec>.tla with spec/<cfg>.cfg; returns TlcResult. Raises ToolError on TLC errors."""
    name = name or (cfg or spec)
    meta = os.path.join(WORK, "tlc", name + "-" + str(os.getpid()))
    shutil.rmtree(meta, ignore_errors=True)
    os.makedirs(meta, exist_ok=True)
    jopts = "-Xss1g -Xmx%s" % xmx
    if deque:
        jopts += " -Dtlc2.tool.queue.IStateQueue=StateDeque"
    e = {"JAVA_TOOL_OPTIONS": jopts}
    if tracefile:
        e["TRACEFILE"] = tracefile
    if env:
        e.update(env)
    cmd = ["timeout", str(timeout), "tlc", "-workers", str(workers), "-metadir", meta, "-cleanup", "-noGenerateSpecTE", "-config", (cfg or spec) + ".cfg"]
    if cont:
        cmd.append("-continue")
    if coverage:
        cmd += ["-coverage", "1"]
    if simulate:
        cmd += ["-simulate", simulate]
    if extra:
        cmd += extra
    cmd.append(spec + ".tla")
    t = time.time()
    out = sh(cmd, cwd=SPEC, env=e, timeout=timeout + 60, check=False)
    shutil.rmtree(meta, ignore_errors=True)
    r = TlcResult()
    r.out = out
    r.wall = time.time() - t
    seen = set()
    capf = open(capture[1], "w") if capture else None
    for line in out.splitlines():
        if capf is not None and line.startswith('"' + capture[0] + " "):
            capf.write(line + "\n")
            continue
        # verdict lines are single-line TLA+ strings:  "TAG <json>"
        if line.startswith('"') and line.rstrip().endswith('"') and len(line) > 2:
            if line in seen:
                continue
            seen.add(line)
            try:
                txt = json.loads(line.rstrip())
                tag, _, payload = txt.partition(" ")
                v = json.loads(payload) if payload else None
            except Exception:
                tag, v = "UNPARSED", line
            if tag == "REJECT":
                r.rejects.append(v)
            else:
                r.prints.append((tag, v))
        m = re.search(r"(\d+) states generated, (\d+) distinct states found", line)
        if m:
            r.generated, r.distinct = int(m.group(1)), int(m.group(2))
        m = re.search(r"The number of states generated: (\d+)", line)
        if m:
            r.generated = int(m.group(1))
            r.distinct = max(r.distinct, 1)
        if "Invariant" in line and "is violated" in line:
            r.invariant_violated = True
        m = re.match(r"<(\w+) line \d+, col \d+ to line \d+, col \d+ of module (\w+)>: (\d+):(\d+)", line)
        if m:
            r.coverage[m.group(1)] = max(r.coverage.get(m.group(1), 0), int(m.group(4)))
    if capf is not None:
        capf.close()
    bad = None
    for pat in ["TLC threw an unexpected exception", "Parsing or semantic analysis failed", "Error: Evaluating", "Error: TLC", "was not able to", "Error: In evaluation", "java.lang.", "Error: The exception", "Attempted to", "Error: Deadlock"]:
        if pat in out:
            bad = pat
            break
    finished = ("Finished in" in out) or ("Model checking completed" in out) or ("The number of states generated" in out)
    if bad or not finished:
        tail = "\n".join([l for l in out.splitlines() if not l.startswith(("Parsing file", "Semantic processing", "Linting of"))][-40:])
        raise ToolError("TLC failed on %s (%s):\n%s" % (spec, bad or "did not finish", tail))
    return r


# ------------------------------------------------------------------------------------------------
# findings / evidence


def load_known():
    p = os.path.join(ROOT, "known_findings.json")
    if not os.path.exists(p):
        return []
    return json.load(open(p)).get("findings", [])


def match_known(prop, text, known):
    for k in known:
        if k.get("status") != "known" or k.get("property") != prop:
            continue
        if re.search(k["match"], text):
            return k
    return None


class Ctx:
    """One run of one property's check."""

    def __init__(self, prop, tier, seed):
        self.prop = prop
        self.tier = tier
        self.seed = seed
        self.t0 = time.time()
        self.states = 0
        self.transitions = 0
        self.traces = 0
        self.evaluations = 0
        self.samples = []
        self.violations = []  # (key text, replay path)
        self.known_hits = {}
        self.notes = {}
        self.exhaustive = False
        self.assumptions = []
        self.work = os.path.join(WORK, prop)
        os.makedirs(self.work, exist_ok=True)
        self.replays = os.path.join(ROOT, "replays", prop)
        self.known = load_known()
        self.rule = ""

    def quick(self):
        return self.tier == "quick"

    def add_mc(self, r, label):
        self.states += r.distinct
        self.transitions += r.generated
        self.notes.setdefault("tlc_runs", []).append({"run": label, "distinct": r.distinct, "generated": r.generated, "wall_s": round(r.wall, 1)})

    def sample(self, s):
        if len(self.samples) < 6:
            self.samples.append(s)

    def report(self, case_id, reason, detail, replay_obj):
        """A rejected case: either a known finding or a violation."""
        text = "%s | %s" % (reason, detail if isinstance(detail, str) else json.dumps(detail, sort_keys=True))
        k = match_known(self.prop, text, self.known)
        if k:
            self.known_hits.setdefault(k["key"], [0, k])[0] += 1
            return
        os.makedirs(self.replays, exist_ok=True)
        h = hashlib.sha1((str(case_id) + text).encode()).hexdigest()[:10]
        path = os.path.join(self.replays, "%s-%s.json" % (re.sub(r"[^A-Za-z0-9_.-]", "_", str(case_id))[:60], h))
        replay_obj = dict(replay_obj or {})
        replay_obj.update({"property": self.prop, "case": case_id, "reason": reason, "detail": detail, "seed": self.seed, "tier": self.tier})
        with open(path, "w") as f:
            json.dump(replay_obj, f)
        self.violations.append((text, path))

    def finish(self):
        for key, (n, k) in sorted(self.known_hits.items()):
            log("KNOWN-FINDING: property=%s %s (%d cases; key=%s)" % (self.prop, k["what"], n, key))
        shown = {}
        for text, path in self.violations:
            cls = re.sub(r"[0-9]+", "#", text)[:120]
            shown.setdefault(cls, []).append((text, path))
        for cls, items in list(shown.items())[:12]:
            text, path = items[0]
            log("VIOLATION property=%s replay=%s" % (self.prop, path))
            log("    %s%s" % (text[:500], "   (+%d similar)" % (len(items) - 1) if len(items) > 1 else ""))
        if len(shown) > 12:
            log("    ... %d further classes of violations, see %s" % (len(shown) - 12, self.replays))
        ev = {
            "property_id": self.prop,
            "tier": self.tier,
            "seed": self.seed,
            "level": "model_checking",
            "coverage": {
                "states": max(self.states, 0),
                "transitions": max(self.transitions, 0),
                "traces_validated_against_impl": self.traces,
                "samples": self.samples if self.samples else ["(no case was produced)"],
                "evaluations": self.evaluations,
                "rule": self.rule,
                "exhaustive": self.exhaustive,
                "known_findings_hit": {k: v[0] for k, v in self.known_hits.items()},
            },
            "assumptions": self.assumptions,
            "wall_s": round(time.time() - self.t0, 2),
            "violations": len(self.violations),
        }
        ev["coverage"].update(self.notes)
        # runs against a deliberately broken tree (tools/seed.py) write their evidence elsewhere
        evdir = os.environ.get("VERIF_EVIDENCE_DIR") or os.path.join(ROOT, "evidence")
        os.makedirs(evdir, exist_ok=True)
        with open(os.path.join(evdir, self.prop + ".json"), "w") as f:
            json.dump(ev, f, indent=1)
        log("[%s] tier=%s seed=%d states=%d transitions=%d traces=%d violations=%d known=%d wall=%.1fs" % (self.prop, self.tier, self.seed, self.states, self.transitions, self.traces, len(self.violations), len(self.known_hits), time.time() - self.t0))
        return 1 if self.violations else 0


def read_ndjson(path):
    out = []
    with open(path) as f:
        for line in f:
            line = line.strip()
            if line:
                out.append(json.loads(line))
    return out


def judge_trace(ctx, spec, tracefile, workers=8, cfg=None, slim=None, timeout=1800, deque=False, label=None):
    """Validate an implementation trace against a trace spec; report every rejected case."""
    # a trace too large for one TLC process (its JSON is held in memory several times over) is judged in pieces;
    # the monitors treat every line independently, so the verdicts are the same
    LIMIT = 48 * 1024 * 1024
    if os.path.getsize(tracefile) > LIMIT and not tracefile.endswith(".part"):
        all_cases, last, part, size, k = [], None, None, 0, 0
        with open(tracefile) as f:
            for line in f:
                if part is None or size > LIMIT:
                    if part:
                        part.close()
                        last, cs = judge_trace(ctx, spec, pname, workers, cfg, slim, timeout, deque, "%s#%d" % (label or spec, k))
                        all_cases += cs
                        os.remove(pname)
                    k += 1
                    pname = "%s.%d.part" % (tracefile, k)
                    part, size = open(pname, "w"), 0
                part.write(line)
                size += len(line)
        if part:
            part.close()
            last, cs = judge_trace(ctx, spec, pname, workers, cfg, slim, timeout, deque, "%s#%d" % (label or spec, k))
            all_cases += cs
            os.remove(pname)
        return last, all_cases
    cases = read_ndjson(tracefile)
    if not cases:
        raise ToolError("empty trace " + tracefile)
    r = tlc(spec, cfg=cfg, workers=workers, tracefile=tracefile, timeout=timeout, deque=deque, name=label or spec)
    ctx.add_mc(r, label or spec)
    ctx.traces += len(cases)
    ctx.evaluations += len(cases)
    by_id = {str(c.get("id")): c for c in cases}
    for rej in r.rejects:
        cid = str(rej[0])
        reason = rej[1] if len(rej) > 1 else "rejected"
        detail = rej[2:] if len(rej) > 2 else []
        c = by_id.get(cid, {})
        ctx.report(cid, reason, detail, {"source": c.get("source"), "trace_spec": spec, "line": (slim(c) if slim else None)})
    if r.invariant_violated and not r.rejects:
        raise ToolError("TLC reported an invariant violation without a REJECT line in %s" % spec)
    return r, cases


def judge_shards(ctx, spec, shard_files, label=None, timeout=1800, slim=None, cfg=None):
    """Trace validation that needs -workers 1 (TLC registers): one TLC process per shard, concurrently."""
    from concurrent.futures import ThreadPoolExecutor
    shard_files = [f for f in shard_files if os.path.exists(f) and os.path.getsize(f) > 0]
    results = []

    def one(args):
        n, path = args
        return tlc(spec, cfg=cfg, workers=1, tracefile=path, timeout=timeout, deque=True, cont=False, name="%s-%d" % (label or spec, n), xmx="4g")

    with ThreadPoolExecutor(max_workers=8) as ex:
        results = list(ex.map(one, enumerate(shard_files)))
    all_cases = []
    for path, r in zip(shard_files, results):
        cases = read_ndjson(path)
        all_cases += cases
        ctx.add_mc(r, (label or spec) + ":" + os.path.basename(path))
        ctx.traces += len(cases)
        ctx.evaluations += len(cases)
        by_id = {str(c.get("id")): c for c in cases}
        seen = set()
        for rej in r.rejects:
            cid = str(rej[0])
            # a REJECT printed from inside an action can be evaluated more than once
            if (cid, str(rej[1:2])) in seen:
                continue
            seen.add((cid, str(rej[1:2])))
            c = by_id.get(cid, {})
            ctx.report(cid, rej[1] if len(rej) > 1 else "rejected", rej[2:], {"source": c.get("source"), "trace_spec": spec, "line": (slim(c) if slim else None)})
    return all_cases


def model_check(ctx, spec, cfg=None, workers=8, expect_actions=None, timeout=1800, label=None, **kw):
    """Exhaustive design-level run; a violated invariant of the *design* spec is a tool error (the design is wrong)."""
    r = tlc(spec, cfg=cfg, workers=workers, timeout=timeout, cont=False, coverage=bool(expect_actions), name=label or (cfg or spec), **kw)
    if r.invariant_violated or "is violated" in r.out or "Error:" in r.out:
        tail = "\n".join(r.out.splitlines()[-60:])
        raise ToolError("design spec %s/%s does not satisfy its properties:\n%s" % (spec, cfg, tail))
    if expect_actions:
        never = [a for a in expect_actions if r.coverage.get(a, 0) == 0]
        if never:
            raise ToolError("vacuity: actions never taken in %s: %s" % (spec, never))
    ctx.add_mc(r, label or (cfg or spec))
    return r


def model_check_many(ctx, jobs, workers=4, timeout=1800):
    """Run several exhaustive design-level checks concurrently: jobs = [(spec, cfg, label), ...]."""
    from concurrent.futures import ThreadPoolExecutor
    tmp = Ctx.__new__(Ctx)
    results = []

    def one(job):
        spec, cfg, label = job
        c = type("C", (), {})()
        c.states = c.transitions = 0
        c.notes = {}
        c.add_mc = lambda r, l, c=c: results.append((r, l))
        return model_check(c, spec, cfg=cfg, workers=workers, timeout=timeout, label=label)

    with ThreadPoolExecutor(max_workers=4) as ex:
        list(ex.map(one, jobs))
    for r, l in results:
        ctx.add_mc(r, l)


# ------------------------------------------------------------------------------------------------


def main():
    import argparse
    ap = argparse.ArgumentParser()
    ap.add_argument("prop")
    ap.add_argument("--tier", default=os.environ.get("VERIF_TIER", "quick"))
    ap.add_argument("--replay", default=None)
    a = ap.parse_args()
    seed = int(os.environ.get("VERIF_SEED", "1"))
    import props
    try:
        if a.prop == "setup":
            build()
            build(parallel=True)
            for f in sorted(os.listdir(SPEC)):
                if f.endswith(".tla"):
                    out = sh(["tla-sany", f], cwd=SPEC, check=False)
                    if "Semantic errors" in out or "Parse Error" in out or "Fatal" in out or "Could not" in out:
                        raise ToolError("SANY rejects %s:\n%s" % (f, out[-2000:]))
            log("setup ok")
            sys.exit(0)
        fn = getattr(props, "check_" + a.prop, None)
        if fn is None:
            log("unknown property " + a.prop)
            sys.exit(2)
        ctx = Ctx(a.prop, a.tier, seed)
        if a.replay:
            ctx.replay_file = a.replay
            rfn = getattr(props, "replay_" + a.prop, None) or props.replay_generic
            rfn(ctx, json.load(open(a.replay)))
        else:
            try:
                fn(ctx)
            except HarnessPanic as e:
                ctx.report("harness-call", "implementation-panicked-outside-a-guarded-call", [e.msg], {"command": e.cmd})
        sys.exit(ctx.finish())
    except ToolError as e:
        log("TOOL-ERROR: " + str(e))
        sys.exit(2)
