"""Per-property checks.  Each check_<ID>(ctx) explores, reports rejected cases through ctx.report and
leaves counters in ctx; the driver writes evidence and the exit code."""
import os, json, subprocess
from driver import *

FAMILIES = ["calls", "globals", "tables", "memories"]


def enum_family(ctx, fam):
    """TLC writes one family of Families.tla as ndjson; cached per run directory."""
    out = os.path.join(ctx.work, "fam_%s.ndjson" % fam)
    r = tlc("Enum_Families", workers=1, env={"FAMILY": fam, "OUTFILE": out}, cont=False, name="enum-" + fam)
    n = sum(1 for _ in open(out))
    ctx.notes.setdefault("enumerated", {})[fam] = n
    return out, n


def fam_inputs(ctx, fams):
    parts = []
    for f in fams:
        path, n = enum_family(ctx, f)
        parts.append("fam:%s:%s" % (f, path))
    return ",".join(parts)


def replay_generic(ctx, rep):
    log("replay file: property=%s case=%s reason=%s" % (rep.get("property"), rep.get("case"), rep.get("reason")))
    log(json.dumps(rep.get("detail"))[:2000])
    src = rep.get("source")
    if src:
        log("input source: %s (regenerate with: harness/target/release/wv input source=%s)" % (src, src))
    # re-run the whole check; the case is deterministic in (seed, tier)
    os.environ["VERIF_SEED"] = str(rep.get("seed", 1))
    ctx.seed = int(rep.get("seed", 1))
    ctx.tier = rep.get("tier", "quick")
    globals()["check_" + ctx.prop](ctx)


# ------------------------------------------------------------------------------------------------
def check_C04(ctx):
    ctx.rule = ("design: Walrus.tla over all modules of Families.tla (plain emit); implementation: every family module concretised to wasm, "
                "all valid repository fixtures and generated modules round-tripped; TLC judges Iso(in,out,sigma) with every entity kept. "
                "A case is one module; non-trivial = it has at least one import, segment or export.")
    fams = FAMILIES if not ctx.quick() else ["tables", "memories"]
    model_check_many(ctx, [("MC_Walrus", "MC_Walrus_%s_emit" % f.capitalize(), "design-" + f) for f in FAMILIES])
    n = 600 if ctx.quick() else 20000
    trace = os.path.join(ctx.work, "structure.ndjson")
    inputs = "fixtures,%s,gen:%d,gen:%d:stable,gen:%d:mvp" % (fam_inputs(ctx, fams), n, n // 4, n // 4)
    wv(["trace-structure", "inputs=" + inputs, "seed=%d" % ctx.seed, "out=" + trace])
    r, cases = judge_trace(ctx, "Trace_Structure", trace, slim=lambda c: {k: c[k] for k in ("id", "source", "outcome", "sigma")})
    for c in cases[:2] + cases[-2:]:
        ctx.sample({"id": c["id"], "source": c["source"], "imports": len(c["inm"]["imports"]), "funcs": len(c["inm"]["funcs"]), "elems": len(c["inm"]["elems"]), "data": len(c["inm"]["data"]), "sigma_func": c["sigma"]["func"]})
    ctx.assumptions += ["wasmparser 0.214 decodes both binaries faithfully", "the renumbering is proposed from walrus's own parse-time and emit-time maps and *checked* by TLC"]
    # signatures: the type section (with duplicate entries), block types given by index, builder-made functions -- Types.tla
    types_oracle(ctx, "C04")


# ------------------------------------------------------------------------------------------------
def write_cfg(name, text):
    """Configurations whose constants depend on the tier are generated next to the committed ones."""
    path = os.path.join(SPEC, name + ".cfg")
    with open(path, "w") as f:
        f.write(text)
    return name


def enum_control_strings(ctx, maxlen):
    out = os.path.join(ctx.work, "ctl%d.txt" % maxlen)
    cfg = write_cfg("Enum_Body_gen", "SPECIFICATION BSpec\nCONSTANTS\n  MaxLen = %d\n  MaxDepth = 3\nINVARIANTS\n  EmitCase\nCHECK_DEADLOCK FALSE\n" % maxlen)
    r = tlc("Body", cfg=cfg, workers=8, cont=False, capture=("CASE", out), name="enum-body")
    ctx.add_mc(r, "enum-control-strings(len<=%d)" % maxlen)
    n = sum(1 for _ in open(out))
    ctx.notes["control_strings"] = n
    return out


DODRIO = "/repo/benches/fixtures/dodrio-todomvc.wasm"


def check_C03(ctx):
    ctx.rule = ("design: Body.tla (validator fragment + walrus parser/emitter model) over all valid control strings up to the bound, invariant "
                "EmittedMatches; implementation: every such string concretised, every instance of the operator table (all operators of the feature set x "
                "boundary immediates, validator-probed typing) in live and dead position, fixtures, generated modules and the real-world fixture; "
                "TLC's matcher (Trace_Body.tla) must align input and output operator lists function by function. A case is one module.")
    q = ctx.quick()
    cfg = write_cfg("MC_Body_gen", "SPECIFICATION BSpec\nCONSTANTS\n  MaxLen = %d\n  MaxDepth = 3\nINVARIANTS\n  EmittedMatches\n  EmittedBalanced\nCHECK_DEADLOCK FALSE\n" % (6 if q else 7))
    model_check(ctx, "Body", cfg=cfg, workers=8, label="design-body")
    ctl = enum_control_strings(ctx, 5 if q else 6)
    n = 300 if q else 20000
    shards = 4 if q else 16
    trace = os.path.join(ctx.work, "bodies.ndjson")
    for f in os.listdir(ctx.work):
        if f.startswith("bodies.ndjson"):
            os.remove(os.path.join(ctx.work, f))
    inputs = "ctl:%s,ops,fixtures,file:%s,gen:%d,gen:%d:stable,gen:%d:big" % (ctl, DODRIO, n, n // 4, n // 20)
    out = wv(["trace-bodies", "inputs=" + inputs, "seed=%d" % ctx.seed, "out=" + trace, "shards=%d" % shards])
    ctx.notes["harness"] = out.strip().splitlines()[-1]
    cases = judge_shards(ctx, "Trace_Body", ["%s.%d" % (trace, k) for k in range(shards)], label="matcher",
                         slim=lambda c: {k: c[k] for k in ("id", "source", "sigma")})
    for c in read_ndjson(trace + ".bad") if os.path.getsize(trace + ".bad") else []:
        ctx.evaluations += 1
        ctx.report(c["id"], "outcome", c["outcome"], {"source": c["source"]})
    nfun = sum(len(c["funcs"]) for c in cases)
    nops = sum(len(f["inops"]) for c in cases for f in c["funcs"])
    ctx.notes["functions_matched"] = nfun
    ctx.notes["operators_matched"] = nops
    for c in cases[:1] + cases[5000:5001] + cases[-1:]:
        if c["funcs"]:
            f = c["funcs"][0]
            ctx.sample({"id": c["id"], "source": c["source"], "in": [o["o"] for o in f["inops"]][:12], "out": [o["o"] for o in f["outops"]][:12]})
    ctx.assumptions += ["wasmparser 0.214 decodes operators faithfully", "operand typing of each operator is discovered by probing wasmparser's validator"]


# ------------------------------------------------------------------------------------------------
def gc_trace(ctx, which):
    q = ctx.quick()
    fams = ["tables", "memories"] if q else FAMILIES
    n = 500 if q else 20000
    model_check_many(ctx, [("MC_Walrus", "MC_Walrus_%s_gc" % f.capitalize(), "design-gc-" + f) for f in (["calls", "tables"] if q else FAMILIES)])
    trace = os.path.join(ctx.work, "gc.ndjson")
    inputs = "fixtures,ops,file:%s,%s,gen:%d,gen:%d:stable,gen:%d:mvp" % (DODRIO, fam_inputs(ctx, fams), n, n // 4, n // 4)
    wv(["trace-gc", "inputs=" + inputs, "built=%d" % (300 if q else 10000), "seed=%d" % ctx.seed, "out=" + trace])
    os.environ["PROPERTY"] = which
    r, cases = judge_trace(ctx, "Trace_GC", trace, slim=lambda c: {k: c[k] for k in ("id", "source", "outcome", "sigma", "extra_roots")})
    for c in cases[:2] + cases[-2:]:
        kept = {sp: sum(1 for x in v if x >= 0) for sp, v in c["sigma"].items()}
        total = {sp: len(v) for sp, v in c["sigma"].items()}
        ctx.sample({"id": c["id"], "source": c["source"], "extra_roots": c["extra_roots"], "kept": kept, "of": total})
    ctx.notes["cases_where_gc_removed_something"] = sum(1 for c in cases if any(x < 0 for v in c["sigma"].values() for x in v))
    ctx.assumptions += ["wasmparser 0.214 decodes and validates both binaries", "sigma proposed from walrus's own maps, checked by TLC"]


def check_C06(ctx):
    exec_after_gc = True
    ctx.rule = ("design: Walrus.tla with the GC worklist of passes/used.rs over Families.tla, invariants NoPanic, OutputIsIso, GcExact (used = Reach); "
                "implementation: parse;gc;emit on concretised families, fixtures, real-world fixture and generated modules (a third of them with extra roots "
                "contributed by a typed custom section); TLC recomputes Reach declaratively and requires out valid, Iso on the kept part, exports equal, "
                "nothing reachable dropped. The same judgement is passed on modules built and edited through the API (FunctionBuilder functions with multi-value signatures and "
                "blocks, replace_exported_func / replace_imported_func), where the module emitted before the pass plays the input. A case is one module; non-trivial = the pass removed something.")
    gc_trace(ctx, "C06")
    # behavioural half: the Exec.tla oracle on parse;gc;emit (a failing instantiation of the original is not compared)
    exec_oracle(ctx, 1, 300 if ctx.quick() else 20000, 4 if ctx.quick() else 16)


def check_C07(ctx):
    ctx.rule = ("same traces as C06, converse direction: Reach recomputed on the *output* must cover every emitted entity (residue: at most one memory when a "
                "data segment is emitted), every emitted type is used, and parse;gc;gc;emit yields the bytes of parse;gc;emit. Design: GcExact and SecondGcIsNoOp "
                "on Walrus.tla. Types: Types.tla (interner, entry types, users of types, GC, written type section) model-checked for NoGarbageAfterGc / GcIdempotent and its "
                "behaviours replayed on real Modules; after every GC the module's types, and on emit the written type section, must be exactly the model's (Trace_Types.tla).")
    gc_trace(ctx, "C07")
    types_oracle(ctx, "C07")


# ------------------------------------------------------------------------------------------------
def enum_custom_layouts(ctx):
    out = os.path.join(ctx.work, "custom_layouts.ndjson")
    r = tlc("Enum_Customs", workers=1, env={"OUTFILE": out}, cont=False, name="enum-customs")
    ctx.notes["custom_layouts"] = sum(1 for _ in open(out))
    return out


def lifecycle(ctx, which, inputs, shards, with_procs=False):
    """Record histories (parse ; emit|gc|reparse ...) and validate them against Lifecycle.tla on behalf of `which`."""
    model_check(ctx, "Lifecycle", cfg="MC_Lifecycle", workers=4, label="design-lifecycle")
    trace = os.path.join(ctx.work, "lifecycle.ndjson")
    for f in os.listdir(ctx.work):
        if f.startswith("lifecycle.ndjson") or f.startswith("digests."):
            os.remove(os.path.join(ctx.work, f))
    args = ["trace-lifecycle", "inputs=" + inputs, "seed=%d" % ctx.seed, "out=" + trace, "shards=%d" % shards]
    if with_procs:
        pf = []
        for k in range(3):
            f = os.path.join(ctx.work, "digests.%d" % k)
            wv(["digests", "inputs=" + inputs, "seed=%d" % ctx.seed, "out=" + f], env={"RAYON_NUM_THREADS": str(1 + 5 * k)})
            pf.append(f)
        args.append("procs=" + ",".join(pf))
        ctx.notes["separate_processes"] = 3
    out = wv(args)
    ctx.notes["harness"] = out.strip().splitlines()[-1]
    os.environ["PROPERTY"] = which
    cases = judge_shards(ctx, "Trace_Lifecycle", ["%s.%d" % (trace, k) for k in range(shards)], label="lifecycle",
                         slim=lambda c: {"id": c["id"], "source": c["source"], "script": c["script"]})
    for c in cases[:1] + cases[len(cases) // 2: len(cases) // 2 + 1] + cases[-1:]:
        ctx.sample({"id": c["id"], "script": c["script"], "events": [dict(ev=e["ev"], held=e.get("held"), digest=e.get("digest")) for e in c["events"]]})
    ctx.notes["events_validated"] = sum(len(c["events"]) for c in cases)
    return cases


def check_C08(ctx):
    ctx.rule = ("design: Lifecycle.tla (EmitIsPure, RepeatedEmitsEqual, Fixpoint) exhaustively; implementation: histories parse;emit;emit;reparse;emit, "
                "parse;gc;emit;emit and parse;emit;gc;emit;reparse;emit;emit on fixtures, custom-section layouts and generated modules under two switch vectors, "
                "plus the digest of parse;emit from three further processes; every event carries the Module's observable state and the emitted bytes' digest and "
                "is replayed against the actions of Lifecycle.tla. A case is one history.")
    q = ctx.quick()
    n = 250 if q else 8000
    inputs = "fixtures,file:%s,gen:%d,gen:%d:big" % (DODRIO, n, n // 25)
    lifecycle(ctx, "C08", inputs, 4 if q else 16, with_procs=True)
    # round trips of the producers section (the one part of the output a re-parse rewrites): Producers.tla, RoundTripFixpoint
    producers_oracle(ctx)
    ctx.assumptions += ["'across processes' = three additional process launches with different thread counts"]


def check_C12(ctx):
    ctx.rule = ("design: Lifecycle.tla invariant CustomsSurvive; implementation: every placement of <= 2 unknown custom sections (two names so duplicates occur, empty and "
                "non-empty payloads) before/between/after all 13 standard sections of a fixed module, enumerated by TLC (Enum_Customs.tla), plus fixtures and generated modules with "
                "random custom sections, under histories {emit}, {gc,emit}, {emit,emit}, {emit,gc,emit,...}; the sequence of (name, payload digest) in every emitted binary and the "
                "sections held by the Module after every call must equal the input's. A case is one history.")
    q = ctx.quick()
    n = 200 if q else 8000
    inputs = "cust:%s,fixtures,gen:%d" % (enum_custom_layouts(ctx), n)
    lifecycle(ctx, "C12", inputs, 6 if q else 16)
    ctx.exhaustive = False


def check_C14(ctx):
    ctx.rule = ("design: Lifecycle.tla over all switch vectors (SwitchesExact, ProcessedByOnce, OnParseOnce); implementation: (a) each input run under ALL 2^6 vectors (names, producers, dwarf, preserve_code_transform, only_stable_features, synthetic names; six of them again with strict_validate off) of "
                "{names, producers, dwarf, preserve_code_transform, only_stable} - the whole finite switch space - and TLC compares the section inventories of every pair of vectors that "
                "differ in one switch (Trace_Config.tla), checks the producers relation and the callback count; (b) recorded histories validated against Lifecycle.tla with the C14 "
                "conjuncts (section presence, processed-by once per round trip, callback count); (c) Producers.tla -- ModuleProducers' API (add_language / add_processed_by / add_sdk / clear), "
                "Module::parse recording walrus, emit under both values of the switch -- model-checked (WalrusOnce, InputPreserved, AddIsLocal) and all its behaviours up to the bound replayed on real Modules. "
                "A case is one input under all vectors, or one history.")
    q = ctx.quick()
    n = 150 if q else 1200
    inputs = "fixtures,badnames,endcheck,trailing,dwarfed:%d,gen:%d,gen:%d:stable" % (n // 5, n, n // 3)
    trace = os.path.join(ctx.work, "config.ndjson")
    wv(["trace-config", "inputs=" + inputs, "seed=%d" % ctx.seed, "out=" + trace])
    r, cases = judge_trace(ctx, "Trace_Config", trace, slim=lambda c: {"id": c["id"], "source": c["source"]})
    ctx.notes["switch_vectors_per_input"] = max(len(c["runs"]) for c in cases)
    ctx.sample({"id": cases[0]["id"], "runs": [{"flags": x["flags"], "outcome": x["outcome"], "sections": [s["name"] or s["id"] for s in x["sections"]]} for x in cases[0]["runs"][:3]]})
    lifecycle(ctx, "C14", "fixtures,dwarfed:%d,gen:%d" % (n // 5, n), 4 if q else 16)
    # the producers section in isolation: API edits and round trips under both values of the switch
    producers_oracle(ctx)
    ctx.exhaustive = True
    ctx.notes["exhaustive_over"] = "the 2^6 switch vectors (per input); inputs are samples"


def check_C13(ctx):
    ctx.rule = ("names relation of Trace_Names.tla (forward: a name of a still-emitted entity is attached to the renumbered entity; converse: every output name has an origin) "
                "evaluated by TLC on round trips with and without the GC pass, for fixtures, generated modules with full / partial name sections of every subsection kind "
                "(module, function, local, label, type, table, memory, global, element, data) whose functions get reordered by the size sort. A case is one (module, pass).")
    q = ctx.quick()
    n = 500 if q else 20000
    model_check_many(ctx, [("MC_Walrus", "MC_Walrus_Calls_emit", "design-renumbering-calls")])
    trace = os.path.join(ctx.work, "names.ndjson")
    wv(["trace-names", "inputs=fixtures,file:%s,gen:%d,gen:%d:big" % (DODRIO, n, n // 20), "seed=%d" % ctx.seed, "out=" + trace])
    r, cases = judge_trace(ctx, "Trace_Names", trace, slim=lambda c: {"id": c["id"], "source": c["source"], "sigma": c["sigma"]})
    named = [c for c in cases if c["in_names"]]
    ctx.notes["cases_with_names"] = len(named)
    ctx.notes["names_checked"] = sum(len(c["in_names"]) for c in cases)
    ctx.notes["functions_with_unknown_local_map"] = sum(1 for c in cases for l in c["lm"] if not l["known"])
    for c in named[:2] + named[-1:]:
        ctx.sample({"id": c["id"], "in_names": c["in_names"][:6], "out_names": c["out_names"][:6], "sigma_func": c["sigma"]["func"]})
    ctx.assumptions += ["the design-level run is the renumbering model Walrus.tla (names ride on sigma); the name relation itself is only checked on the implementation"]
    # names of locals follow their locals through slot assignment (API-built functions, parameters in any allocation order): Locals.tla
    locals_oracle(ctx, "C13")
    # names of the other entities through parse -> API edits / deletions / GC -> emit -> re-parse, by content: NameMap.tla
    namemap_oracle(ctx)


def check_C19(ctx):
    ctx.rule = ("both index maps judged with the renumbering relation of ModuleGraph.tla: Iso(input binary, Module state seen inside on_parse, IndicesToIds) and "
                "Iso(Module state before emit, emitted binary, IdsToIndices as seen inside CustomSection::data), plus types by signature and locals by type / parameter position; "
                "with and without the GC pass (tombstoned ids). Design: ParseMapAgrees, EmitMapAgrees, IndexSpacesDense on Walrus.tla over the families. A case is one (module, pass).")
    q = ctx.quick()
    n = 400 if q else 15000
    fams = ["calls", "globals"] if q else FAMILIES
    model_check_many(ctx, [("MC_Walrus", "MC_Walrus_%s" % f.capitalize(), "design-maps-" + f) for f in (["globals", "memories"] if q else FAMILIES)])
    trace = os.path.join(ctx.work, "maps.ndjson")
    wv(["trace-maps", "inputs=fixtures,file:%s,%s,dupimp:%d,gen:%d,gen:%d:big" % (DODRIO, fam_inputs(ctx, fams), 8 if q else 60, n, n // 20), "seed=%d" % ctx.seed, "out=" + trace])
    r, cases = judge_trace(ctx, "Trace_Maps", trace, slim=lambda c: {"id": c["id"], "source": c["source"]})
    ok = [c for c in cases if c.get("outcome") == "ok"]
    for c in ok[:1] + ok[-2:]:
        ctx.sample({"id": c["id"], "i2id_func": c["i2id"]["func"], "id2idx_func": c["id2idx"]["func"], "locals_of_first_local_func": next((l for l in c["locals"] if l["ids"]), None)})
    ctx.assumptions += ["the Module state is read through the public API (iteration, get, public fields) and decoded binaries through wasmparser"]


def check_C20(ctx):
    ctx.rule = ("design: Features.tla (walrus's encoding choices for element/data segments, data count, block types, table immediates never need more than the input's encoding; "
                "the per-encoding requirements are generated into FeatureFacts.tla by probing the validator); implementation: for fixtures, MVP-only modules, one family of modules per "
                "post-MVP proposal and generated modules, input and output are validated under all-proposals minus every subset of size <= 2 (79 sets) and under the greedily minimal set; "
                "TLC requires valid_F(in) => valid_F(out) for every F, with and without GC. A case is one (module, pass).")
    q = ctx.quick()
    wv(["feature-facts", "out=" + os.path.join(SPEC, "FeatureFacts.tla")])
    model_check(ctx, "Features", cfg="MC_Features", workers=1, label="design-features")
    n = 300 if q else 10000
    trace = os.path.join(ctx.work, "features.ndjson")
    wv(["trace-features", "inputs=fixtures,proposals:%d,gen:%d,gen:%d:mvp,gen:%d:stable" % (20 if q else 400, n, n, n // 2), "seed=%d" % ctx.seed, "out=" + trace])
    r, cases = judge_trace(ctx, "Trace_Features", trace, slim=lambda c: {"id": c["id"], "source": c["source"], "needs": c.get("needs")})
    import collections
    dist = collections.Counter(",".join(c.get("needs", [])) or "mvp" for c in cases if c["outcome"] == "ok")
    ctx.notes["needs_distribution"] = dict(dist.most_common(15))
    ctx.notes["feature_sets_per_case"] = max(len(c["sets"]) for c in cases)
    for c in cases[:1] + cases[-1:]:
        ctx.sample({"id": c["id"], "needs": c.get("needs"), "sets_checked": len(c["sets"]), "in_elem_flags": c.get("in_elem_flags"), "out_elem_flags": c.get("out_elem_flags")})
    ctx.assumptions += ["wasmparser's validator under a reduced WasmFeatures set defines 'validates under F'"]


def check_C17(ctx):
    ctx.rule = ("design: Arena.tla model-checked (plain and de-duplicating) with NeverReused, DeadStaysDead, DedupInv, AddReturnsLive, AddFreshIsNew, DeleteIsolated, DeleteOnlyThat, "
                "IterIsLiveInOrder, GetIsStable; implementation: ALL histories of the bounded length over {add v, find v, delete k, get k, iter} enumerated by TLC (Enum_Arena.tla) plus random "
                "long histories are replayed on each of the 11 real collections (types, exports, imports, memories, tables, globals, data, elements, funcs, customs, locals) and on four of them again through their by-name and typed entry points (exports.get_func / get_exported_func / remove, imports.get_func / get_imported_func / remove, customs.remove_raw, typed custom-section ids and get_typed) through the public "
                "API and every returned value is validated step by step against the actions of Arena.tla, with spec ids bound to real ids at allocation. A case is one (collection, history).")
    q = ctx.quick()
    L = 4 if q else 5
    for cfgname, dd in (("MC_Arena_gen", "FALSE"), ("MC_Arena_dedup_gen", "TRUE")):
        base = open(os.path.join(SPEC, "MC_Arena.cfg")).read().replace("MaxOps = 6", "MaxOps = %d" % (6 if q else 8)).replace("Dedup = FALSE", "Dedup = " + dd)
        write_cfg(cfgname, base)
        model_check(ctx, "Arena", cfg=cfgname, workers=4, label="design-" + cfgname)
    hist = os.path.join(ctx.work, "histories.txt")
    cfg = write_cfg("Enum_Arena_gen", open(os.path.join(SPEC, "Enum_Arena.cfg")).read().replace("MaxOps = 5", "MaxOps = %d" % L))
    r = tlc("Enum_Arena", cfg=cfg, workers=8, cont=False, capture=("CASE", hist), name="enum-arena")
    ctx.add_mc(r, "enum-histories(len=%d)" % L)
    ctx.notes["histories_enumerated"] = sum(1 for _ in open(hist))
    ctx.exhaustive = True
    ctx.notes["exhaustive_over"] = "all histories of length %d over 2 payload values (per collection); random histories are samples" % L
    trace = os.path.join(ctx.work, "arena.ndjson")
    for f in os.listdir(ctx.work):
        if f.startswith("arena.ndjson"):
            os.remove(os.path.join(ctx.work, f))
    shards = 4 if q else 12
    out = wv(["trace-arena", "histories=" + hist, "random=%s" % ("40:60" if q else "3000:200"), "seed=%d" % ctx.seed, "out=" + trace, "shards=%d" % shards])
    ctx.notes["harness"] = out.strip().splitlines()
    allc = []
    for kind in ("plain", "dedup", "nodelete"):
        allc += judge_shards(ctx, "Trace_Arena", ["%s.%s.%d" % (trace, kind, k) for k in range(shards)], cfg="Trace_Arena_" + kind, label="arena-" + kind,
                             slim=lambda c: {"id": c["id"], "coll": c["coll"], "events": c["events"]})
    for c in allc[:1] + allc[len(allc) // 2: len(allc) // 2 + 1] + allc[-1:]:
        ctx.sample({"id": c["id"], "events": c["events"][:8]})
    ctx.notes["events_validated"] = sum(len(c["events"]) for c in allc)
    # the type interner in its setting (parse with duplicate type-section entries, entry types, FunctionBuilder, GC): Types.tla
    types_oracle(ctx, "C17")


# ------------------------------------------------------------------------------------------------
def edit_histories(ctx, which, quick_n):
    """TLC generates well-formed edit scripts from the observable states of real parsed modules (Gen_Edits.tla);
    the harness replays them through the public API; Trace_Edits.tla validates every call and the closing emits."""
    q = ctx.quick()
    fams = fam_inputs(ctx, ["calls", "globals", "tables", "memories"])
    inputs = "reffuncexp,dupimp:%d,%s,gen:%d:small,gen:%d:smalln" % (12 if q else 100, fams, 40 if q else 400, 30 if q else 300)
    nsample = quick_n if q else quick_n * 8
    inits = os.path.join(ctx.work, "edit_inits.ndjson")
    wv(["edit-inits", "inputs=" + inputs, "seed=%d" % ctx.seed, "sample=%d" % nsample, "out=" + inits])
    scripts = os.path.join(ctx.work, "edit_scripts.txt")
    parts = []
    # (a) every single enabled edit of every sampled module (exhaustive, depth 1)
    cfg = write_cfg("Gen_Edits_gen1", "SPECIFICATION GSpec\nCONSTANTS\n  MaxEdits = 1\nINVARIANTS\n  EmitCase\n  StillWF\nCHECK_DEADLOCK FALSE\n")
    p1 = scripts + ".1"
    r = tlc("Gen_Edits", cfg=cfg, workers=8, env={"INITS": inits}, cont=False, capture=("CASE", p1), name="gen-edits-1")
    ctx.add_mc(r, "gen-edits(depth=1,exhaustive)")
    parts.append(p1)
    # (b) random walks of depth 3 (thorough: 5) through the edit actions
    depth = 3 if q else 5
    cfg = write_cfg("Gen_Edits_genD", "SPECIFICATION GSpec\nCONSTANTS\n  MaxEdits = %d\nINVARIANTS\n  EmitCase\n  StillWF\nCHECK_DEADLOCK FALSE\n" % depth)
    p2 = scripts + ".d"
    r = tlc("Gen_Edits", cfg=cfg, workers=8, env={"INITS": inits}, cont=False, capture=("CASE", p2), name="gen-edits-d",
            simulate="num=%d" % (6 if q else 150), extra=["-depth", str(depth + 1), "-seed", str(ctx.seed)])
    ctx.add_mc(r, "gen-edits(depth=%d,simulate)" % depth)
    parts.append(p2)
    # TLC evaluates the printing invariant on every successor it generates, so a simulation run yields many
    # scripts per trace; keep an evenly spaced subset when there are more than the tier's budget
    budget = 6000 if q else 120000
    with open(scripts, "w") as out:
        seen = set()
        allscripts = []
        for p in parts:
            for line in open(p):
                if line not in seen:
                    seen.add(line)
                    allscripts.append(line)
        # the scripts of the two small deterministic families (modules with a ref.func'd exported function, duplicate import
        # names) are always replayed, whatever the sample of the rest: the recorded findings live there
        pinned = [l for l in allscripts if '\\"id\\":\\"reffuncexp-' in l or '\\"id\\":\\"dupimp-' in l]
        pinset = set(pinned)
        rest = [l for l in allscripts if l not in pinset]
        step = max(1, len(rest) // budget)
        kept = pinned[:4000] + rest[::step]
        out.writelines(kept)
    ctx.notes["edit_scripts_generated"] = len(allscripts)
    ctx.notes["edit_scripts_replayed"] = len(kept)
    trace = os.path.join(ctx.work, "edits.ndjson")
    for f in os.listdir(ctx.work):
        if f.startswith("edits.ndjson"):
            os.remove(os.path.join(ctx.work, f))
    shards = 6 if q else 16
    out = wv(["trace-edits", "scripts=" + scripts, "inputs=" + inputs, "seed=%d" % ctx.seed, "sample=%d" % nsample, "out=" + trace, "shards=%d" % shards])
    ctx.notes["harness"] = out.strip().splitlines()[-1]
    os.environ["PROPERTY"] = which
    cases = judge_shards(ctx, "Trace_Edits", ["%s.%d" % (trace, k) for k in range(shards)], label="edits",
                         slim=lambda c: {"id": c["id"], "source": c["source"], "edits": [{k: v for k, v in e.items() if k != "state"} for e in c["events"]]})
    import collections
    ops = collections.Counter(e["op"] for c in cases for e in c["events"])
    ctx.notes["events_by_op"] = dict(ops)
    ctx.notes["successful_replacements"] = sum(1 for c in cases for e in c["events"] if e["op"].startswith("replace_") and e["ret"]["ok"])
    for c in cases[:1] + cases[len(cases) // 2: len(cases) // 2 + 1] + cases[-1:]:
        ctx.sample({"id": c["id"], "events": [{k: v for k, v in e.items() if k not in ("state", "plain_dop")} for e in c["events"]]})
    return cases


def check_C18(ctx):
    ctx.rule = ("design: Edits.tla transformers model-checked from two small states over all edit sequences of length <= 3 (WFInvariant, ReplaceImportedRewiresOneThing, "
                "ReplaceExportedRewiresOneThing); implementation: TLC generates edit scripts (every single enabled edit, incl. replace_imported_func / replace_exported_func on every function "
                "- failing calls included - and random walks) from the observable states of concretised family modules and small generated modules; each is replayed through the public API, "
                "the complete observable state after every call must equal the state Edits.tla predicts (identifier kept, exactly one import removed / exactly one export retargeted, nothing "
                "else changed, Err leaves the state unchanged), and the closing emit and gc;emit must produce valid wasm. A case is one edit history.")
    model_check(ctx, "MC_Edits", cfg="MC_Edits", workers=8, label="design-edits")
    edit_histories(ctx, "C18", 120)
    ctx.assumptions += ["behavioural effect of the replacement body is derived from the state relation (callers keep naming the same id); it is not executed"]


def check_C02(ctx):
    ctx.rule = ("design: Walrus.tla NoPanic/IndexSpacesDense over all families and pass sequences, Edits.tla WFInvariant, Body.tla EmittedBalanced; implementation: every valid input "
                "(families, fixtures, real-world fixture, generated full/stable/MVP/big) x {no pass, GC} x {names on/off} x {producers on/off}, plus well-formed edit histories generated by TLC "
                "from Edits.tla followed by emit and gc;emit: the run must complete without panic and the independent validator must accept the output. A case is one run.")
    q = ctx.quick()
    model_check_many(ctx, [("MC_Walrus", "MC_Walrus_%s" % f.capitalize(), "design-" + f) for f in (["globals", "memories"] if q else FAMILIES)])
    model_check(ctx, "MC_Edits", cfg="MC_Edits", workers=8, label="design-edits")
    n = 300 if q else 10000
    trace = os.path.join(ctx.work, "valid.ndjson")
    inputs = "fixtures,file:%s,%s,gen:%d,gen:%d:stable,gen:%d:mvp,gen:%d:big" % (DODRIO, fam_inputs(ctx, ["tables", "calls"] if q else FAMILIES), n, n // 3, n // 3, n // 20)
    if q:
        # the families are large; the quick tier takes an evenly spaced tenth of them
        pass
    wv(["trace-valid", "inputs=" + inputs, "seed=%d" % ctx.seed, "out=" + trace])
    r, cases = judge_trace(ctx, "Trace_Valid", trace, slim=lambda c: {k: c[k] for k in ("id", "source", "pass", "cfg", "outcome")})
    for c in cases[:2] + cases[-1:]:
        ctx.sample({k: c[k] for k in ("id", "source", "pass", "cfg", "outcome", "out_valid")})
    edit_histories(ctx, "C02", 100)
    # types added, collected and added again (FunctionBuilder after GC): emission must neither panic nor produce an invalid binary
    types_oracle(ctx, "C02")
    ctx.assumptions += ["wasmparser's validator with walrus's feature list is the reference for validity", "DWARF generation on is covered by C10's check, not here"]


BUILDER_CFG = "SPECIFICATION Spec\nCONSTANTS\n  MaxOps = %d\n%sINVARIANTS\n  %s\nCHECK_DEADLOCK FALSE\n"
BUILDER_ALL = '  UnitKinds = {"set32", "set64", "getp", "getq"}\n  MaxPos = 3\n  Sigs = {}\n'
BUILDER_STRUCT = '  UnitKinds = {}\n  MaxPos = 1\n  Sigs = {}\n'
# blocks / loops whose signature has a parameter or a result (InstrSeqType::new), one unit kind, branches to them
BUILDER_TYPED = '  UnitKinds = {"getp"}\n  MaxPos = 2\n  Sigs = {1, 2}\n'
BUILDER_WALK = '  UnitKinds = {"set32", "set64", "getp", "getq", "tcopy", "mcopy", "tinit", "minit"}\n  MaxPos = 3\n  Sigs = {1, 2}\n'
# instructions with two operands of one kind / an operand pair whose order matters, built through the API
BUILDER_PAIRS = '  UnitKinds = {"getp", "tcopy", "mcopy", "tinit", "minit"}\n  MaxPos = 4\n  Sigs = {}\n'


def check_C15(ctx):
    ctx.rule = ("design: Builder.tla (append / positional insert of stack-neutral units, block_at / loop_at / if_else_at, dangling sequences attached later as block / loop / if-else arms, br / br_if / br_table to enclosing "
                "sequences) model-checked for TreeShaped, FlatBalanced, BranchesInRange; implementation: every build history up to the bound (enumerated by TLC) and random longer ones are "
                "replayed on the real FunctionBuilder, finished, emitted and decoded; the trace spec re-executes the history with Builder.tla's actions, computes the in-order flattening and "
                "requires the emitted operator list to equal it modulo an injective type-preserving local map that pins the parameter. A case is one build history.")
    q = ctx.quick()
    L = 3 if q else 4
    cfg = write_cfg("MC_Builder_gen", BUILDER_CFG % (L + 1 if q else L, BUILDER_ALL, "TreeShaped\n  FlatBalanced\n  BranchesInRange"))
    model_check(ctx, "Builder", cfg=cfg, workers=8, label="design-builder")
    hist = os.path.join(ctx.work, "build_histories.txt")
    cfg = write_cfg("Enum_Builder_gen", BUILDER_CFG % (L, BUILDER_ALL, "EmitCase"))
    r = tlc("Builder", cfg=cfg, workers=8, cont=False, capture=("CASE", hist + ".a"), name="enum-builder")
    ctx.add_mc(r, "enum-build-histories(len<=%d)" % L)
    # longer histories: random walks
    D = 9 if q else 14
    cfg = write_cfg("Enum_Builder_genT", BUILDER_CFG % (3, BUILDER_TYPED, "EmitCase"))
    r = tlc("Builder", cfg=cfg, workers=8, cont=False, capture=("CASE", hist + ".t"), name="enum-builder-typed")
    ctx.add_mc(r, "enum-build-histories-with-typed-blocks(len<=3)")
    cfg = write_cfg("Enum_Builder_genP", BUILDER_CFG % (2, BUILDER_PAIRS, "EmitCase"))
    r = tlc("Builder", cfg=cfg, workers=8, cont=False, capture=("CASE", hist + ".p"), name="enum-builder-pairs")
    ctx.add_mc(r, "enum-build-histories-with-two-operand-instructions(len<=2)")
    cfg = write_cfg("MC_Builder_genT", BUILDER_CFG % (3 if q else 4, BUILDER_TYPED, "TreeShaped\n  FlatBalanced\n  BranchesInRange"))
    model_check(ctx, "Builder", cfg=cfg, workers=8, label="design-builder-typed")
    cfg = write_cfg("Enum_Builder_genD", BUILDER_CFG % (D, BUILDER_WALK, "EmitCase"))
    r = tlc("Builder", cfg=cfg, workers=8, cont=False, capture=("CASE", hist + ".b"), name="sim-builder", simulate="num=%d" % (4 if q else 60), extra=["-depth", str(D + 1), "-seed", str(ctx.seed)])
    ctx.add_mc(r, "simulate-build-histories(len<=%d)" % D)
    # structure-only histories one step longer (no units, positions 0..1): complete trees whose last step is a branch;
    # the quick tier replays a seed-keyed stratified sample (half of it with dangling sequences attached later), the thorough tier all
    cfg = write_cfg("Enum_Builder_genS", BUILDER_CFG % (L + 1, BUILDER_STRUCT, "EmitStructCase"))
    # (thorough: 1.8 * 10^7 states, 6 minutes on an idle machine; given more room than the default half hour because a busy
    # machine has needed it)
    r = tlc("Builder", cfg=cfg, workers=8 if q else 12, cont=False, capture=("CASE", hist + ".c"), name="enum-builder-struct", timeout=1800 if q else 5400)
    ctx.add_mc(r, "enum-structure-only-histories(len=%d)" % (L + 1))
    import zlib
    struct_all = [l for l in open(hist + ".c")]
    if q:
        with_att = [l for l in struct_all if "attach" in l]
        rest = [l for l in struct_all if "attach" not in l]
        pick = lambda ls, n: [l for l in ls if (zlib.crc32(l.encode()) + ctx.seed) % max(1, len(ls) // n) == 0]
        struct = pick(with_att, 6000) + pick(rest, 4000)
    else:
        struct = struct_all[::max(1, len(struct_all) // 400000)]
    ctx.notes["structure_only_histories"] = {"enumerated": len(struct_all), "replayed": len(struct)}
    seen = set()
    budget = 4000 if q else 100000
    longer = [l for l in open(hist + ".b")]
    step = max(1, len(longer) // budget)
    with open(hist, "w") as out:
        full = list(open(hist + ".a"))
        if len(full) > 250000:
            # thorough tier, length 4 with every unit kind: a seed-keyed sample keeps the run within half an hour
            full = [l for l in full if (zlib.crc32(l.encode()) + ctx.seed) % max(1, len(full) // 250000) == 0]
        typed_all = [l for l in open(hist + ".t") if "tblock" in l]
        typed = typed_all if not q else [l for l in typed_all if (zlib.crc32(l.encode()) + ctx.seed) % max(1, len(typed_all) // 8000) == 0]
        ctx.notes["typed_block_histories"] = {"enumerated": len(typed_all), "replayed": len(typed)}
        pairs = [l for l in open(hist + ".p") if any(k in l for k in ("tcopy", "mcopy", "tinit", "minit"))]
        ctx.notes["two_operand_instruction_histories"] = len(pairs)
        for line in full + typed + pairs + struct + longer[::step]:
            if line not in seen:
                seen.add(line)
                out.write(line)
    ctx.notes["build_histories"] = len(seen)
    ctx.exhaustive = True
    ctx.notes["exhaustive_over"] = "all build histories of length <= %d (positions 0..3); structure-only histories of length %d are %s; longer histories are random walks" % (L, L + 1, "sampled" if q else "all replayed")
    trace = os.path.join(ctx.work, "builder.ndjson")
    for f in os.listdir(ctx.work):
        if f.startswith("builder.ndjson"):
            os.remove(os.path.join(ctx.work, f))
    shards = 6 if q else 16
    wv(["trace-builder", "histories=" + hist, "out=" + trace, "shards=%d" % shards])
    cases = judge_shards(ctx, "Trace_Builder", ["%s.%d" % (trace, k) for k in range(shards)], label="builder",
                         slim=lambda c: {"id": c["id"], "hist": c["hist"]})
    for c in cases[:1] + cases[len(cases) // 2: len(cases) // 2 + 1] + cases[-1:]:
        ctx.sample({"id": c["id"], "hist": [(e["op"], e["seq"], e["pos"], e["kind"], e["d"]) for e in c["hist"]], "emitted": [o["o"] for o in c["outops"]]})
    # local slots of builder-made functions: Locals.tla
    locals_oracle(ctx, "C15")


def check_C16(ctx):
    ctx.rule = ("design: Traversal.tla transcribes both work-stack loops of ir/traversals.rs over the trees of Builder.tla; TLC checks InOrderIsRecWalk (events = recursive walk) and "
                "PreOrderVisitsEachOnce on every tree up to the bound; implementation: recording visitors (immutable; mutable with default per-instruction hooks; mutable with some hooks "
                "overridden) run over every function of fixtures, generated modules and builder-made trees; TLC compares each callback log with the recursive walk of the tree read by plain "
                "recursion, operands extracted by matching on the instruction. Call-stack independence is observed: nesting depth 10^5 is parsed, traversed by both traversals, GC'd and emitted "
                "in a thread with a 256 KiB stack inside a child process. A case is one (function, traversal flavour).")
    q = ctx.quick()
    L = 3 if q else 4
    cfg = write_cfg("MC_Traversal_gen", BUILDER_CFG % (L, BUILDER_ALL, "InOrderIsRecWalk\n  PreOrderVisitsEachOnce"))
    model_check(ctx, "Traversal", cfg=cfg, workers=8, label="design-traversal")
    hist = os.path.join(ctx.work, "build_histories.txt")
    cfg = write_cfg("Enum_Builder_gen", BUILDER_CFG % (2 if q else 3, BUILDER_ALL, "EmitCase"))
    r = tlc("Builder", cfg=cfg, workers=8, cont=False, capture=("CASE", hist), name="enum-builder")
    ctx.add_mc(r, "enum-build-histories")
    n = 250 if q else 6000
    trace = os.path.join(ctx.work, "traversal.ndjson")
    out = wv(["trace-traversal", "inputs=fixtures,gen:%d,gen:%d:big" % (n, n // 25), "histories=" + hist, "seed=%d" % ctx.seed, "out=" + trace])
    ctx.notes["harness"] = out.strip().splitlines()[-1]
    r, cases = judge_trace(ctx, "Trace_Traversal", trace, slim=lambda c: {"id": c["id"], "source": c["source"], "flavour": c["flavour"]})
    import collections
    ctx.notes["cases_by_flavour"] = dict(collections.Counter(c["flavour"] for c in cases))
    ctx.notes["callbacks_compared"] = sum(len(c["log"]) for c in cases)
    for c in cases[:1] + cases[-1:]:
        ctx.sample({"id": c["id"], "flavour": c["flavour"], "log": c["log"][:8]})
    # call-stack independence: observed in a child process (a stack overflow kills the process)
    deep = []
    for depth in ([1000, 100000] if q else [1000, 100000, 400000]):
        try:
            o = wv(["deep", "depth=%d" % depth, "stack=256"], timeout=600, check=False)
            line = [l for l in o.splitlines() if l.startswith("{")]
            res = json.loads(line[-1]) if line else {"depth": depth, "outcome": "child process died: " + o.strip()[-200:]}
        except ToolError as e:
            res = {"depth": depth, "outcome": "timeout"}
        deep.append(res)
        ctx.evaluations += 1
        want = depth + 1 + depth // 3
        if res.get("outcome") != "ok" or res.get("starts") != want or res.get("mut_starts") != want:
            ctx.report("deep-nesting-%d" % depth, "deep-nesting-not-traversed-on-small-stack", res, {"source": "deep:%d" % depth})
    ctx.notes["deep_nesting"] = deep
    ctx.assumptions += ["stack-depth independence has no TLA+ counterpart beyond 'the transcribed algorithms have no recursion'; it is measured (256 KiB stack, depth 10^5)"]


def check_C05(ctx):
    ctx.rule = ("design: ParseGate.tla over every payload sequence of length <= 3 of {acceptable, invalid, unsupported} payloads of every section kind: "
                "InterpretOnlyValidated, BodiesAfterWholeBinary, OnParseOnlyOnSuccess, termination; implementation: random bytes, structure-aware mutants of valid modules (bit flips, "
                "truncation, section swap / duplicate / delete, oversized counts, opcode substitution, odd section ids, header edits, span deletion), all fixtures incl. invalid ones, one "
                "family of modules per unstable proposal, nesting depth 10^5, each under {default, only_stable_features}, parsed in a child process with a per-case watchdog; TLC requires "
                "outcome in {ok, err}, outcome = ok <=> the standalone validator accepts under the same feature set, and that the hook events are a behaviour of the gate. A case is one "
                "(byte string, configuration).")
    q = ctx.quick()
    cfg = write_cfg("MC_ParseGate_gen", open(os.path.join(SPEC, "MC_ParseGate.cfg")).read().replace("MaxPayloads = 3", "MaxPayloads = %d" % 3))
    model_check(ctx, "ParseGate", cfg=cfg, workers=8, label="design-parse-gate")
    n = 3000 if q else 300000
    trace = os.path.join(ctx.work, "parse.ndjson")
    if os.path.exists(trace):
        os.remove(trace)
    args = ["trace-parse", "inputs=fixtures-all,badnames,gen:%d,gen:%d:stable,proposals:%d" % (60 if q else 1500, 20 if q else 500, 3 if q else 40), "n=%d" % n, "seed=%d" % ctx.seed, "out=" + trace]
    crashes = []
    start = 0
    for attempt in range(50):
        build()
        # the child may not take the machine down: an input that makes the parser allocate without bound dies on its own
        # address-space limit (and is then recorded as a crash of that case)
        def limit():
            import resource
            resource.setrlimit(resource.RLIMIT_AS, (12 << 30, 12 << 30))
        p = subprocess.run([WV] + args + ["start=%d" % start], stdout=subprocess.PIPE, stderr=subprocess.STDOUT, text=True, timeout=7200, preexec_fn=limit)
        if p.returncode == 0:
            break
        done = sum(1 for _ in open(trace)) if os.path.exists(trace) else 0
        # the case that was running when the process died
        k = done - len(crashes) if False else done
        info = wv(["parse-one"] + args[1:] + ["k=%d" % done], check=False)
        try:
            rec = json.loads([l for l in info.splitlines() if l.startswith("{")][-1])
        except Exception:
            rec = {"id": "case-%d" % done, "source": "c05:case:%d" % done}
        outcome = "hang" if p.returncode == 77 else "crash"
        line = {"id": rec["id"], "source": rec["source"], "cfg": "stable" if done % 2 else "default", "verdict": False, "why": "", "outcome": outcome,
                "msg": "child exit %s: %s" % (p.returncode, p.stdout.strip()[-200:]), "events": [], "calls": 0, "len": len(rec.get("hex", "")) // 2, "hooks": False}
        with open(trace, "a") as f:
            f.write(json.dumps(line) + "\n")
        crashes.append(line)
        start = done + 1
    else:
        raise ToolError("trace-parse keeps dying")
    ctx.notes["child_process_deaths"] = len(crashes)
    r, cases = judge_trace(ctx, "Trace_Parse", trace, slim=lambda c: {k: c[k] for k in ("id", "source", "cfg", "verdict", "outcome", "msg")})
    import collections
    ctx.notes["outcomes"] = {"%s/%s/%s" % k: v for k, v in collections.Counter((c["cfg"], "valid" if c["verdict"] else "invalid", c["outcome"]) for c in cases).items()}
    ctx.notes["rejected_by_stable_only"] = sum(1 for a, b in zip(cases[0::2], cases[1::2]) if a["outcome"] == "ok" and b["outcome"] == "err")
    ctx.notes["hook_events_validated"] = sum(len(c["events"]) for c in cases)
    for c in cases[:1] + cases[len(cases) // 2: len(cases) // 2 + 1] + cases[-1:]:
        ctx.sample({k: c[k] for k in ("id", "cfg", "verdict", "outcome", "events", "calls")})
    ctx.assumptions += ["wasmparser's validator under walrus's feature list defines validity; the space of byte strings is sampled"]


def check_C09(ctx):
    ctx.rule = ("design: Parallel.tla - 4 jobs, 3 workers, every interleaving of claim/finish, every assignment of {ok, errA, errB} to jobs: collected vector, first error in job order, "
                "concatenation and `any` equal the serial ones (SameAsSerial), each job once, termination; implementation: the harness is built twice from the same tree (with and without "
                "walrus's `parallel` feature); many-function modules (1..300 functions, equal and unequal sizes, a third with two corrupted bodies) are processed by the serial build and by the "
                "parallel build under RAYON_NUM_THREADS in {1,2,3,4,8,16} x repetitions; TLC requires identical decisions, error messages and byte digests and that the observed job order "
                "(hook events) is a schedule of the serial job list. A case is one input under all runs.")
    q = ctx.quick()
    model_check(ctx, "Parallel", cfg="MC_Parallel", workers=8, label="design-parallel")
    build(parallel=True)
    n = 40 if q else 600
    inputs = "par:%d,fixtures,file:%s" % (n, DODRIO)
    ser = os.path.join(ctx.work, "serial.ndjson")
    wv(["par-digests", "inputs=" + inputs, "seed=%d" % ctx.seed, "out=" + ser])
    serial = read_ndjson(ser)
    runs = {}
    reps = 1 if q else 4
    threads = [1, 2, 3, 4, 8, 16]
    for t in threads:
        for rep in range(reps):
            f = os.path.join(ctx.work, "par_t%d_r%d.ndjson" % (t, rep))
            wv(["par-digests", "inputs=" + inputs, "seed=%d" % ctx.seed, "out=" + f], parallel=True, env={"RAYON_NUM_THREADS": str(t)})
            for c in read_ndjson(f):
                c["threads"] = t
                c["hooks"] = True
                runs.setdefault(c["id"], []).append({k: c[k] for k in ("threads", "hooks", "outcome", "digest", "parse_jobs", "emit_jobs", "threads_seen")})
    trace = os.path.join(ctx.work, "parallel.ndjson")
    with open(trace, "w") as out:
        for c in serial:
            out.write(json.dumps({"id": c["id"], "source": c["source"], "serial": {k: c[k] for k in ("outcome", "digest", "parse_jobs", "emit_jobs")}, "runs": runs.get(c["id"], [])}) + "\n")
    r, cases = judge_trace(ctx, "Trace_Parallel", trace, slim=lambda c: {"id": c["id"], "source": c["source"]})
    orders = set()
    for c in cases:
        for rr in c["runs"]:
            if len(rr["parse_jobs"]) > 1:
                orders.add((c["id"], tuple(rr["parse_jobs"])))
    ctx.notes["parallel_runs_per_input"] = len(threads) * reps
    ctx.notes["distinct_job_orders_observed"] = len(orders)
    ctx.notes["max_threads_seen_in_one_run"] = max((rr["threads_seen"] for c in cases for rr in c["runs"]), default=0)
    ctx.notes["rejected_inputs"] = sum(1 for c in cases if c["serial"]["outcome"] != "ok")
    for c in cases[:1] + cases[-1:]:
        ctx.sample({"id": c["id"], "serial_outcome": c["serial"]["outcome"][:80], "serial_jobs": c["serial"]["parse_jobs"][:10], "a_parallel_order": c["runs"][-1]["parse_jobs"][:10] if c["runs"] else []})
    ctx.assumptions += ["schedules of the real thread pool are sampled by thread count and repetition; exhaustiveness is on the model side only"]


def check_C11(ctx):
    ctx.rule = ("the CodeTransform handed to CustomSection::apply_code_transform (preserve_code_transform on), against the layouts of the input and output code sections decoded "
                "independently: per kept function the pairs form a strictly increasing, name-preserving map from input operator starts onto all output operator starts except inserted ones "
                "(edit-inserted marked instructions, the else walrus adds); every function range equals the output entry [size LEB, end); code_section_start equals the offset of the code "
                "section's contents; no pair belongs to code that was not emitted; for {unchanged, GC, instructions inserted through the builder}. Design: Body.tla (the emitted string is the "
                "parsed one after elision, in order) makes the monotone onto map unique; Layout.tla: PairsJoinSameInstruction, NoPairForUnwritten, RangesTile over every small "
                "configuration. A case is one (module, variant).")
    q = ctx.quick()
    cfg = write_cfg("MC_Body_gen", "SPECIFICATION BSpec\nCONSTANTS\n  MaxLen = %d\n  MaxDepth = 3\nINVARIANTS\n  EmittedMatches\n  EmittedBalanced\nCHECK_DEADLOCK FALSE\n" % (5 if q else 6))
    model_check(ctx, "Body", cfg=cfg, workers=8, label="design-body")
    layout_model(ctx)
    ctl = enum_control_strings(ctx, 4 if q else 5)
    n = 300 if q else 10000
    trace = os.path.join(ctx.work, "xform.ndjson")
    out = wv(["trace-xform", "inputs=ctl:%s,manyimp,bodysizes,bodysizes-big,fixtures,file:%s,gen:%d,gen:%d:many,gen:%d:big" % (ctl, DODRIO, n, 6 if q else 60, n // 20), "seed=%d" % ctx.seed, "out=" + trace])
    ctx.notes["harness"] = out.strip().splitlines()[-1]
    r, cases = judge_trace(ctx, "Trace_Xform", trace, slim=lambda c: {"id": c["id"], "source": c["source"], "variant": c.get("variant")})
    ok = [c for c in cases if c["outcome"] == "ok"]
    ctx.notes["pairs_checked"] = sum(c["npairs"] for c in ok)
    ctx.notes["instructions_inserted_by_edits"] = sum(c["inserted"] for c in ok)
    ctx.notes["function_counts_seen"] = sorted(set(c["nfuncs_out"] for c in ok))[-8:]
    for c in ok[:1] + ok[-1:]:
        ctx.sample({"id": c["id"], "code_section_start": c["code_section_start"], "ranges": c["ranges"][:3], "pairs_of_first_function": c["funcs"][0]["pairs"][:6] if c["funcs"] else []})


def check_C10(ctx):
    ctx.rule = ("modules with synthesized well-formed DWARF (gimli::write; versions 4 and 5; one subprogram per function; one row per instruction whose line number names (function, "
                "instruction); one sequence per function and one sequence spanning all functions) x function counts / body sizes around LEB boundaries x {unchanged, GC, instructions inserted "
                "through the builder}, run with DWARF generation on; rows and subprograms read back with gimli::read; TLC requires every output row to sit at the start of the output "
                "instruction its instruction became (per the code transform that C11 judges), with equal file/column/is_stmt, every surviving instruction's row present exactly once, rows and "
                "subprograms of removed code absent or tombstoned, every subprogram range equal to the function's output entry. Design: Body.tla (order-preserving elision) and Layout.tla -- "
                "the address conversion of debug/expression.rs transcribed (instruction / instruction edge / offset in function / function edge / unknown, inclusive and exclusive "
                "preference) over every configuration of <= 2 functions x <= 3 instructions x kept / dropped instructions x GC x insertions x write order: RowsFollowInstructions, "
                "RowsOfUnwrittenDropped, RowsOfRemovedDropped, SubprogramsFollowFunctions, SubprogramsOfRemovedTombstoned. A case is one (module, DWARF flavour, variant).")
    q = ctx.quick()
    cfg = write_cfg("MC_Body_gen", "SPECIFICATION BSpec\nCONSTANTS\n  MaxLen = %d\n  MaxDepth = 3\nINVARIANTS\n  EmittedMatches\n  EmittedBalanced\nCHECK_DEADLOCK FALSE\n" % (5 if q else 6))
    model_check(ctx, "Body", cfg=cfg, workers=8, label="design-body")
    layout_model(ctx)
    n = 36 if q else 1500
    trace = os.path.join(ctx.work, "dwarf.ndjson")
    out = wv(["trace-dwarf", "inputs=manyimp,bodysizes,gen:%d:small,gen:%d,gen:%d:many,fixtures" % (n, n // 3, 4 if q else 40), "seed=%d" % ctx.seed, "out=" + trace])
    ctx.notes["harness"] = out.strip().splitlines()[-1]
    r, cases = judge_trace(ctx, "Trace_Dwarf", trace, slim=lambda c: {"id": c["id"], "source": c["source"]})
    ok = [c for c in cases if c["outcome"] == "ok"]
    import collections
    ctx.notes["cases_by_flavour"] = {"v%s%s/%s" % k: v for k, v in collections.Counter((c.get("version"), "span" if c.get("spanning") else "", c.get("variant")) for c in cases).items()}
    ctx.notes["rows_checked"] = sum(len(c["in_rows"]) for c in ok)
    ctx.notes["subprograms_checked"] = sum(len(c["in_subs"]) for c in ok)
    ctx.notes["function_counts_seen"] = sorted(set(len(c["in_layout"]) for c in ok))[-6:]
    for c in ok[:1] + ok[-1:]:
        ctx.sample({"id": c["id"], "in_subs": c["in_subs"][:3], "out_subs": c["out_subs"][:3], "in_rows": [(r["addr"], r["fi"], r["k"]) for r in c["in_rows"][:6]], "out_rows": [(r["addr"], r["fi"], r["k"]) for r in c["out_rows"][:6]]})
    ctx.assumptions += ["gimli 0.26 writes and reads the synthesized DWARF faithfully", "low_pc of a subprogram is taken to be the start of the function's code-section entry (its size field), which is the convention walrus's own address tables use",
                        "v5 rows naming file 0 are not synthesized (gimli::write does not emit them)"]


def types_oracle(ctx, prop):
    """Types.tla (the type interner, entry types, what names a type, GC of types, the written type section): model checked,
    its behaviours enumerated / simulated by TLC, replayed on real Modules and validated step by step (Trace_Types.tla) with
    the comparisons that are instances of `prop` enforced."""
    import zlib
    q = ctx.quick()
    cfg = write_cfg("MC_Types_gen", open(os.path.join(SPEC, "MC_Types.cfg")).read().replace("MaxFuncs = 2", "MaxFuncs = %d" % (1 if q else 2)))
    model_check(ctx, "MC_Types", cfg=cfg, workers=8, label="design-types")
    raw = os.path.join(ctx.work, "types_hist")
    cfg = write_cfg("Enum_Types_gen", open(os.path.join(SPEC, "Enum_Types.cfg")).read())
    r = tlc("MC_Types", cfg=cfg, workers=8, cont=False, capture=("CASE", raw + ".a"), name="enum-types")
    ctx.add_mc(r, "enum-type-behaviours(<=2 types, 1 function, 1 edit)")
    cfg = write_cfg("Sim_Types_gen", "SPECIFICATION Spec\nCONSTANTS\n  Lists <- ListsSmall\n  MaxTypes = 3\n  MaxFuncs = 3\n  MaxEdits = 5\n  EditOps = {\"build\", \"findadd\", \"nametype\", \"delete\", \"root\", \"gc\"}\nINVARIANTS\n  EmitCase\nCHECK_DEADLOCK FALSE\n")
    r = tlc("MC_Types", cfg=cfg, workers=8, cont=False, capture=("CASE", raw + ".b"), name="sim-types", simulate="num=%d" % (40 if q else 800), extra=["-depth", "14", "-seed", str(ctx.seed)])
    ctx.add_mc(r, "simulate-type-behaviours(<=3 types, 3 functions, 5 edits)")
    # a type that gets a name, loses its last user, is swept (or not) and is asked for again: every history of four edits over
    # naming, deletion, GC and find / add
    cfg = write_cfg("Enum_Types_genN", "SPECIFICATION Spec\nCONSTANTS\n  Lists <- ListsTwo\n  MaxTypes = %d\n  MaxFuncs = 1\n  MaxEdits = 4\n  EditOps = {\"findadd\", \"nametype\", \"delete\", \"gc\"}\nINVARIANTS\n  EmitCase\nCHECK_DEADLOCK FALSE\n" % (1 if q else 2))
    r = tlc("MC_Types", cfg=cfg, workers=8, cont=False, capture=("CASE", raw + ".n"), name="enum-types-named")
    ctx.add_mc(r, "enum-type-behaviours(naming, deletion, GC, find / add: 4 edits)")
    a = [l for l in open(raw + ".a")] + [l for l in open(raw + ".n") if "nametype" in l]
    b = sorted(set(open(raw + ".b")))
    budget = (4000, 4000) if q else (300000, 200000)
    pick = lambda ls, n: ls if len(ls) <= n else [l for l in ls if (zlib.crc32(l.encode()) + ctx.seed) % max(1, len(ls) // n) == 0]
    hist = raw + ".txt"
    with open(hist, "w") as f:
        f.writelines(pick(a, budget[0]) + pick(b, budget[1]))
    trace = os.path.join(ctx.work, "types.ndjson")
    for f in os.listdir(ctx.work):
        if f.startswith("types.ndjson"):
            os.remove(os.path.join(ctx.work, f))
    shards = 4 if q else 16
    out = wv(["trace-types", "histories=" + hist, "out=" + trace, "shards=%d" % shards])
    os.environ["PROPERTY"] = prop
    cases = judge_shards(ctx, "Trace_Types", ["%s.%d" % (trace, k) for k in range(shards)], label="types", slim=lambda c: {"id": c["id"], "ops": [e["e"] for e in c["events"]]})
    ctx.notes["type_interner_behaviours"] = {"enumerated": len(a), "simulated": len(b), "replayed": len(cases)}
    return cases


def namemap_oracle(ctx):
    """NameMap.tla (names resolved through the parse-time index map, carried by the entities, re-indexed at emission; the GC
    rules that decide which tables / memories / segments survive): model checked, the two slip switches must each produce a
    counterexample, every behaviour up to the bound enumerated by TLC, replayed on real Modules whose entities are recognisable
    by content, and validated step by step (Trace_NameMap.tla)."""
    import zlib
    q = ctx.quick()
    base = open(os.path.join(SPEC, "MC_NameMap.cfg")).read()
    cfg = write_cfg("MC_NameMap_gen", base.replace("MaxOps = 3", "MaxOps = %d" % (3 if q else 4)))
    model_check(ctx, "MC_NameMap", cfg=cfg, workers=8, label="design-namemap")
    for flag in ("SkipActiveInIndex", "EmitBySlot"):
        cfg = write_cfg("MC_NameMap_%s_gen" % flag, base.replace(flag + " = FALSE", flag + " = TRUE"))
        r = tlc("MC_NameMap", cfg=cfg, workers=4, cont=False, name="namemap-" + flag)
        if "is violated" not in r.out:
            raise ToolError("vacuity: NameMap.tla with %s = TRUE satisfies every invariant" % flag)
        ctx.add_mc(r, "design-namemap(%s: counterexample found, as it must be)" % flag)
    raw = os.path.join(ctx.work, "namemap_hist")
    cfg = write_cfg("Enum_NameMap_gen", open(os.path.join(SPEC, "Enum_NameMap.cfg")).read().replace("MaxOps = 3", "MaxOps = %d" % (3 if q else 4)))
    r = tlc("MC_NameMap", cfg=cfg, workers=8, cont=False, capture=("CASE", raw + ".all"), name="enum-namemap")
    ctx.add_mc(r, "enum-namemap-behaviours")
    lines = sorted(set(open(raw + ".all")))
    total = len(lines)
    budget = 5000 if q else 120000
    if len(lines) > budget:
        lines = [l for l in lines if (zlib.crc32(l.encode()) + ctx.seed) % max(1, len(lines) // budget) == 0]
    with open(raw + ".txt", "w") as f:
        f.writelines(lines)
    trace = os.path.join(ctx.work, "namemap.ndjson")
    for f in os.listdir(ctx.work):
        if f.startswith("namemap.ndjson"):
            os.remove(os.path.join(ctx.work, f))
    shards = 2 if q else 16
    wv(["trace-namemap", "histories=" + raw + ".txt", "out=" + trace, "shards=%d" % shards])
    cases = judge_shards(ctx, "Trace_NameMap", ["%s.%d" % (trace, k) for k in range(shards)], label="namemap",
                         slim=lambda c: {"id": c["id"], "ops": [e["e"] for e in c["events"]]})
    ctx.notes["namemap_behaviours"] = {"enumerated": total, "replayed": len(cases)}
    return cases


def layout_model(ctx):
    """Layout.tla: byte layout before / after, the recorded code transform and the DWARF address conversion, over every
    configuration up to the bound; the two legacy switches must each produce a counterexample (vacuity guard)."""
    q = ctx.quick()
    base = open(os.path.join(SPEC, "MC_Layout.cfg")).read()
    # quick: <= 2 functions of <= 2 instructions exhaustively is a few seconds; the full bound takes most of a minute
    cfg = write_cfg("MC_Layout_gen", base.replace("MaxInstrs = 3", "MaxInstrs = %d" % (2 if q else 3)))
    model_check(ctx, "Layout", cfg=cfg, workers=8, label="design-layout")
    for flag in ("LegacyLowPc", "NopsUnrecorded"):
        cfg = write_cfg("MC_Layout_%s_gen" % flag, base.replace("MaxInstrs = 3", "MaxInstrs = 2").replace(flag + " = FALSE", flag + " = TRUE"))
        r = tlc("Layout", cfg=cfg, workers=4, cont=False, name="layout-" + flag)
        if "is violated" not in r.out:
            raise ToolError("vacuity: Layout.tla with %s = TRUE satisfies every invariant" % flag)
        ctx.add_mc(r, "design-layout(%s: counterexample found, as it must be)" % flag)


def locals_oracle(ctx, prop):
    """Locals.tla (allocation in any order, any locals as parameters, slot assignment at emission, names following their
    locals): model checked; every behaviour up to the bound enumerated by TLC, built with FunctionBuilder on a real Module,
    emitted, and judged by the relation the model's emission satisfies (Trace_Locals.tla)."""
    q = ctx.quick()
    cfg = write_cfg("MC_Locals_gen", open(os.path.join(SPEC, "MC_Locals.cfg")).read().replace("MaxLocals = 4", "MaxLocals = %d" % (3 if q else 4)))
    model_check(ctx, "MC_Locals", cfg=cfg, workers=8, label="design-locals")
    raw = os.path.join(ctx.work, "locals_hist.txt")
    cfg = write_cfg("Enum_Locals_gen", open(os.path.join(SPEC, "Enum_Locals.cfg")).read().replace("MaxUses = 3", "MaxUses = %d" % 3))
    r = tlc("MC_Locals", cfg=cfg, workers=8, cont=False, capture=("CASE", raw + ".all"), name="enum-locals")
    ctx.add_mc(r, "enum-locals-behaviours")
    import zlib
    allb = [l for l in open(raw + ".all")]
    budget = 30000 if q else 300000
    keep = allb if len(allb) <= budget else [l for l in allb if (zlib.crc32(l.encode()) + ctx.seed) % max(1, len(allb) // budget) == 0]
    with open(raw, "w") as f:
        f.writelines(keep)
    ctx.notes["locals_behaviours"] = {"enumerated": len(allb), "replayed": len(keep)}
    trace = os.path.join(ctx.work, "locals.ndjson")
    wv(["trace-locals", "histories=" + raw, "out=" + trace])
    os.environ["PROPERTY"] = prop
    r, cases = judge_trace(ctx, "Trace_Locals", trace, slim=lambda c: {"id": c["id"], "hist": c["hist"]})
    ctx.notes["locals_behaviours_replayed"] = len(cases)
    return cases


def producers_oracle(ctx):
    """Producers.tla (ModuleProducers' API, what parse and emit do with the section): model checked, every behaviour up to the
    bound enumerated by TLC, replayed on real Modules and validated step by step (Trace_Producers.tla)."""
    q = ctx.quick()
    cfg = write_cfg("MC_Producers_gen", open(os.path.join(SPEC, "MC_Producers.cfg")).read().replace("MaxOps = 4", "MaxOps = %d" % (4 if q else 5)))
    model_check(ctx, "MC_Producers", cfg=cfg, workers=8, label="design-producers")
    raw = os.path.join(ctx.work, "producers_hist.txt")
    cfg = write_cfg("Enum_Producers_gen", open(os.path.join(SPEC, "Enum_Producers.cfg")).read().replace("MaxOps = 3", "MaxOps = %d" % (3 if q else 4)))
    r = tlc("MC_Producers", cfg=cfg, workers=8, cont=False, capture=("CASE", raw), name="enum-producers")
    ctx.add_mc(r, "enum-producers-behaviours")
    # a seed-keyed sample when the bound yields more behaviours than one run can judge (the thorough tier's 7 * 10^5)
    import zlib
    lines = sorted(set(open(raw)))
    total = len(lines)
    budget = 150000
    if total > budget:
        lines = [l for l in lines if (zlib.crc32(l.encode()) + ctx.seed) % max(1, total // budget) == 0]
        with open(raw, "w") as f:
            f.writelines(lines)
    trace = os.path.join(ctx.work, "producers.ndjson")
    for f in os.listdir(ctx.work):
        if f.startswith("producers.ndjson"):
            os.remove(os.path.join(ctx.work, f))
    wv(["trace-producers", "histories=" + raw, "out=" + trace])
    # judged in pieces, concurrently
    shards = 1 if q else 8
    parts = [trace] if shards == 1 else ["%s.%d" % (trace, k) for k in range(shards)]
    if shards > 1:
        outs = [open(p, "w") for p in parts]
        for k, l in enumerate(open(trace)):
            outs[k % shards].write(l)
        for o in outs:
            o.close()
    cases = judge_shards(ctx, "Trace_Producers", parts, label="producers", slim=lambda c: {"id": c["id"], "ops": [e["e"] for e in c["events"]]})
    ctx.notes["producers_behaviours"] = {"enumerated": total, "replayed": len(cases)}
    return cases


def exec_control_strings(ctx, maxlen, budget):
    """Control strings over Body.tla's ExecAlphabet; a seed-keyed stratified sample (half with an else arm) when over budget."""
    import zlib
    raw = os.path.join(ctx.work, "ectl%d.raw" % maxlen)
    cfg = write_cfg("Enum_Body_exec_gen", "SPECIFICATION BSpec\nCONSTANTS\n  MaxLen = %d\n  MaxDepth = 3\n  Alphabet <- ExecAlphabet\nINVARIANTS\n  EmitCase\nCHECK_DEADLOCK FALSE\n" % maxlen)
    r = tlc("Body", cfg=cfg, workers=8, cont=False, capture=("CASE", raw), name="enum-body-exec")
    ctx.add_mc(r, "enum-exec-control-strings(len<=%d)" % maxlen)
    lines = [l for l in open(raw)]
    total = len(lines)
    if len(lines) > budget:
        pick = lambda ls, n: [l for l in ls if (zlib.crc32(l.encode()) + ctx.seed) % max(1, len(ls) // max(1, n)) == 0]
        lines = pick([l for l in lines if "Else" in l], budget // 2) + pick([l for l in lines if "Else" not in l], budget // 2)
    out = os.path.join(ctx.work, "ectl%d.txt" % maxlen)
    with open(out, "w") as f:
        f.writelines(lines)
    ctx.notes["exec_control_strings"] = {"enumerated": total, "executed": len(lines), "maxlen": maxlen}
    return out


def exec_oracle(ctx, gc, n, shards, extra=""):
    """Differential execution in TLA+: Exec.tla runs the module before and after walrus and compares observations."""
    trace = os.path.join(ctx.work, "exec%d.ndjson" % gc)
    for f in os.listdir(ctx.work):
        if f.startswith("exec%d.ndjson" % gc):
            os.remove(os.path.join(ctx.work, f))
    out = wv(["trace-exec", "inputs=gen:%d:exec,exectab:%d,execbulk:%d,fixtures%s" % (n, max(40, n // 10), max(30, n // 15), extra), "gc=%d" % gc, "seed=%d" % ctx.seed, "out=" + trace, "shards=%d" % shards])
    ctx.notes.setdefault("harness", []).append(out.strip().splitlines()[-1])
    allc = []
    from concurrent.futures import ThreadPoolExecutor

    def one(k):
        path = "%s.%d" % (trace, k)
        if not os.path.exists(path) or os.path.getsize(path) == 0:
            return None
        return path, tlc("Exec", cfg="Trace_Exec", workers=4, tracefile=path, timeout=3000, cont=True, name="exec-%d-%d" % (gc, k), xmx="6g")

    with ThreadPoolExecutor(max_workers=4) as ex:
        results = [r for r in ex.map(one, range(shards)) if r]
    for path, r in results:
        cases = read_ndjson(path)
        allc += cases
        ctx.add_mc(r, "exec:" + os.path.basename(path))
        ctx.traces += len(cases)
        ctx.evaluations += len(cases)
        by_id = {c["id"]: c for c in cases}
        for rej in r.rejects:
            c = by_id.get(str(rej[0]), {})
            ctx.report(rej[0], rej[1], rej[2:], {"source": c.get("source"), "calls": c.get("calls")})
    bad = read_ndjson(trace + ".bad") if os.path.exists(trace + ".bad") and os.path.getsize(trace + ".bad") else []
    for c in bad:
        ctx.evaluations += 1
        ctx.report(c["id"], "outcome", c["outcome"], {"source": c["source"]})
    ctx.notes["calls_executed"] = ctx.notes.get("calls_executed", 0) + sum(len(c["calls"]) for c in allc)
    for c in allc[:1] + allc[-1:]:
        ctx.sample({"id": c["id"], "calls": c["calls"][:4], "functions": len(c["inp"]["funcs"]), "first_body": json.dumps(next((f["body"] for f in c["inp"]["funcs"] if not f["imported"]), []))[:300]})
    return allc


def check_C01(ctx):
    ctx.rule = ("Exec.tla: a small-step semantics (one TLC state per executed instruction) of an i32 subset with locals, globals, structured control, br/br_if/br_table, calls, call_indirect, "
                "byte and word loads/stores on several memories, host calls, instantiation with active segments and start function. For every generated module of the subset (and every fixture "
                "in it) TLC instantiates and runs the input and the round-tripped output over the same call sequence on one instance (every exported function twice) and compares instantiation "
                "outcome, results/traps, host-call trace and exported globals, memories and tables. Every valid control string (if/else/block/br/br_if/br_table/return/unreachable, nesting <= 3) up to "
                "length 7 enumerated from Body.tla is made executable (a host-call marker before every symbol, conditions taken from the argument) and run for all 8 condition vectors. Outside the subset C01 rests on C03 (every operator, operand and immediate preserved) and "
                "C04 (structure preserved). A case is one module with its call sequence.")
    q = ctx.quick()
    cfg = write_cfg("MC_Body_gen", "SPECIFICATION BSpec\nCONSTANTS\n  MaxLen = %d\n  MaxDepth = 3\nINVARIANTS\n  EmittedMatches\n  EmittedBalanced\nCHECK_DEADLOCK FALSE\n" % (5 if q else 6))
    model_check(ctx, "Body", cfg=cfg, workers=8, label="design-body (elision is order preserving)")
    ectl = exec_control_strings(ctx, 7, 5000 if q else 10 ** 9)
    exec_oracle(ctx, 0, 600 if q else 30000, 4 if q else 16, extra=",ectl:" + ectl)
    ctx.assumptions += ["values live in Z/2^15 and memory words are folded into that range: the two programs run under the same semantics, which is what a differential oracle needs",
                        "floating point, SIMD, atomics, 64-bit arithmetic, reference instructions are not executed; for them C01 follows from C03 and C04",
                        "function identity across the round trip (table contents, host-call names) is read off walrus's own index maps"]
