"""Per-property checks.  Each check_<ID>(ctx) explores, reports rejected cases through ctx.report and
leaves counters in ctx; the driver writes evidence and the exit code."""
import os, json
from driver import *

FAMILIES = ["calls", "globals", "tables", "memories"]


def enum_family(ctx, fam):
    """TLC writes one family of Families.tla as ndjson; cached per run directory."""
    out = os.path.join(ctx.work, "fam_%s.ndjson" % fam)
    r = tlc("Enum_Families", workers=1, env={"FAMILY": fam, "OUTFILE": out}, cont=False, name="enum-" + fam)
    n = sum(1 for _ in open(out))
    ctx.notes.setdefault("enumerated", {})[fam] = n
    return out, n


def fam_inputs(ctx, fams):
    parts = []
    for f in fams:
        path, n = enum_family(ctx, f)
        parts.append("fam:%s:%s" % (f, path))
    return ",".join(parts)


def replay_generic(ctx, rep):
    log("replay file: property=%s case=%s reason=%s" % (rep.get("property"), rep.get("case"), rep.get("reason")))
    log(json.dumps(rep.get("detail"))[:2000])
    src = rep.get("source")
    if src:
        log("input source: %s (regenerate with: harness/target/release/wv input source=%s)" % (src, src))
    # re-run the whole check; the case is deterministic in (seed, tier)
    os.environ["VERIF_SEED"] = str(rep.get("seed", 1))
    ctx.seed = int(rep.get("seed", 1))
    ctx.tier = rep.get("tier", "quick")
    globals()["check_" + ctx.prop](ctx)


# ------------------------------------------------------------------------------------------------
def check_C04(ctx):
    ctx.rule = ("design: Walrus.tla over all modules of Families.tla (plain emit); implementation: every family module concretised to wasm, "
                "all valid repository fixtures and generated modules round-tripped; TLC judges Iso(in,out,sigma) with every entity kept. "
                "A case is one module; non-trivial = it has at least one import, segment or export.")
    fams = FAMILIES if not ctx.quick() else ["tables", "memories"]
    model_check_many(ctx, [("MC_Walrus", "MC_Walrus_%s_emit" % f.capitalize(), "design-" + f) for f in FAMILIES])
    n = 600 if ctx.quick() else 20000
    trace = os.path.join(ctx.work, "structure.ndjson")
    inputs = "fixtures,%s,gen:%d,gen:%d:stable,gen:%d:mvp" % (fam_inputs(ctx, fams), n, n // 4, n // 4)
    wv(["trace-structure", "inputs=" + inputs, "seed=%d" % ctx.seed, "out=" + trace])
    r, cases = judge_trace(ctx, "Trace_Structure", trace, slim=lambda c: {k: c[k] for k in ("id", "source", "outcome", "sigma")})
    for c in cases[:2] + cases[-2:]:
        ctx.sample({"id": c["id"], "source": c["source"], "imports": len(c["inm"]["imports"]), "funcs": len(c["inm"]["funcs"]), "elems": len(c["inm"]["elems"]), "data": len(c["inm"]["data"]), "sigma_func": c["sigma"]["func"]})
    ctx.assumptions += ["wasmparser 0.214 decodes both binaries faithfully", "the renumbering is proposed from walrus's own parse-time and emit-time maps and *checked* by TLC"]
