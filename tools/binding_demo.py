#!/usr/bin/env python3
"""Demonstrates that the trace specifications are bound to what the implementation logged: one recorded field of an
otherwise accepted trace is corrupted and the trace specification must reject exactly that trace line.

Uses the traces the quick checks leave under .work/ (run ./check C17, C07, C14, C15, C13, C01 first).  Diagnostic, not a
registered check.  Prints one line per demonstration and exits non-zero if a corrupted trace was accepted.
"""
import json, os, subprocess, sys, tempfile
ROOT = os.path.dirname(os.path.dirname(os.path.abspath(__file__)))
SPEC = os.path.join(ROOT, "spec")


def tlc(spec, cfg, trace, prop=None, workers=1):
    env = dict(os.environ, TRACEFILE=trace, JAVA_TOOL_OPTIONS="-Xss1g -Dtlc2.tool.queue.IStateQueue=StateDeque")
    if prop:
        env["PROPERTY"] = prop
    meta = tempfile.mkdtemp(prefix="binding-", dir=os.path.join(ROOT, ".work"))
    cmd = ["tlc", "-workers", str(workers), "-continue", "-metadir", meta, "-cleanup", "-noGenerateSpecTE", "-config", cfg, spec]
    p = subprocess.run(cmd, cwd=SPEC, env=env, stdout=subprocess.PIPE, stderr=subprocess.STDOUT, text=True, timeout=600)
    subprocess.run(["rm", "-rf", meta])
    return [l for l in p.stdout.splitlines() if "REJECT" in l]


def lines(path, n=40):
    out = []
    with open(path) as f:
        for l in f:
            out.append(json.loads(l))
            if len(out) >= n:
                break
    return out


def demo(name, spec, cfg, src, corrupt, prop=None, workers=1):
    if not os.path.exists(src):
        print("%-28s SKIPPED (run the quick check first: %s missing)" % (name, src))
        return True
    pool = lines(src, 5000)
    good = os.path.join(ROOT, ".work", "binding-good.ndjson")
    bad = os.path.join(ROOT, ".work", "binding-bad.ndjson")
    # ten lines plus the first one that has the field to corrupt
    k = next((i for i, c in enumerate(pool) if corrupt(json.loads(json.dumps(c)))), None)
    cases = pool[:10] + ([pool[k]] if k is not None and k >= 10 else [])
    with open(good, "w") as f:
        f.write("".join(json.dumps(c) + "\n" for c in cases))
    victim = None
    for c in cases:
        if corrupt(c):
            victim = c["id"]
            break
    with open(bad, "w") as f:
        f.write("".join(json.dumps(c) + "\n" for c in cases))
    r_good = tlc(spec, cfg, good, prop, workers)
    r_bad = tlc(spec, cfg, bad, prop, workers)
    ok = victim is not None and not r_good and any(str(victim) in l for l in r_bad)
    print("%-28s %s (uncorrupted: %d rejections; corrupted line %s: %s)" % (name, "bound" if ok else "NOT BOUND", len(r_good), victim, "rejected" if any(str(victim) in l for l in r_bad) else "accepted"))
    return ok


def c_arena(c):
    for e in c["events"]:
        if e["op"] == "get" and e.get("found"):
            e["v"] += 1          # the item an identifier denotes
            return True
    return False


def c_types(c):
    for e in c["events"]:
        if e["op"] == "gc" and not e["obs"]["skip"]:
            e["obs"]["types"] = e["obs"]["types"] + ["()->()"]    # a type the pass should have collected
            return True
    return False


def c_producers(c):
    for e in c["events"]:
        if e["op"] == "roundtrip" and e["obs"]["fields"]:
            e["obs"]["fields"][0]["values"].append(["walrus", "W"])   # walrus recorded once more
            return True
    return False


def c_builder(c):
    for o in c["outops"]:
        if o["o"] in ("Br", "BrIf") and o["labels"]:
            o["labels"][0] += 1       # a branch depth
            return True
    return False


def c_locals(c):
    if c["outuses"]:
        c["outuses"][0] += 1          # the slot a local operand names
        return True
    return False


def c_namemap(c):
    for e in c["events"]:
        if e["op"] == "emit" and e["out"]["names"]:
            e["out"]["names"][0][2] += "~"      # an emitted name
            return True
    return False


def c_exec(c):
    # the body of the first called function of the *output* program traps instead
    if not c.get("calls") or c.get("outcome") != "ok":
        return False
    name = c["calls"][0]["name"]
    ex = [e for e in c["outp"]["exports"] if e["kind"] == "func" and e["name"] == name]
    if not ex or c["outp"]["funcs"][ex[0]["idx"]]["imported"]:
        return False
    c["outp"]["funcs"][ex[0]["idx"]]["body"] = [{"o": "Unreachable"}]
    return True


W = os.path.join(ROOT, ".work")
ok = all([
    demo("Trace_Arena (C17)", "Trace_Arena.tla", "Trace_Arena_plain.cfg", os.path.join(W, "C17", "arena.ndjson.plain.0"), c_arena),
    demo("Trace_Types (C07)", "Trace_Types.tla", "Trace_Types.cfg", os.path.join(W, "C07", "types.ndjson.0"), c_types, prop="C07"),
    demo("Trace_Producers (C14)", "Trace_Producers.tla", "Trace_Producers.cfg", os.path.join(W, "C14", "producers.ndjson"), c_producers),
    demo("Trace_Builder (C15)", "Trace_Builder.tla", "Trace_Builder.cfg", os.path.join(W, "C15", "builder.ndjson.0"), c_builder),
    demo("Trace_NameMap (C13)", "Trace_NameMap.tla", "Trace_NameMap.cfg", os.path.join(W, "C13", "namemap.ndjson.0"), c_namemap),
    demo("Exec (C01)", "Exec.tla", "Trace_Exec.cfg", os.path.join(W, "C01", "exec0.ndjson.0"), c_exec, workers=4),
    demo("Trace_Locals (C15)", "Trace_Locals.tla", "Trace_Locals.cfg", os.path.join(W, "C15", "locals.ndjson"), c_locals, prop="C15", workers=4),
])
sys.exit(0 if ok else 1)
