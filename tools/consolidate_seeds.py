#!/usr/bin/env python3
"""Rebuild the `checks` part of seeded/<name>/meta.json from the seed-run logs (.work/seedrun*.log, in run order):
per property the latest exit / violation count, whether the first run already detected the change, and how many runs
there were.  Bookkeeping only; the logs are what tools/seed.py printed."""
import glob, json, os, re
ROOT = os.path.dirname(os.path.dirname(os.path.abspath(__file__)))
logs = sorted(glob.glob(os.path.join(ROOT, ".work", "seedrun*.log")), key=lambda p: int(re.findall(r"(\d+)", os.path.basename(p))[0]))
runs = {}
for lg in logs:
    for l in open(lg, errors="replace"):
        m = re.match(r"^(C\d\d[a-z]?(?:-[\w.-]+)?) (C\d\d) exit (-?\d+) violation lines (\d+) (\d+)s", l)
        if m:
            runs.setdefault(m.group(1), {}).setdefault(m.group(2), []).append({"exit": int(m.group(3)), "violations": int(m.group(4)), "wall_s": int(m.group(5)), "log": os.path.basename(lg)})
n = 0
import sys
only = sys.argv[1] if len(sys.argv) > 1 else ""     # e.g. "f-" : only the seeds whose name contains this
for d in sorted(os.listdir(os.path.join(ROOT, "seeded"))):
    mp = os.path.join(ROOT, "seeded", d, "meta.json")
    if not os.path.exists(mp) or d not in runs or not re.search(only, d):
        continue
    meta = json.load(open(mp))
    checks = {}
    for prop, rs in runs[d].items():
        last = rs[-1]
        checks[prop] = {"exit": last["exit"], "violations": last["violations"], "detected": last["exit"] == 1, "wall_s": last["wall_s"],
                        "first_run_detected": rs[0]["exit"] == 1, "runs": len(rs)}
    meta["checks"] = checks
    json.dump(meta, open(mp, "w"), indent=1)
    n += 1
print("updated", n)
own_missed = [d for d in sorted(runs) if re.search(only, d) and os.path.exists(os.path.join(ROOT, "seeded", d)) and not any(r["exit"] == 1 for rs in runs[d].values() for r in rs)]
print("never detected:", own_missed)
