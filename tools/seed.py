#!/usr/bin/env python3
"""Seeded-defect bookkeeping.

  seed.py confirm <worktree> <prop> <name>   confirm a sub-agent's change in its scratch worktree (baseline still passes,
                                              demo fails with the change and passes without) and file it under seeded/<name>/
  seed.py run <name> <prop> [<prop>...]      apply seeded/<name>/patch.diff to /repo, run the quick checks, undo, record
"""
import json, os, re, subprocess, sys, time, shutil
ROOT = os.path.dirname(os.path.dirname(os.path.abspath(__file__)))

def sh(cmd, cwd=None, timeout=3600):
    p = subprocess.run(cmd, shell=True, cwd=cwd, stdout=subprocess.PIPE, stderr=subprocess.STDOUT, text=True, timeout=timeout)
    return p.returncode, p.stdout

def passing(repo):
    base = json.load(open('/root/.vp/BASELINE.json'))
    want = set(base['stable_pass'])
    rc, out = sh("cargo test --workspace --no-fail-fast --offline 2>&1", cwd=repo)
    crate = None; passed = set()
    for line in out.splitlines():
        m = re.match(r"\s+Running (?:unittests )?(\S+) \(target/debug/deps/([a-z_0-9]+)-", line)
        if m:
            src, b = m.group(1), m.group(2)
            crate = ("walrus-tests::" + b) if src.startswith("tests/") else ("walrus" if b == "walrus" else b.replace("_", "-"))
            continue
        m = re.match(r"test (\S+) \.\.\. ok", line)
        if m and crate:
            passed.add(crate + "::" + m.group(1))
    return sorted(want - passed)

def confirm(wt, prop, name):
    sd = os.path.join(wt, "_seeded")
    patch = os.path.join(sd, "patch.diff")
    assert os.path.exists(patch), "no patch.diff"
    demo = "seeded_" + prop.lower()
    res = {"property": prop, "worktree": wt}
    # 1. with the change: baseline passes, demo fails
    missing = passing(wt)
    res["baseline_missing_with_change"] = missing
    rc, out = sh("cargo test -p walrus-tests --test %s --offline %s 2>&1" % (demo, os.environ.get("SEED_DEMO_ARGS", "")), cwd=wt)
    res["demo_with_change"] = "fails" if rc != 0 else "passes"
    res["demo_with_change_tail"] = "\n".join(out.splitlines()[-6:])
    # 2. without the change (source only): demo passes
    rc, _ = sh("git apply -R _seeded/patch.diff", cwd=wt)
    assert rc == 0, "cannot revert patch"
    rc, out = sh("cargo test -p walrus-tests --test %s --offline %s 2>&1" % (demo, os.environ.get("SEED_DEMO_ARGS", "")), cwd=wt)
    res["demo_without_change"] = "passes" if rc == 0 else "fails"
    sh("git apply _seeded/patch.diff", cwd=wt)
    # 3. the patch applies to /repo
    rc, out = sh("git -C /repo apply --check %s" % patch)
    res["applies_to_repo"] = rc == 0
    ok = (not missing) and res["demo_with_change"] == "fails" and res["demo_without_change"] == "passes" and res["applies_to_repo"]
    res["confirmed"] = ok
    print(json.dumps(res, indent=1))
    if ok:
        dst = os.path.join(ROOT, "seeded", name)
        os.makedirs(dst, exist_ok=True)
        for f in os.listdir(sd):
            shutil.copy(os.path.join(sd, f), os.path.join(dst, f))
        notes = open(os.path.join(sd, "NOTES.md")).read() if os.path.exists(os.path.join(sd, "NOTES.md")) else ""
        meta = {"property": prop, "name": name, "origin": "independent sub-agent given only the property text and a scratch worktree",
                "needs_to_manifest": notes[:1500], "confirmed": {"existing_suite_passes_with_change": True, "demo_fails_with_change": True, "demo_passes_without_change": True},
                "ran": ["cargo test --workspace --no-fail-fast --offline (134 baseline tests pass)", "cargo test -p walrus-tests --test %s --offline (fails with / passes without the change)" % demo],
                "checks": {}}
        json.dump(meta, open(os.path.join(dst, "meta.json"), "w"), indent=1)
    return ok

def run(name, props):
    dst = os.path.join(ROOT, "seeded", name)
    patch = os.path.join(dst, "patch.diff")
    rc, out = sh("git -C /repo status --porcelain")
    assert out.strip() == "", "/repo is not clean:\n" + out
    rc, out = sh("git -C /repo apply %s" % patch)
    assert rc == 0, out
    meta = json.load(open(os.path.join(dst, "meta.json")))
    try:
        for p in props:
            t = time.time()
            rc, out = sh("VERIF_EVIDENCE_DIR=%s ./check %s --tier quick" % (os.path.join(ROOT, ".work", "seed-evidence"), p), cwd=ROOT, timeout=3000)
            viol = [l for l in out.splitlines() if l.startswith("VIOLATION")]
            detail = [l.strip() for l in out.splitlines() if l.startswith("    ")][:3]
            meta["checks"][p] = {"exit": rc, "violations": len(viol), "detected": rc == 1, "first": detail[:2], "wall_s": round(time.time() - t, 1)}
            print(name, p, "exit", rc, "violation lines", len(viol), "%.0fs" % (time.time() - t))
            for d in detail[:2]:
                print("     ", d[:300])
            if rc == 2:
                print(out[-1500:])
    finally:
        sh("git -C /repo checkout -- .")
        rc, out = sh("git -C /repo status --porcelain")
        assert out.strip() == "", out
    json.dump(meta, open(os.path.join(dst, "meta.json"), "w"), indent=1)

if sys.argv[1] == "confirm":
    sys.exit(0 if confirm(sys.argv[2], sys.argv[3], sys.argv[4]) else 1)
elif sys.argv[1] == "run":
    run(sys.argv[2], sys.argv[3:])
