#!/usr/bin/env python3
"""Runs the repository's test suite (guard off) and compares the passing set with /root/.vp/BASELINE.json."""
import json, re, subprocess, sys
base = json.load(open('/root/.vp/BASELINE.json'))
want = set(base['stable_pass'])
p = subprocess.run("cd /repo && cargo test --workspace --no-fail-fast --offline 2>&1", shell=True, stdout=subprocess.PIPE, text=True)
crate = None
passed = set()
for line in p.stdout.splitlines():
    m = re.match(r"\s+Running (?:unittests )?(\S+) \(target/debug/deps/([a-z_]+)-", line)
    if m:
        src, binname = m.group(1), m.group(2)
        if src.startswith("tests/"):
            crate = "walrus-tests::" + binname
        elif binname == "walrus":
            crate = "walrus"
        else:
            crate = binname.replace("_", "-")
        continue
    m = re.match(r"test (\S+) \.\.\. ok", line)
    if m and crate:
        passed.add(crate + "::" + m.group(1))
missing = sorted(want - passed)
print("baseline tests: %d, passing now: %d, missing: %d" % (len(want), len(want & passed), len(missing)))
for t in missing[:20]:
    print("  MISSING", t)
sys.exit(1 if missing else 0)
