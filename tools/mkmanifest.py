#!/usr/bin/env python3
"""Regenerates MANIFEST.json from the table below (single source of truth for the interface)."""
import json, os, subprocess
ROOT = os.path.dirname(os.path.dirname(os.path.abspath(__file__)))
IDS = ["C%02d" % i for i in range(1, 21)]

CHECKS = {
    "C04": dict(
        technique="TLA+ relation Iso(in,out,sigma) (ModuleGraph.tla) model-checked on the Walrus.tla pipeline model and evaluated by TLC on recorded round trips (trace validation)",
        text="Walrus.tla (parse/emit pipeline) is model-checked exhaustively over the four input families of Families.tla with invariants OutputIsIso and NothingDroppedWithoutPass; the same families are concretised to wasm and, together with all valid fixtures and generated modules (full, stable-only and MVP feature profiles), round-tripped through the real code; TLC evaluates Iso on every recorded (in, out, sigma) triple.",
        note="Trusted: wasmparser 0.214 as decoder of both binaries; TLC. The renumbering sigma is proposed from walrus's own index maps and checked, never assumed. Bounded: family sizes in Families.tla; generated modules are samples.",
        design_ref="DESIGN.md §5 C04"),
}

def main():
    hooks_commits = []
    try:
        out = subprocess.run(["git", "-C", "/repo", "log", "--format=%H %s"], capture_output=True, text=True).stdout
        hooks_commits = [l.split()[0] for l in out.splitlines() if " verif-hook:" in l or l.split(" ", 1)[1].startswith("verif-hook")]
    except Exception:
        pass
    m = {
        "version": 1,
        "setup_cmd": "./check setup",
        "hooks": {
            "guard": "walrus_verif",
            "enable": "harness/.cargo/config.toml passes --cfg walrus_verif to every crate of the harness build (walrus is a path dependency on /repo)",
            "baseline_off_cmd": "cd /repo && cargo test --workspace --no-fail-fast --offline",
            "source_commits": hooks_commits,
            "add_only": True,
        },
        "engines": [
            {"name": "tlc", "path": "spec/", "serves_properties": sorted(CHECKS), "kind_free_text": "TLA+ design specs (MC_*.cfg, exhaustive small scope) and trace specs (Trace_*.tla) evaluated by TLC 1.8"},
            {"name": "wv", "path": "harness/", "serves_properties": sorted(CHECKS), "kind_free_text": "Rust sensors/actuators: generators, concretiser of TLC-enumerated cases, walrus driver, wasmparser/gimli projections -> ndjson traces"},
        ],
        "checks": [],
        "not_applicable": [],
        "notes": "Every check: ./check <ID> [--tier quick|thorough]; exit 0 held / 1 VIOLATION / 2 tool error. Known findings: known_findings.json. See DESIGN.md.",
    }
    for i in IDS:
        if i in CHECKS:
            c = CHECKS[i]
            m["checks"].append({
                "property_id": i,
                "quick_cmd": "./check %s --tier quick" % i,
                "thorough_cmd": "./check %s --tier thorough" % i,
                "evidence_file": "evidence/%s.json" % i,
                "replay_cmd_template": "./check %s --replay {path}" % i,
                "engine": "tlc",
                "level_claimed": {"category": "model_checking", "text": c["text"], "design_ref": c["design_ref"]},
                "level_note": c["note"],
                "technique": c["technique"],
            })
        else:
            m["not_applicable"].append({"property_id": i, "reason": "check under construction in this build session (specification and harness not yet bound); not claimed yet"})
    json.dump(m, open(os.path.join(ROOT, "MANIFEST.json"), "w"), indent=1)
    print("checks:", len(m["checks"]), "not_applicable:", len(m["not_applicable"]))

main()
