#!/usr/bin/env python3
"""Regenerates MANIFEST.json from the table below (single source of truth for the interface)."""
import json, os, subprocess
ROOT = os.path.dirname(os.path.dirname(os.path.abspath(__file__)))
IDS = ["C%02d" % i for i in range(1, 21)]

CHECKS = {
    "C08": dict(
        technique="trace validation of recorded Module histories against the actions of Lifecycle.tla (TLC), design spec model-checked (EmitIsPure, RepeatedEmitsEqual, Fixpoint)",
        text="Lifecycle.tla models parse / emit / gc / reparse with respect to custom sections, names, producers, DWARF and the emitted bytes; TLC checks that Emit leaves the module state unchanged, that consecutive emits are equal and that reparse;emit is a fixpoint. Recorded histories (three scripts x two switch vectors per input) carry, per event, the Module's observable custom sections and the digest and inventory of the emitted bytes; each event is replayed as IsEvent /\\ bind /\\ spec action. Digests from three further OS processes are joined into the trace.",
        note="Trusted: TLC; FNV-1a 64-bit digests stand for byte equality (collision probability negligible for this purpose). 'Across processes' is a finite number of launches. One known finding (reparse after GC, same root cause as C06's).",
        design_ref="DESIGN.md §5 C08"),
    "C12": dict(
        technique="trace validation against Lifecycle.tla (C12 conjuncts) by TLC; placements enumerated exhaustively by TLC (Enum_Customs.tla)",
        text="Every placement of up to two unknown custom sections (duplicate names, empty payloads) before, between and after all 13 standard sections of a fixed module is enumerated by TLC and built; with fixtures and generated modules these run through the histories emit / gc;emit / emit;emit / emit;gc;emit;reparse;emit; after every call the sections held by the Module, and in every emitted binary the sequence of (name, payload digest), must equal the input's; the reparsed input must read back what was written.",
        note="Trusted: wasmparser section reader, TLC, 64-bit digests. 'Unknown' = not name, not producers, not .debug*.",
        design_ref="DESIGN.md §5 C12"),
    "C14": dict(
        technique="differential section-inventory relation over the whole 2^5 switch space evaluated by TLC (Trace_Config.tla) + trace validation against Lifecycle.tla",
        text="Each input is run under all 32 vectors of the boolean switches (names, producers, dwarf, preserve_code_transform, only_stable_features); TLC requires, for every pair of vectors differing in exactly one switch, that the emitted section inventories differ by exactly the section that switch governs; that a switched-off section is absent; that the producers fields are preserved in order with walrus recorded exactly once (also after repeated round trips, via the Lifecycle histories); and that the parse callback ran once per successful and never on a failed parse.",
        note="Trusted: wasmparser, TLC. DWARF generation is switched on only for inputs without debug sections or with well-formed synthesized DWARF. Lifecycle.tla plays the role DESIGN.md gave to Config.tla.",
        design_ref="DESIGN.md §5 C14"),
    "C03": dict(
        technique="TLA+ elision matcher (BodyOps.tla / Trace_Body.tla) run by TLC over recorded operator streams; design model Body.tla model-checked over all valid control strings",
        text="Body.tla models the validator fragment, walrus's control-stack parser (unreachable flags, if/else state) and its emitter, and TLC checks EmittedMatches/EmittedBalanced over every valid control string up to the bound; every such string is concretised and run through the real code together with an exhaustive operator sweep (every operator of the feature set x boundary immediates, in live and in dead position, operand types discovered by probing the validator), fixtures, generated modules and a real-world module; the matcher state machine must align each input function with its output function (same opcode, bit-identical immediates, resolved block signature, sigma-mapped entity operands, injective type-preserving local map, equal branch depths).",
        note="Trusted: wasmparser 0.214 operator decoding, TLC. Drop is enabled only for nop and syntactically dead operators; Keep is always allowed, so a walrus that elides less is not flagged. Bound: control strings of length <= 6 (quick) / 7 (thorough); generated bodies are samples.",
        design_ref="DESIGN.md §5 C03"),
    "C06": dict(
        technique="TLA+ declarative reachability (ModuleGraph.tla Reach/Iso) evaluated by TLC on recorded parse;gc;emit runs; GC worklist model Walrus.tla model-checked (GcExact)",
        text="Walrus.tla mirrors the worklist of passes/used.rs and the sweep of passes/gc.rs; TLC checks NoPanic, OutputIsIso and GcExact (kept = Reach, residue at most one memory) over all modules of the families; the families are concretised and, with fixtures, a real-world module and generated modules (a third with extra roots from a typed custom section), run through the real pass; TLC recomputes Reach as a least fixed point over the surviving operators and requires validity, Iso on the kept part, equal exports and no reachable entity dropped.",
        note="Trusted: wasmparser 0.214 (decoder + validator), TLC. Behavioural equality is derived from the structural relation (Iso of the reachable sub-module), not executed here (see C01). One known finding (see known_findings.json).",
        design_ref="DESIGN.md §5 C06"),
    "C07": dict(
        technique="TLA+ reachability recomputed on the emitted module by TLC (Trace_GC.tla), second-run stuttering; design invariants GcExact / SecondGcIsNoOp on Walrus.tla",
        text="On every recorded parse;gc;emit run TLC recomputes Reach on the *output* abstract module and requires that it covers every emitted import, function, table, memory, global and segment (tolerated residue: one memory when a data segment is emitted), that every emitted type is used, and that parse;gc;gc;emit produces the same bytes; the design model proves the same for the worklist algorithm on all family modules.",
        note="Trusted: wasmparser 0.214, TLC. Bounded by the families and by sampling of generated modules.",
        design_ref="DESIGN.md §5 C07"),
    "C04": dict(
        technique="TLA+ relation Iso(in,out,sigma) (ModuleGraph.tla) model-checked on the Walrus.tla pipeline model and evaluated by TLC on recorded round trips (trace validation)",
        text="Walrus.tla (parse/emit pipeline) is model-checked exhaustively over the four input families of Families.tla with invariants OutputIsIso and NothingDroppedWithoutPass; the same families are concretised to wasm and, together with all valid fixtures and generated modules (full, stable-only and MVP feature profiles), round-tripped through the real code; TLC evaluates Iso on every recorded (in, out, sigma) triple.",
        note="Trusted: wasmparser 0.214 as decoder of both binaries; TLC. The renumbering sigma is proposed from walrus's own index maps and checked, never assumed. Bounded: family sizes in Families.tla; generated modules are samples.",
        design_ref="DESIGN.md §5 C04"),
}

def main():
    hooks_commits = []
    try:
        out = subprocess.run(["git", "-C", "/repo", "log", "--format=%H %s"], capture_output=True, text=True).stdout
        hooks_commits = [l.split()[0] for l in out.splitlines() if " verif-hook:" in l or l.split(" ", 1)[1].startswith("verif-hook")]
    except Exception:
        pass
    m = {
        "version": 1,
        "setup_cmd": "./check setup",
        "hooks": {
            "guard": "walrus_verif",
            "enable": "harness/.cargo/config.toml passes --cfg walrus_verif to every crate of the harness build (walrus is a path dependency on /repo)",
            "baseline_off_cmd": "cd /repo && cargo test --workspace --no-fail-fast --offline",
            "source_commits": hooks_commits,
            "add_only": True,
        },
        "engines": [
            {"name": "tlc", "path": "spec/", "serves_properties": sorted(CHECKS), "kind_free_text": "TLA+ design specs (MC_*.cfg, exhaustive small scope) and trace specs (Trace_*.tla) evaluated by TLC 1.8"},
            {"name": "wv", "path": "harness/", "serves_properties": sorted(CHECKS), "kind_free_text": "Rust sensors/actuators: generators, concretiser of TLC-enumerated cases, walrus driver, wasmparser/gimli projections -> ndjson traces"},
        ],
        "checks": [],
        "not_applicable": [],
        "notes": "Every check: ./check <ID> [--tier quick|thorough]; exit 0 held / 1 VIOLATION / 2 tool error. Known findings: known_findings.json. See DESIGN.md.",
    }
    for i in IDS:
        if i in CHECKS:
            c = CHECKS[i]
            m["checks"].append({
                "property_id": i,
                "quick_cmd": "./check %s --tier quick" % i,
                "thorough_cmd": "./check %s --tier thorough" % i,
                "evidence_file": "evidence/%s.json" % i,
                "replay_cmd_template": "./check %s --replay {path}" % i,
                "engine": "tlc",
                "level_claimed": {"category": "model_checking", "text": c["text"], "design_ref": c["design_ref"]},
                "level_note": c["note"],
                "technique": c["technique"],
            })
        else:
            m["not_applicable"].append({"property_id": i, "reason": "check under construction in this build session (specification and harness not yet bound); not claimed yet"})
    json.dump(m, open(os.path.join(ROOT, "MANIFEST.json"), "w"), indent=1)
    print("checks:", len(m["checks"]), "not_applicable:", len(m["not_applicable"]))

main()
