#!/usr/bin/env python3
"""Regenerates MANIFEST.json from the table below (single source of truth for the interface)."""
import json, os, subprocess
ROOT = os.path.dirname(os.path.dirname(os.path.abspath(__file__)))
IDS = ["C%02d" % i for i in range(1, 21)]

CHECKS = {
    "C01": dict(
        technique="differential execution inside TLC: Exec.tla (small-step wasm-subset semantics, one state per instruction) runs input and output module over the same call sequence and compares observations",
        text="Exec.tla interprets an i32 subset (locals, globals, structured control, br/br_if/br_table, call, call_indirect, byte/word loads and stores on several memories, memory.size/grow/copy/fill/init, data.drop, table.size/copy/init/get/set/fill/grow, elem.drop, ref.null/ref.func/ref.is_null over several tables, host calls, instantiation with active/passive/declared segments and a local or imported start function). For each generated module of the subset and each fixture in it, TLC instantiates and executes the input and the walrus output on one instance each over the same calls (every exported function, twice) and requires equal instantiation outcome, results/traps, host-call trace and exported globals/memories/tables. Body.tla supplies the design-level fact that elision preserves order. In addition every valid control string (if/else/block/br/br_if/br_table/return/unreachable, nesting <= 3) up to length 7 enumerated from Body.tla is made executable (a host-call marker before every symbol, conditions taken from the argument bits) and run for all 8 condition vectors; multi-table modules exercise call_indirect per table; the import linkage (module, field, kind) of input and output is compared; an output that leaves the executable subset of its input is reported.",
        note="Trusted: TLC; the projection of binaries into Exec programs (wasmparser). Values are in Z/2^15; the subset excludes floats, SIMD, atomics and 64-bit instructions (reference values only flow between ref.func / ref.null and tables) - for those C01 follows from C03 (every operator/immediate/operand preserved) and C04. Function identity across the round trip is read off walrus's index maps.",
        design_ref="DESIGN.md §5 C01"),
    "C05": dict(
        technique="gate model ParseGate.tla model-checked; acceptance relation outcome=ok <=> independent validator verdict and hook-event gate order judged by TLC on recorded parses (Trace_Parse.tla)",
        text="ParseGate.tla models Module::parse as validate-then-interpret per payload with deferred function bodies and the final callback; TLC checks over all payload sequences up to the bound that nothing is interpreted before validation, bodies only after the whole binary, callback once on success, and termination. On the implementation, random bytes, structure-aware mutants, fixtures (valid and invalid), per-proposal modules and depth-10^5 nesting are parsed under both feature configurations in a child process with a watchdog; TLC requires outcome in {ok, err}, outcome = ok iff the standalone validator accepts under the same features, and that the hook events (validated / interpret / on_parse) form a behaviour of the gate.",
        note="Trusted: wasmparser's validator as the definition of validity, TLC. The space of byte strings is sampled. Hooks are compiled only with --cfg walrus_verif.",
        design_ref="DESIGN.md §5 C05"),
    "C09": dict(
        technique="Parallel.tla (all interleavings of workers claiming per-function jobs) model-checked for SameAsSerial; serial and parallel builds compared by TLC on digests, decisions and observed job orders (Trace_Parallel.tla)",
        text="Parallel.tla explores every interleaving of 3 workers over 4 jobs with every assignment of ok/error outcomes and checks that the collected vector, the first error in job order, the concatenation and the parallel `any` equal the serial ones. The harness is built twice (with and without walrus's parallel feature) from the same tree; many-function modules (1..300 functions, equal/unequal sizes, a third with two corrupted bodies), fixtures and a real-world module are processed serially and in parallel under RAYON_NUM_THREADS in {1,2,3,4,8,16}; TLC requires identical decisions, error messages and digests and that each observed job order (hook events) is a schedule of the serial job list.",
        note="Trusted: TLC, 64-bit digests. Real thread-pool schedules are sampled, not controlled; exhaustiveness is on the model side.",
        design_ref="DESIGN.md §5 C09"),
    "C10": dict(
        technique="row / subprogram relation judged by TLC (Trace_Dwarf.tla) on modules with synthesized DWARF (gimli::write) read back with gimli::read, relative to the code transform judged by C11; design level: Layout.tla (the DWARF address conversion of debug/expression.rs transcribed and checked over every small code-section configuration)",
        text="For generated modules, fixtures and many-function modules the harness synthesizes well-formed DWARF (v4 and v5, one subprogram per function, one row per instruction whose line number names the instruction, per-function and spanning sequences), runs parse;[gc|edit];emit with DWARF generation on and reads rows and subprograms back; TLC requires each output row at the start of the output instruction its instruction became with equal file/column/is_stmt, every surviving instruction's row exactly once, rows and subprograms of removed code absent or tombstoned, and each subprogram range equal to the function's output entry.",
        note="Trusted: gimli 0.26 (writer and reader), wasmparser, TLC. low_pc convention: start of the function's code-section entry. v5 rows naming file 0 are not synthesized. Two known findings about sequences spanning several functions.",
        design_ref="DESIGN.md §5 C10"),
    "C11": dict(
        technique="exactness relation on the CodeTransform (monotone, name-preserving, onto map per function; ranges; section start) judged by TLC (Trace_Xform.tla) against independently decoded layouts; design level: Layout.tla (PairsJoinSameInstruction, NoPairForUnwritten, RangesTile over every small configuration)",
        text="With preserve_code_transform on, a probe custom section records the CodeTransform it is handed; TLC checks per kept function that the pairs form a strictly increasing, name-preserving map from input operator starts onto all output operator starts except inserted ones, that every function range is the output entry [size LEB, end), that code_section_start is the offset of the code section's contents, and that no pair refers to code that was not emitted - for unchanged, GC'd and builder-edited modules, TLC-enumerated control strings, fixtures, many-function modules and a real-world module.",
        note="Trusted: wasmparser offsets, TLC. Which output operators are 'inserted' is determined from a marker constant (edits) and from if/else structure (the else walrus adds).",
        design_ref="DESIGN.md §5 C11"),
    "C15": dict(
        technique="trace validation of TLC-enumerated build histories against Builder.tla (re-executed by TLC, Flatten computed in TLA+), design invariants TreeShaped/FlatBalanced/BranchesInRange; Locals.tla (slot assignment) model-checked and its behaviours replayed through FunctionBuilder (Trace_Locals.tla)",
        text="Builder.tla models the FunctionBuilder arena (append and positional insert of stack-neutral units, block_at/loop_at/if_else_at, blocks and loops with signatures (i32)->(i32) and ()->(i32) made by InstrSeqType::new, dangling sequences attached later, br/br_if/br_table to enclosing sequences, value-carrying branches) and defines the in-order flattening with label depths. TLC enumerates every build history up to the bound (and random longer walks); each is replayed on the real builder (closure API at the end of a sequence, *_at API elsewhere), finished and emitted; the trace spec re-executes the history with the same actions and requires the decoded body to equal Flatten modulo an injective, type-preserving local map with the parameter pinned. Histories also attach dangling sequences as if/else arms, place br_table, use two parameters allocated out of id order; structure-only histories one step longer are enumerated separately. Locals.tla: locals allocated in any order, any of them parameters, the body naming some; the emitted slots must pin parameters, be injective and type preserving.",
        note="Trusted: wasmparser operator decoding, TLC. Units are stack-neutral by construction, so every enumerated tree is well typed; other instruction kinds are covered by C03.",
        design_ref="DESIGN.md §5 C15"),
    "C16": dict(
        technique="TLA+ transcription of both work-stack traversals checked against the recursive walk on all small trees (Traversal.tla); callback logs of recording visitors judged by TLC (Trace_Traversal.tla); stack-depth independence measured",
        text="Traversal.tla transcribes dfs_in_order and dfs_pre_order_mut with their explicit stacks over the trees of Builder.tla; TLC checks that the in-order event list equals the recursive walk and that the mutable traversal visits every sequence and instruction exactly once. On the implementation, recording visitors (immutable, mutable with default hooks, mutable with overridden hooks) run over fixtures, generated and builder-made functions; TLC compares every log with the recursive walk of the tree obtained by plain recursion, operands extracted by matching on the instruction. Depth 10^5 is parsed, traversed, GC'd and emitted on a 256 KiB stack in a child process.",
        note="Trusted: TLC. Stack-depth independence is observed, not modelled (beyond the absence of recursion in the transcribed algorithms).",
        design_ref="DESIGN.md §5 C16"),
    "C02": dict(
        technique="TLC invariants NoPanic / WFInvariant / EmittedBalanced on the pipeline, edit and body models; validity monitor (Trace_Valid.tla) and trace validation of TLC-generated edit histories (Trace_Edits.tla); Types.tla behaviours (types collected and added again) must emit without panic and validate",
        text="Walrus.tla (parse, GC worklist, section-ordered emission with index assignment) is model-checked over all families and pass sequences: every get_*_index of an emit action finds an assigned id (NoPanic). Edits.tla defines the well-formed edits (guards = no dangling reference) and TLC checks they keep the module closed. On the implementation every valid input x {none, GC} x names x producers must complete and validate, and TLC-generated well-formed edit scripts (every enabled single edit of sampled real modules plus random walks) are replayed through the public API, validated step by step and closed by emit and gc;emit which must validate.",
        note="Trusted: wasmparser validator with walrus's feature list, TLC. DWARF-on emission is exercised by C10's check. One known finding (GC vs. declaring passive segment).",
        design_ref="DESIGN.md §5 C02"),
    "C18": dict(
        technique="trace validation of TLC-generated edit histories against the state transformers of Edits.tla (st' = predicted state), transformers model-checked for the rewiring properties",
        text="Edits.tla gives replace_imported_func and replace_exported_func as transformers of the Module's observable state; TLC checks on small states and all edit sequences of length <= 3 that a replacement changes exactly the function (kept id, now local, same signature) and removes exactly its import, resp. adds exactly one function and retargets exactly one export. TLC then generates scripts from the states of real parsed modules (replacements on every function, failing ones included); after every API call the complete observable state must equal the predicted one, an Err must change nothing, and emit / gc;emit must validate.",
        note="Trusted: TLC, the public accessors used for the snapshot, wasmparser validator. The behavioural effect is derived from the state relation (callers keep naming the same id), not executed.",
        design_ref="DESIGN.md §5 C18"),
    "C13": dict(
        technique="names relation (forward / converse, modulo sigma and the observed local map) evaluated by TLC on recorded round trips (Trace_Names.tla); Locals.tla behaviours replayed through FunctionBuilder with named locals (Trace_Locals.tla, name conjuncts); NameMap.tla (names resolved through the parse-time index map, carried by entities, re-indexed at emission) model-checked, its behaviours replayed on real Modules with content-recognisable entities and validated step by step (Trace_NameMap.tla)",
        text="For every recorded round trip (with and without GC) TLC checks that each input name of a still-emitted entity (module, function, local, type, table, memory, global, element, data) is attached to the renumbered entity in the output name section and that every output name has such an origin (no migration); local names use the local correspondence observed by aligning local operands of the surviving operators; tolerated: unused locals/parameters, label/field/tag subsections, merged types.",
        note="Trusted: wasmparser name-section reader, TLC. The design-level parts are the renumbering model (Walrus.tla) and NameMap.tla (7 invariants, two slip switches that must each yield a counterexample); the forward/converse names relation on arbitrary modules is checked on the implementation. Functions whose local alignment is ambiguous are skipped for local names (counted in the evidence).",
        design_ref="DESIGN.md §5 C13"),
    "C17": dict(
        technique="trace validation of recorded collection-API histories against the actions of Arena.tla (TLC); histories enumerated exhaustively by TLC; Types.tla (the type interner in its setting) model-checked and its behaviours replayed on real Modules (Trace_Types.tla)",
        text="Arena.tla (tombstone arena + de-duplicating arena) is model-checked with the identifier-stability properties; all operation histories of the bounded length are enumerated by TLC and replayed, with random long histories, on each of the 11 real collections through the public API; every call's result (returned id, get result or absence/panic, iteration contents and order, len, lookup by value) is validated step by step by TLC with spec ids bound to real ids at allocation (a recycled id is rejected). The collections are also driven through their by-name and typed entry points and through iter_mut. Types.tla: type section with duplicate entries, entry types, builder-made functions, GC and find/add agreement; after every step the module's types must be the model's.",
        note="Trusted: TLC. A panic on a dead id counts as 'absent' (the property allows a panic or an explicit none). Custom-section ids are read from their Debug output.",
        design_ref="DESIGN.md §5 C17"),
    "C19": dict(
        technique="Iso relation of ModuleGraph.tla evaluated by TLC on (input binary, API state in on_parse, IndicesToIds) and (API state before emit, output binary, IdsToIndices in CustomSection::data)",
        text="Inside on_parse the harness snapshots the Module through the public API and queries IndicesToIds for every index of every space (functions, types, tables, memories, globals, elements, data, locals); inside a probe custom section's data() it queries IdsToIndices for every live id. TLC judges both maps with the full renumbering relation (attributes, references, order, imports, exports), types by signature, locals by declared type and parameter position, with and without GC (tombstoned ids). Walrus.tla carries ParseMapAgrees / EmitMapAgrees / IndexSpacesDense at design level.",
        note="Trusted: wasmparser, TLC, the public accessor functions used for the state snapshot.",
        design_ref="DESIGN.md §5 C19"),
    "C20": dict(
        technique="valid_F(in) => valid_F(out) over a family of reduced feature sets judged by TLC (Trace_Features.tla); encoding-choice model Features.tla with validator facts generated by probing; encoding-level rules from the proposals' binary format (segment flags, data-count section) for encodings the validator does not gate",
        text="Features.tla states walrus's encoding choices (element/data flags, data-count rule, block-type form, table immediates) and TLC checks that none needs a proposal the input's encoding did not need, against per-encoding requirements generated by probing wasmparser (FeatureFacts.tla). On the implementation, input and output of each round trip (with and without GC) are validated under all proposals minus every subset of size <= 2 and under the greedily minimal set; MVP-only modules and one family per proposal are generated.",
        note="Trusted: wasmparser's feature-gated validator defines 'validates under F'. Subsets larger than two removals are covered only through the minimal set.",
        design_ref="DESIGN.md §5 C20"),
    "C08": dict(
        technique="trace validation of recorded Module histories against the actions of Lifecycle.tla (TLC), design spec model-checked (EmitIsPure, RepeatedEmitsEqual, Fixpoint); Producers.tla RoundTripFixpoint with replay on real Modules",
        text="Lifecycle.tla models parse / emit / gc / reparse with respect to custom sections, names, producers, DWARF and the emitted bytes; TLC checks that Emit leaves the module state unchanged, that consecutive emits are equal and that reparse;emit is a fixpoint. Recorded histories (three scripts x two switch vectors per input) carry, per event, the Module's observable custom sections and the digest and inventory of the emitted bytes; each event is replayed as IsEvent /\\ bind /\\ spec action. Digests from three further OS processes are joined into the trace.",
        note="Trusted: TLC; FNV-1a 64-bit digests stand for byte equality (collision probability negligible for this purpose). 'Across processes' is a finite number of launches. One known finding (reparse after GC, same root cause as C06's).",
        design_ref="DESIGN.md §5 C08"),
    "C12": dict(
        technique="trace validation against Lifecycle.tla (C12 conjuncts) by TLC; placements enumerated exhaustively by TLC (Enum_Customs.tla)",
        text="Every placement of up to two unknown custom sections (duplicate names, empty payloads) before, between and after all 13 standard sections of a fixed module is enumerated by TLC and built; with fixtures and generated modules these run through the histories emit / gc;emit / emit;emit / emit;gc;emit;reparse;emit; after every call the sections held by the Module, and in every emitted binary the sequence of (name, payload digest), must equal the input's; the reparsed input must read back what was written.",
        note="Trusted: wasmparser section reader, TLC, 64-bit digests. 'Unknown' = not name, not producers, not .debug*.",
        design_ref="DESIGN.md §5 C12"),
    "C14": dict(
        technique="differential section-inventory relation over the whole 2^5 switch space evaluated by TLC (Trace_Config.tla) + trace validation against Lifecycle.tla; Producers.tla (ModuleProducers API, parse recording walrus, emit under the switch) model-checked and all behaviours up to the bound replayed (Trace_Producers.tla)",
        text="Each input is run under all 32 vectors of the boolean switches (names, producers, dwarf, preserve_code_transform, only_stable_features); TLC requires, for every pair of vectors differing in exactly one switch, that the emitted section inventories differ by exactly the section that switch governs; that a switched-off section is absent; that the producers fields are preserved in order with walrus recorded exactly once (also after repeated round trips, via the Lifecycle histories); and that the parse callback ran once per successful and never on a failed parse. The switch space is 2^6 (names, producers, dwarf, preserve_code_transform, only_stable_features, synthetic names) plus strict_validate off and the order generate_dwarf -> preserve_code_transform(false); inputs include modules carrying synthesized DWARF and code-less modules with a minimal unit.",
        note="Trusted: wasmparser, TLC. DWARF generation is switched on only for inputs without debug sections or with well-formed synthesized DWARF. Lifecycle.tla plays the role DESIGN.md gave to Config.tla.",
        design_ref="DESIGN.md §5 C14"),
    "C03": dict(
        technique="TLA+ elision matcher (BodyOps.tla / Trace_Body.tla) run by TLC over recorded operator streams; design model Body.tla model-checked over all valid control strings",
        text="Body.tla models the validator fragment, walrus's control-stack parser (unreachable flags, if/else state) and its emitter, and TLC checks EmittedMatches/EmittedBalanced over every valid control string up to the bound; every such string is concretised and run through the real code together with an exhaustive operator sweep (every operator of the feature set x boundary immediates, in live and in dead position, operand types discovered by probing the validator), fixtures, generated modules and a real-world module; the matcher state machine must align each input function with its output function (same opcode, bit-identical immediates, resolved block signature, sigma-mapped entity operands, injective type-preserving local map, equal branch depths).",
        note="Trusted: wasmparser 0.214 operator decoding, TLC. Drop is enabled only for nop and syntactically dead operators; Keep is always allowed, so a walrus that elides less is not flagged. Bound: control strings of length <= 6 (quick) / 7 (thorough); generated bodies are samples.",
        design_ref="DESIGN.md §5 C03"),
    "C06": dict(
        technique="TLA+ declarative reachability (ModuleGraph.tla Reach/Iso) evaluated by TLC on recorded parse;gc;emit runs; GC worklist model Walrus.tla model-checked (GcExact)",
        text="Walrus.tla mirrors the worklist of passes/used.rs and the sweep of passes/gc.rs; TLC checks NoPanic, OutputIsIso and GcExact (kept = Reach, residue at most one memory) over all modules of the families; the families are concretised and, with fixtures, a real-world module and generated modules (a third with extra roots from a typed custom section), run through the real pass; TLC recomputes Reach as a least fixed point over the surviving operators and requires validity, Iso on the kept part, equal exports and no reachable entity dropped.",
        note="Trusted: wasmparser 0.214 (decoder + validator), TLC. Behavioural equality is derived from the structural relation (Iso of the reachable sub-module), not executed here (see C01). One known finding (see known_findings.json).",
        design_ref="DESIGN.md §5 C06"),
    "C07": dict(
        technique="TLA+ reachability recomputed on the emitted module by TLC (Trace_GC.tla), second-run stuttering; design invariants GcExact / SecondGcIsNoOp on Walrus.tla; Types.tla NoGarbageAfterGc / GcIdempotent model-checked, behaviours replayed on real Modules (Trace_Types.tla); GC also judged on modules built and edited through the API",
        text="On every recorded parse;gc;emit run TLC recomputes Reach on the *output* abstract module and requires that it covers every emitted import, function, table, memory, global and segment (tolerated residue: one memory when a data segment is emitted), that every emitted type is used, and that parse;gc;gc;emit produces the same bytes; the design model proves the same for the worklist algorithm on all family modules.",
        note="Trusted: wasmparser 0.214, TLC. Bounded by the families and by sampling of generated modules.",
        design_ref="DESIGN.md §5 C07"),
    "C04": dict(
        technique="TLA+ relation Iso(in,out,sigma) (ModuleGraph.tla) model-checked on the Walrus.tla pipeline model and evaluated by TLC on recorded round trips (trace validation); Types.tla ParseMapAgrees / FuncsTyped with replay on real Modules (signatures)",
        text="Walrus.tla (parse/emit pipeline) is model-checked exhaustively over the four input families of Families.tla with invariants OutputIsIso and NothingDroppedWithoutPass; the same families are concretised to wasm and, together with all valid fixtures and generated modules (full, stable-only and MVP feature profiles), round-tripped through the real code; TLC evaluates Iso on every recorded (in, out, sigma) triple.",
        note="Trusted: wasmparser 0.214 as decoder of both binaries; TLC. The renumbering sigma is proposed from walrus's own index maps and checked, never assumed. Bounded: family sizes in Families.tla; generated modules are samples.",
        design_ref="DESIGN.md §5 C04"),
}

def main():
    hooks_commits = []
    try:
        out = subprocess.run(["git", "-C", "/repo", "log", "--format=%H %s"], capture_output=True, text=True).stdout
        hooks_commits = [l.split()[0] for l in out.splitlines() if " verif-hook:" in l or l.split(" ", 1)[1].startswith("verif-hook")]
    except Exception:
        pass
    m = {
        "version": 1,
        "setup_cmd": "./check setup",
        "hooks": {
            "guard": "walrus_verif",
            "enable": "harness/.cargo/config.toml passes --cfg walrus_verif to every crate of the harness build (walrus is a path dependency on /repo)",
            "baseline_off_cmd": "cd /repo && cargo test --workspace --no-fail-fast --offline",
            "source_commits": hooks_commits,
            "add_only": True,
        },
        "engines": [
            {"name": "tlc", "path": "spec/", "serves_properties": sorted(CHECKS), "kind_free_text": "TLA+ design specs (MC_*.cfg, exhaustive small scope) and trace specs (Trace_*.tla) evaluated by TLC 1.8"},
            {"name": "wv", "path": "harness/", "serves_properties": sorted(CHECKS), "kind_free_text": "Rust sensors/actuators: generators, concretiser of TLC-enumerated cases, walrus driver, wasmparser/gimli projections -> ndjson traces"},
        ],
        "checks": [],
        "not_applicable": [],
        "notes": "Every check: ./check <ID> [--tier quick|thorough]; exit 0 held / 1 VIOLATION / 2 tool error. Known findings: known_findings.json. See DESIGN.md.",
    }
    for i in IDS:
        if i in CHECKS:
            c = CHECKS[i]
            m["checks"].append({
                "property_id": i,
                "quick_cmd": "./check %s --tier quick" % i,
                "thorough_cmd": "./check %s --tier thorough" % i,
                "evidence_file": "evidence/%s.json" % i,
                "replay_cmd_template": "./check %s --replay {path}" % i,
                "engine": "tlc",
                "level_claimed": {"category": "model_checking", "text": c["text"], "design_ref": c["design_ref"]},
                "level_note": c["note"],
                "technique": c["technique"],
            })
        else:
            m["not_applicable"].append({"property_id": i, "reason": "check under construction in this build session (specification and harness not yet bound); not claimed yet"})
    json.dump(m, open(os.path.join(ROOT, "MANIFEST.json"), "w"), indent=1)
    print("checks:", len(m["checks"]), "not_applicable:", len(m["not_applicable"]))

main()
