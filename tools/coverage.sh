#!/bin/bash
# Which lines of walrus do the checks' inputs execute?  (Diagnostic only, not a registered check: a change in a line
# that no check executes cannot be detected by conformance, so uncovered regions are where new input shapes are needed.)
#   tools/coverage.sh [ID ...]      default: all twenty quick checks
# Builds the harness with -C instrument-coverage on the nightly toolchain (it ships llvm-cov / llvm-profdata) into a
# scratch directory outside /verif and /repo, runs the quick checks with that binary and prints per-file line coverage
# of /repo/src and /repo/crates/macro plus the uncovered lines (to .work/coverage/).
set -e
ROOT=$(cd "$(dirname "$0")/.." && pwd)
SCRATCH=${VERIF_COV_DIR:-/tmp/wvcov}
TOOLS=$(ls -d ~/.rustup/toolchains/nightly-x86_64-unknown-linux-gnu/lib/rustlib/*/bin | head -1)
mkdir -p "$SCRATCH/prof" "$ROOT/.work/coverage"
rm -f "$SCRATCH"/prof/*.profraw
(cd "$ROOT/harness" && LLVM_PROFILE_FILE="$SCRATCH/prof/build-%p.profraw" RUSTFLAGS="-C instrument-coverage --cfg walrus_verif --check-cfg cfg(walrus_verif)" CARGO_TARGET_DIR="$SCRATCH" cargo +nightly build --release --offline 2>&1 | tail -1)
IDS=${@:-C01 C02 C03 C04 C05 C06 C07 C08 C09 C10 C11 C12 C13 C14 C15 C16 C17 C18 C19 C20}
for p in $IDS; do
  LLVM_PROFILE_FILE="$SCRATCH/prof/$p-%p-%8m.profraw" VERIF_WV_BIN="$SCRATCH/release/wv" VERIF_EVIDENCE_DIR="$ROOT/.work/coverage/evidence" \
    "$ROOT/check" $p --tier quick 2>&1 | grep -E "^\[C|VIOLATION" || true
done
"$TOOLS/llvm-profdata" merge -sparse "$SCRATCH"/prof/*.profraw -o "$SCRATCH/wv.profdata"
"$TOOLS/llvm-cov" report "$SCRATCH/release/wv" -instr-profile="$SCRATCH/wv.profdata" --ignore-filename-regex='(\.cargo|rustc|/verif/)' > "$ROOT/.work/coverage/report.txt"
"$TOOLS/llvm-cov" show "$SCRATCH/release/wv" -instr-profile="$SCRATCH/wv.profdata" --ignore-filename-regex='(\.cargo|rustc|/verif/)' --show-line-counts-or-regions > "$ROOT/.work/coverage/show.txt"
# uncovered lines: "   123|      0|code"
grep -E "^/repo|^ +[0-9]+\| +0\|" "$ROOT/.work/coverage/show.txt" > "$ROOT/.work/coverage/uncovered.txt" || true
grep -E "^(src|crates|Filename|TOTAL|/repo)" "$ROOT/.work/coverage/report.txt" | awk "{print \$1, \$(NF-5), \$(NF-4), \$(NF-3), \$(NF-2), \$(NF-1), \$NF}" | tail -80
